"""C08 — output options change only the lexical form, never the content (DESIGN.md §5 C08, design/C08.md).

proof:          lean/XalanModel/Props/C08.lean over the hand model of XalanIndentWriter / FormatterToXMLUnicode
                (lean/XalanModel/C08/*.lean) and over the regenerated call-point lists and HTML element table
translators:    translate/c08_callpoints.py, translate/c08_html_table.py
correspondence: harness/c08_serialize.cpp (real serializers in-process, real XalanTransformer) vs
                lean/Driver/C08.lean (xm_c08) on the same request lines; on every implementation reply the
                specification predicates of the property are evaluated (independent of the model): the output is
                parsed (expat / HTML reader / raw text) and the trees are compared between option settings and with
                the generated result tree.
"""
import json
import os
import re
import urllib.parse
import xml.parsers.expat
from html.entities import name2codepoint

from vlib import common
from vlib.common import Rng
from gen import c08_gen as G

CLAIMED = True
LEVEL = "proof"
TECHNIQUE = ("Lean 4 proofs (erasure, invariants by induction over SAX event sequences, simulation over result trees) about hand "
             "models of the XML and HTML serializers' indent state machines, option selection and the text method; the models' "
             "call sequences, character-class tables, HTML element and entity tables and five source facts are regenerated from "
             "/repo by two translators on every run; a correspondence run compares the model's rendering exactly with the real "
             "serializers and XalanTransformer and evaluates parse-back predicates (expat, an HTML reader, raw text) on every "
             "real output")
LEVEL_TEXT = ("Machine-checked, for every SAX event sequence and every option setting of the models: erasing the tokens the "
              "indent handler wrote gives the non-indenting stream, for the XML serializer (indent_erasure) and for the HTML "
              "serializer on both its element paths (html_indent_erasure); no inserted token is adjacent to a character-data "
              "token, so indentation only adds new whitespace-only text nodes between tags (indent_not_adjacent_to_text for "
              "the source as it is now; html_indent_not_adjacent_to_text for every sequence in which no void element is given "
              "children); version, encoding, standalone, omit-xml-declaration, doctype, indent amount and "
              "cdata-section-elements never change the content-bearing tokens (options_lexical, cdata_sections_lexical); the "
              "raw flag set by the <?Xalan raw?> marker of a result tree fragment affects exactly the next text event, whether "
              "characters() or cdata() delivers it (raw_flag_exact, raw_flag_one_text_event, html_raw_flag_exact), and every "
              "function of the source that tests the flag resets it (raw_flag_consumers_reset, regenerated); the "
              "text method writes the string-value of the result tree and, once FormatterToText reports unrepresentable "
              "characters, never a substituted text (text_method_spec, text_method_encoded_spec); void elements get no end "
              "tag and the regenerated HTML tables satisfy what the lookups need (html_void_no_end_tag, html_void_and_raw_flags, "
              "html_table_sorted, html_entities_sorted). Counterexample theorems record where an unrepaired source violates a "
              "statement. The models are tied to the working tree by callpoints_match over regenerated call sequences and by "
              "exact comparison of model rendering and real output on ~30 000 (quick) / ~305 000 (thorough) generated cases.")
LEVEL_NOTE = ("Trusted: the Lean kernel (leanchecker re-check in the thorough tier); axioms propext, Classical.choice, Quot.sound "
              "only; the hand transcriptions of FormatterToXMLUnicode.hpp, XalanIndentWriter.hpp, FormatterToHTML.cpp, the "
              "FormatterToXML base, FormatterToText.cpp, StylesheetRoot::processOutputSpec/setupFormatterListener and the "
              "flushPending HTML switch (checked by the translators' shape tests, callpoints_match and the correspondence run; "
              "bounded by generator coverage, which is reported in the evidence); the two regex translators; harness, "
              "generator, expat and the HTML reader of checks/c08.py as parse-back oracles. Modelled, not verified: "
              "transcoders/ICU/Xerces, XalanOutputStream buffering, characters outside the BMP in HTML and under non-Unicode "
              "XML encodings (read-back predicates only), non-ASCII comments/PIs in HTML; the legacy FormatterToXML consumers of "
              "m_nextIsRaw are covered by the translator obligation and, as base of FormatterToHTML, by the HTML correspondence. "
              "html_indent_not_adjacent_to_text assumes no void element is given children (counterexample proved and replayed). "
              "The UTF-8 encoder of XalanUTF8Writer is modelled (utf8_bulk_eq_unitwise, tied by the regenerated loop-shape facts and a "
              "byte-for-byte comparison with the real writer); the other writers and the byte order of their writes are C04's "
              "(encoding_writers_flush_before_bulk_write restates its regenerated facts). Two known findings: disable-output-escaping "
              "text with a character outside the BMP under a non-Unicode encoding (repair proposed, needs C04's translator to accept "
              "the new loop) and non-characters accepted in names / PI targets / disable-output-escaping text.")
DESIGN_REF = "DESIGN.md section 5, C08; design/C08.md"

P = "XalanModel.Props.C08."
THEOREMS = [P + n for n in [
    "indent_erasure",
    "indent_not_adjacent_to_text",
    "indent_not_adjacent_to_text_partial",
    "indent_adjacent_cdata_counterexample",
    "indent_adjacent_raw_counterexample",
    "indent_leading_text_counterexample",
    "options_lexical",
    "cdata_sections_lexical",
    "text_method_spec",
    "text_method_ignores_options",
    "text_method_encoded_spec",
    "text_method_substitution_counterexample",
    "raw_flag_exact",
    "raw_flag_one_text_event",
    "html_raw_flag_exact",
    "raw_flag_consumers_reset",
    "html_raw_scoped_to_script_style",
    "engine_slice_spec",
    "utf8_bulk_eq_unitwise",
    "utf8_bulk_loop_advances",
    "encoding_writers_flush_before_bulk_write",
    "callpoints_match",
    "html_table_sorted",
    "html_entities_sorted",
    "html_void_and_raw_flags",
    "html_void_no_end_tag",
    "html_indent_erasure",
    "html_text_before_namespaced_ok",
    "html_raw_before_namespaced_counterexample",
    "html_indent_not_adjacent_to_text",
    "html_void_with_children_counterexample",
]]

WS = " \t\r\n"


# ------------------------------------------------------------------------------------------------
# parse-back oracles

def parse_xml(data, enc=None):
    """bytes -> list of top-level nodes; adjacent character data merged.  `enc`: the encoding the output was
    requested in (given to the parser as external encoding information, needed when the declaration is omitted)"""
    if isinstance(data, str):
        # already decoded with the requested encoding: hand it over as UTF-8 with the encoding given externally
        # (external encoding information overrides the declaration)
        data = data.lstrip("\ufeff").encode("utf-8")
        enc = "UTF-8"
    p = xml.parsers.expat.ParserCreate(enc if enc in ("UTF-8", "UTF-16", "ISO-8859-1", "US-ASCII") else None)
    p.buffer_text = True
    root = []
    stack = [root]

    def add_text(t):
        cur = stack[-1]
        if cur is root and t.strip(WS) == "":
            return
        if cur and cur[-1][0] == "text":
            cur[-1] = ("text", cur[-1][1] + t)
        else:
            cur.append(("text", t))

    def start(name, attrs):
        kids = []
        stack[-1].append(("elem", name, sorted(attrs.items()), kids))
        stack.append(kids)

    def end(name):
        stack.pop()
    p.StartElementHandler = start
    p.EndElementHandler = end
    p.CharacterDataHandler = add_text
    p.CommentHandler = lambda d: stack[-1].append(("comment", d))
    p.ProcessingInstructionHandler = lambda t, d: stack[-1].append(("pi", t, d))
    p.Parse(data, True)
    return root


def expected_tree(nodes):
    """the generated result tree as a parser reports it (adjacent text merged, PI data left-trimmed)"""
    out = []
    for n in nodes:
        if n[0] == "elem":
            out.append(("elem", n[1], sorted(n[2]), expected_tree(n[3])))
        elif n[0] in ("text", "raw", "rtfraw"):
            if n[1] == "":
                continue
            if out and out[-1][0] == "text":
                out[-1] = ("text", out[-1][1] + n[1])
            else:
                out.append(("text", n[1]))
        elif n[0] == "comment":
            out.append(("comment", n[1]))
        elif n[0] == "pi":
            out.append(("pi", n[1], n[2].lstrip(WS)))
    return out


def asciify(nodes):
    """same tree with every character outside printable ASCII / TAB / LF / CR replaced (used where CDATA sections
    meet a non-Unicode encoding: unrepresentable characters in CDATA are C04's subject)"""
    def f(t):
        return "".join(c if (32 <= ord(c) < 127 or c in "\t\n\r") else "u" for c in t)
    out = []
    for n in nodes:
        if n[0] == "elem":
            out.append(("elem", n[1], [(a, f(v)) for a, v in n[2]], asciify(n[3])))
        elif n[0] == "pi":
            out.append(("pi", n[1], f(n[2])))
        else:
            out.append((n[0], f(n[1])))
    return out


def tab_or_cr_outside_text(nodes, cdata_elems, in_cd=False):
    """does the tree have a TAB or CR in a comment, a PI or a text that is written as a CDATA section"""
    for n in nodes:
        if n[0] == "elem":
            if tab_or_cr_outside_text(n[3], cdata_elems, n[1] in cdata_elems):
                return True
        elif n[0] in ("comment", "pi") or (n[0] == "text" and in_cd):
            if any(c in "\t\r" for c in "".join(n[1:])):
                return True
    return False


def cr_in_cdata_text(nodes, cdata_elems, in_cd=False):
    for n in nodes:
        if n[0] == "elem":
            if cr_in_cdata_text(n[3], cdata_elems, n[1] in cdata_elems):
                return True
        elif n[0] == "text" and in_cd and "\r" in n[1]:
            return True
    return False


def cr_to_lf(nodes):
    out = []
    for n in nodes:
        if n[0] == "elem":
            out.append(("elem", n[1], n[2], cr_to_lf(n[3])))
        elif n[0] == "text":
            # line ends dropped altogether: CR LF reads back as one LF when both are in one CDATA section and as two
            # when the text was delivered in two events (two sections); only used to recognise the recorded finding
            out.append(("text", n[1].replace("\r", "").replace("\n", "")))
        else:
            out.append(n)
    return out


MAXCHAR = {"ISO-8859-1": 0xFF, "US-ASCII": 0x7F}


def cdata_unrep_class(evs, enc):
    """which of the two shapes C04 records as defective occur in the CDATA texts of this event script under this
    encoding: a text (one cdata event) that ENDS in an unrepresentable character, an unrepresentable character
    directly followed by "]]>".  Empty for Unicode encodings."""
    mx = MAXCHAR.get(enc)
    out = set()
    if mx is None:
        return out
    for e in evs:
        if e[0] != "C" or not e[1]:
            continue
        t = e[1]
        # a line feed is written without re-opening the section, so it does not change "outside"
        u = t.rstrip("\n")
        if u and ord(u[-1]) > mx:
            out.add("end")
        for i, c in enumerate(t):
            if ord(c) > mx and t[i + 1:].lstrip("\n")[:3] == "]]>":
                out.add("before-]]>")
    return out


def valid_units(t):
    """string (python str, possibly with lone surrogates) is a sequence of XML characters"""
    i = 0
    while i < len(t):
        c = ord(t[i])
        if 0xD800 <= c <= 0xDBFF:
            if i + 1 >= len(t) or not (0xDC00 <= ord(t[i + 1]) <= 0xDFFF):
                return False
            i += 1
        elif 0xDC00 <= c <= 0xDFFF or c in (0xFFFE, 0xFFFF, 0):
            return False
        i += 1
    return True


def enc_class(enc):
    return "UTF-16" if enc.startswith("UTF-16") else "UTF-8" if enc in ("UTF-8", "") else "non-Unicode"


def iter_nodes(nodes):
    for n in nodes:
        yield n
        if n[0] == "elem":
            yield from iter_nodes(n[3])


def name_strings(doc):
    for n in iter_nodes(doc):
        if n[0] == "elem":
            yield n[1]
            for a, _ in n[2]:
                yield a
        elif n[0] == "pi":
            yield n[1]
            yield n[2]
        elif n[0] == "comment":
            yield n[1]


def has_raw(nodes):
    return any(n[0] in ("raw", "rtfraw") or (n[0] == "elem" and has_raw(n[3])) for n in nodes)


def is_ws_text(n):
    return n[0] == "text" and n[1].strip(WS) == ""


def embeds(ind, base, ci=False):
    """`ind` equals `base` once some whitespace-only text nodes of `ind` that stand alone between two
    non-text nodes (or at an end) are deleted.  Returns None or a description of the first difference."""
    i = j = 0
    while i < len(ind) or j < len(base):
        a = ind[i] if i < len(ind) else None
        b = base[j] if j < len(base) else None
        if a is not None and b is not None and node_match(a, b, ci) is None:
            i += 1
            j += 1
            continue
        if a is not None and is_ws_text(a) and not (b is not None and b[0] == "text"):
            i += 1
            continue
        if a is not None and b is not None and a[0] == "elem" and b[0] == "elem":
            return node_match(a, b, ci)
        return "children differ at %d/%d: %r vs %r" % (i, j, short(a), short(b))
    return None


def node_match(a, b, ci):
    if a[0] != b[0]:
        return "node kinds differ: %r vs %r" % (short(a), short(b))
    if a[0] == "elem":
        an, bn = (a[1].lower(), b[1].lower()) if ci else (a[1], b[1])
        if an != bn:
            return "element names differ: %r vs %r" % (a[1], b[1])
        if a[2] != b[2]:
            return "attributes of <%s> differ: %r vs %r" % (a[1], a[2], b[2])
        return embeds(a[3], b[3], ci)
    if a != b:
        return "%s nodes differ: %r vs %r" % (a[0], short(a), short(b))
    return None


def short(n):
    if n is None:
        return None
    if n[0] == "elem":
        return "<%s…>" % n[1]
    return n


def tree_eq(a, b):
    return a == b


# ---- HTML reader (driven by the translated element table)

class HtmlTable:
    def __init__(self, path):
        d = json.load(open(path))
        self.flags = d["flags"]
        self.aflags = d["attrflags"]
        self.dummy = d["dummy"]
        self.tab = {e["name"].upper(): e for e in d["table"]}

    def elem(self, name):
        e = self.tab.get(name.upper())
        return e["flags"] if e else self.dummy

    def is_(self, name, flag):
        return bool(self.elem(name) & self.flags[flag])

    def attr_is(self, ename, aname, flag):
        e = self.tab.get(ename.upper())
        if not e:
            return False
        for a, f in e["attrs"]:
            if a.upper() == aname.upper():
                return bool(f & self.aflags[flag])
        return False


# HTML 4.01: elements declared EMPTY / with CDATA content — fixed here, NOT taken from the translated table, so that
# a change of the table cannot move the oracle (Props.C08.html_void_and_raw_flags ties the table to the same lists)
HTML4_VOID = {"AREA", "BASE", "BASEFONT", "BR", "COL", "FRAME", "HR", "IMG", "INPUT", "ISINDEX", "LINK", "META", "PARAM"}
HTML4_RAW = {"SCRIPT", "STYLE"}

ENT = re.compile(r"&(#[0-9]+|#x[0-9a-fA-F]+|[A-Za-z][A-Za-z0-9]*);")


def html_unescape(t):
    def rep(m):
        x = m.group(1)
        if x.startswith("#x"):
            return chr(int(x[2:], 16))
        if x.startswith("#"):
            return chr(int(x[1:]))
        if x in name2codepoint:
            return chr(name2codepoint[x])
        raise ValueError("unknown entity &%s;" % x)
    return ENT.sub(rep, t)


def parse_html(text, tab):
    """small reader for what FormatterToHTML emits: void elements have no end tag, script/style content is raw,
    attributes may be minimised, `<?t d>` processing instructions, `<!DOCTYPE …>` skipped"""
    pos = 0
    root = []
    stack = [(None, root)]

    def add_text(t):
        if t == "":
            return
        cur = stack[-1][1]
        if cur is root and t.strip(WS) == "":
            return
        if cur and cur[-1][0] == "text":
            cur[-1] = ("text", cur[-1][1] + t)
        else:
            cur.append(("text", t))
    n = len(text)
    while pos < n:
        if text.startswith("<!--", pos):
            e = text.index("-->", pos + 4)
            stack[-1][1].append(("comment", text[pos + 4:e]))
            pos = e + 3
        elif text.startswith("<!DOCTYPE", pos):
            pos = text.index(">", pos) + 1
        elif text.startswith("<?", pos):
            e = text.index(">", pos)
            body = text[pos + 2:e]
            m = re.match(r"([^ \t\r\n]+)[ \t\r\n]*(.*)$", body, re.S)
            stack[-1][1].append(("pi", m.group(1), html_unescape(m.group(2))))
            pos = e + 1
        elif text.startswith("</", pos):
            e = text.index(">", pos)
            name = text[pos + 2:e]
            if stack[-1][0] is None or stack[-1][0].lower() != name.lower():
                raise ValueError("end tag </%s> does not match open <%s>" % (name, stack[-1][0]))
            stack.pop()
            pos = e + 1
        elif text[pos] == "<":
            m = re.compile(r"<([A-Za-z_][-A-Za-z0-9_.:]*)").match(text, pos)
            if not m:
                raise ValueError("stray '<' at %d" % pos)
            name = m.group(1)
            pos = m.end()
            attrs = []
            while True:
                m = re.compile(r"[ \t\r\n]+([A-Za-z_][-A-Za-z0-9_.:]*)(?:=\"([^\"]*)\")?").match(text, pos)
                if not m:
                    break
                attrs.append((m.group(1), None if m.group(2) is None else html_unescape(m.group(2))))
                pos = m.end()
            kids = []
            m = re.compile(r" ?/>").match(text, pos)
            if m and ":" in name:
                # empty-element tag of a namespaced element (inherited FormatterToXML::endElement)
                stack[-1][1].append(("elem", name, attrs, kids))
                pos = m.end()
                continue
            if text[pos] != ">":
                raise ValueError("malformed start tag <%s at %d: %r" % (name, pos, text[pos:pos + 20]))
            pos += 1
            stack[-1][1].append(("elem", name, attrs, kids))
            if name.upper() in HTML4_VOID:
                continue
            if name.upper() in HTML4_RAW:
                m = re.compile(r"</" + re.escape(name) + r">", re.I).search(text, pos)
                if not m:
                    raise ValueError("unterminated raw element <%s>" % name)
                if m.start() > pos:
                    kids.append(("text", text[pos:m.start()]))
                pos = m.end()
                continue
            stack.append((name, kids))
        else:
            e = text.find("<", pos)
            if e < 0:
                e = n
            add_text(html_unescape(text[pos:e]))
            pos = e
    if len(stack) != 1:
        raise ValueError("unclosed element <%s>" % stack[-1][0])
    return root


def html_norm(nodes, tab, drop_meta, ename=None):
    """normalise a tree for the HTML comparison: lower-case names, attributes sorted, minimised attribute = its name
    or empty, URL attributes percent-decoded, the META the serializer inserts as first child of HEAD dropped"""
    out = []
    first_elem = True
    for idx, n in enumerate(nodes):
        if n[0] == "elem":
            was_first, first_elem = first_elem, False
            if (drop_meta and ename is not None and tab.is_(ename, "HEADELEM") and was_first and n[1].upper() == "META"
                    and [a.lower() for a, _ in n[2]] == ["http-equiv", "content"]):
                continue
            attrs = []
            for a, v in n[2]:
                if v is None or (tab.attr_is(n[1], a, "ATTREMPTY") and (v == "" or v.lower() == a.lower())):
                    v = "\0min"
                elif tab.attr_is(n[1], a, "ATTRURL"):
                    v = urllib.parse.unquote(v)
                attrs.append((a, v))
            out.append(("elem", n[1].lower(), sorted(attrs), html_norm(n[3], tab, drop_meta, n[1])))
        elif n[0] == "text":
            if out and out[-1][0] == "text":
                out[-1] = ("text", out[-1][1] + n[1])
            else:
                out.append(n)
        else:
            out.append(n)
    return out


# ------------------------------------------------------------------------------------------------
# option settings

ENCODINGS = ["UTF-8", "UTF-16", "ISO-8859-1", "US-ASCII"]
XF_ENCODINGS = ENCODINGS + ["UTF-16BE", "UTF-16LE"]
PY_ENC = {"UTF-8": "utf-8", "UTF-16": "utf-16", "ISO-8859-1": "latin-1", "US-ASCII": "ascii", "": "utf-8",
          "UTF-16LE": "utf-16-le", "UTF-16BE": "utf-16-be"}


def sax_variants(r, thorough):
    """option settings applied to one event script: the base + single-option and random multi-option changes"""
    b = dict(G.BASE_CFG)
    v = [("base", b)]

    def mk(tag, **kw):
        c = dict(b)
        c.update(kw)
        v.append((tag, c))
    mk("indent0", indent=True, amount=0)
    mk("indent%d" % r.range(1, 4), indent=True, amount=r.range(1, 4))
    mk("encU16", enc="UTF-16")
    mk("encU16BE", enc="UTF-16BE")
    mk("encU16LE", enc="UTF-16LE")
    mk("encL1", enc="ISO-8859-1")
    mk("encA", enc="US-ASCII")
    mk("encN+indent", enc=r.choice(["ISO-8859-1", "US-ASCII"]), indent=True, amount=r.range(0, 2))
    mk("omitdecl", xmldecl=False)
    mk("standalone", standalone=r.choice(["yes", "no"]), xmldecl=r.chance(1, 2))
    mk("doctype", dsys="sys.dtd", dpub=r.choice(["", "-//X//DTD y//EN", "-//W3C//DTD XHTML 1.0 Strict//EN"]))
    mk("v11", ver="1.1")
    mk("supdoctype", dsys="s" * r.choice([0, 3, 470, 509, 510, 511]) + "\U0001f600.dtd", dpub=r.choice(["", "-//X//DTD y//EN"]),
       enc=r.choice(["UTF-8", "UTF-8", "UTF-16", "UTF-16BE"]))
    mk("longdoctype", dsys="s" * r.choice([511, 513, 1025]) + ".dtd", dpub=r.choice(["", "-//X//" + "p" * 600 + "//EN"]),
       enc=r.choice(["UTF-16", "UTF-8", "ISO-8859-1"]))
    n = 4 if thorough else 2
    for k in range(n):
        mk("mix%d" % k, indent=r.chance(2, 3), amount=r.range(0, 5), enc=r.choice(ENCODINGS), xmldecl=r.chance(3, 4),
           standalone=r.choice(["", "yes"]), dsys=r.choice(["", "s.dtd"]), dpub=r.choice(["", "-//W3C//DTD XHTML 1.1//EN"]),
           ver=r.choice(["1.0", "1.1"]))
    return v


def decode_out(hexs, enc):
    b = b"" if hexs == "-" else bytes.fromhex(hexs)
    return b, b.decode(PY_ENC.get(enc, "utf-8"), "surrogatepass" if enc == "UTF-16" else "strict")


# ------------------------------------------------------------------------------------------------

class Runner:
    def __init__(self, ctx, harness, model, work):
        self.ctx, self.harness, self.model, self.work = ctx, harness, model, work

    def run(self, lines, tag):
        req = os.path.join(self.work, "c08_%s.req" % tag)
        with open(req, "w") as f:
            f.write("\n".join(lines) + "\n")
        il, ml, irc, mrc, ierr, merr = common.run_pair([self.harness], [self.model], req, timeout=3000)
        return il, ml, irc, mrc, ierr, merr


def model_text(reply):
    if not reply.startswith("ok "):
        return None
    return G.unhx4(reply[3:])


def check_xml_group(ctx, state, doc, evs, variants, replies, mreplies, lines, cdata_elems=(), kind="sax"):
    """replies: implementation replies (one per variant).  Evaluates the property predicates and the
    model correspondence for one event script under several option settings."""
    raw = has_raw(doc)
    if kind == "sax":
        content_bad = not all(valid_units(x) for e in evs for x in
                              ([e[1]] if e[0] in ("T", "C", "M") else [e[2]] if e[0] == "P" else [v for _, v in e[2]] if e[0] == "S" else []))
        bulk_bad = not all(valid_units(x) for e in evs for x in
                           ([e[1]] if e[0] in ("R", "E") else [e[1]] if e[0] == "P" else [e[1]] + [a for a, _ in e[2]] if e[0] == "S" else []))
    else:
        content_bad = bulk_bad = False
    if content_bad or bulk_bad:
        # unpaired surrogate, U+FFFE, U+FFFF, NUL: not XML characters, every setting must refuse them.  In text, CDATA,
        # attribute values, comments and PI data the serializer does; in the strings it writes through the writers' bulk
        # path (names, PI targets, disable-output-escaping text) it does not everywhere (recorded finding)
        for (tag, cfg), rep, mrep, line in zip(variants, replies, mreplies, lines):
            key_in = {"kind": kind, "variant": tag, "cfg": cfg, "doc": doc, "line": line}
            if not rep.startswith("ERR:"):
                if content_bad:
                    state["fail"](ctx, "xml.non-character-accepted[%s]" % tag, "a non-character was serialized: %s" % rep[:80], key_in)
                else:
                    state["fail"](ctx, "xml.non-character-accepted-in-bulk-path[%s]" % enc_class(cfg["enc"]),
                                  "a non-character in a name, PI target or disable-output-escaping text was serialized: %s" % rep[:80], key_in)
            if not mrep.startswith("ERR"):
                state["disagree"](tag, line, rep, mrep, "model accepts a non-character")
        return
    nonbmp_names = any(ord(c) > 0xFFFF or 0xD800 <= ord(c) <= 0xDFFF for e in evs for x in
                       ([e[1]] if e[0] in ("E", "P") else [e[1]] + [a for a, _ in e[2]] if e[0] == "S" else []) for c in x) if kind == "sax" else False
    raw_nonbmp = any(ord(c) > 0xFFFF for e in evs if e[0] == "R" for c in e[1]) or \
        any(ord(c) > 0xFFFF for n in iter_nodes(doc) if n[0] in ("raw", "rtfraw") for c in n[1])
    exp = expected_tree(doc)
    base_tree = None
    for (tag, cfg), rep, mrep, line in zip(variants, replies, mreplies, lines):
        key_in = {"kind": kind, "variant": tag, "cfg": cfg, "doc": doc, "cdata": list(cdata_elems), "line": line}
        enc0 = cfg["enc"] if kind == "sax" else cfg.get("_enc", "UTF-8")
        if not rep.startswith("ok ") and enc0 in MAXCHAR and any(ord(c) > MAXCHAR[enc0] for x in name_strings(doc) for c in x):
            # a name, PI target/data or comment the encoding cannot represent has no escape: an error, as the model says
            if not mrep.startswith("ERR"):
                state["disagree"](tag, line, rep, mrep, "model does not report the unrepresentable name")
            continue
        if not rep.startswith("ok "):
            v11 = cfg.get("ver") == "1.1" or any(k == "version" and v == "1.1" for k, v in cfg.get("out", []))
            ctl = tab_or_cr_outside_text(doc, cdata_elems if kind == "sax" else
                                         [x for k, v in cfg.get("out", []) if k == "cdata" for x in v])
            if v11 and ctl and rep.startswith("ERR:"):
                key = "xml.error-v11-tab-or-cr-in-cdata-comment-pi[%s]" % tag
            else:
                key = "xml.error[%s]" % tag
            state["fail"](ctx, key, "serializer reported %s where the base setting succeeded" % rep, key_in)
            continue
        enc = cfg["enc"] if kind == "sax" else cfg.get("_enc", "UTF-8")
        try:
            data, text = decode_out(rep[3:], enc)
            if enc == "UTF-16BE" and not text.lstrip("\ufeff").startswith("<") and data.decode("utf-16-le", "replace").startswith("<"):
                state["fail"](ctx, "xml.encoding-utf16be-written-little-endian[%s]" % tag,
                              "encoding UTF-16BE is declared but the bytes are little-endian: %r" % data[:24], key_in)
                text = data.decode("utf-16-le")
            if enc in ("UTF-16BE", "UTF-16LE"):
                data = text
        except (UnicodeDecodeError, ValueError) as e:
            state["fail"](ctx, "xml.encoding[%s]" % tag, "output is not valid %s: %s" % (enc, e), key_in)
            continue
        # encoding x cdata-section-elements with unrepresentable characters
        cd_evs = evs if kind == "sax" else G.events_of(doc, [x for k, v in cfg.get("out", []) if k == "cdata" for x in v])
        ucls = cdata_unrep_class(cd_evs, enc)
        ukey = "xml.cdata-unrepresentable[%s]: %s" % ("+".join(sorted(ucls)), tag) if ucls else None
        # correspondence with the model (exact text)
        mt = model_text(mrep)
        if mt is None:
            state["disagree"](tag, line, rep, mrep, "model reply")
        elif mt != text:
            state["disagree"](tag, line, text, mt, "rendered output differs")
        if nonbmp_names:
            continue        # expat has fourth-edition names: decoding and the exact comparison above are the checks
        # specification predicate: parse back
        try:
            tree = parse_xml(data, enc)
        except xml.parsers.expat.ExpatError as e:
            # (every disable-output-escaping string the generator uses is itself a well-formed fragment)
            if raw_nonbmp and enc in MAXCHAR and not state.get("facts", {}).get("otherBulkPairs", True) and mt == text:
                state["fail"](ctx, "xml.raw-supplementary-character-nonunicode-encoding[%s]" % tag,
                              "disable-output-escaping text with a character outside the BMP is written as two surrogate references: %r" % text[:200], key_in)
                continue
            state["fail"](ctx, ukey or "xml.not-wellformed[%s]" % tag, "output does not parse: %s: %r" % (e, text[:200]), key_in)
            continue
        cdset = cdata_elems if kind == "sax" else [x for k, v in cfg.get("out", []) if k == "cdata" for x in v]
        cr_in_cd = bool(cdset) and cr_in_cdata_text(doc, cdset)
        if base_tree is None:
            base_tree = tree
            if not raw and tree != exp:
                if cr_in_cd and cr_to_lf(tree) == cr_to_lf(exp):
                    state["fail"](ctx, "xml.cdata-section-turns-cr-into-lf[%s]" % tag,
                                  "a CR inside a CDATA section is read back as LF: %r vs %r" % (tree, exp), key_in)
                else:
                    state["fail"](ctx, "xml.tree[%s]" % tag, "parsed output differs from the result tree: %r vs %r" % (tree, exp), key_in)
            continue
        if cr_in_cd and tree != base_tree:
            # compare modulo the recorded CR->LF finding, reported once per variant
            if cr_to_lf(tree) == cr_to_lf(base_tree) or (cfg.get("indent") or cfg.get("_indent")):
                if cr_to_lf(tree) == cr_to_lf(base_tree):
                    state["fail"](ctx, "xml.cdata-section-turns-cr-into-lf[%s]" % tag,
                                  "a CR inside a CDATA section is read back as LF", key_in)
                    continue
                tree = cr_to_lf(tree)
                base_cmp = cr_to_lf(base_tree)
            else:
                base_cmp = base_tree
        else:
            base_cmp = base_tree
        indenting = cfg.get("indent") or cfg.get("_indent")
        if indenting:
            d = embeds(tree, base_cmp)
            if d is not None:
                # The model reproduces the real output exactly here and, by indent_not_adjacent_to_text_partial, the
                # model only ever puts an inserted token next to character data after a cdata / raw event: that is the
                # recorded finding.  Anything else (no such event, or output the model does not explain) is new.
                explained = (mt == text) and (raw or any(e[0] == "C" for e in evs))
                cls = "cdata-or-raw" if explained else "plain"
                if ucls and not explained and embeds(tree, base_cmp) is not None and mt != text:
                    state["fail"](ctx, ukey, "indenting output differs from the reference tree: " + d, key_in)
                    continue
                state["fail"](ctx, "xml.indent-alters-text[%s]: %s" % (cls, tag),
                              "indent changed more than inserting whitespace-only text between tags: " + d, key_in)
        elif tree != base_cmp:
            state["fail"](ctx, ukey or "xml.option-changes-tree[%s]" % tag,
                          "tree differs from the base setting: %r vs %r" % (tree, base_cmp), key_in)


def run(ctx):
    ctx.rule = ("a case = one generated result tree (as SAX event script or as stylesheet) under one option setting, real "
                "output compared with the model and parsed back; non-trivial = the tree has mixed content (text next to an "
                "element/comment/PI sibling) or a cdata/raw text, and the setting differs from the base setting; "
                "distinct = distinct (tree, setting) text")
    ctx.trusted += [
        "translate/c08_callpoints.py, translate/c08_html_table.py (regex translators)",
        "harness/c08_serialize.cpp + checks/c08.py + gen/c08_gen.py (generator, expat/HTML parse-back oracles, comparison)",
        "modelled, not verified: character escaping outside the generated classes, transcoding, FormatterToHTML beyond "
        "the predicates evaluated on real output",
    ]
    ctx.build("hooks")
    ctx.translate("c08_callpoints")
    ctx.translate("c08_html_table")
    ctx.translate("c04_tables")     # writer/stream buffer facts (bulkFlush…) used as an obligation of the encoding theorems
    ctx.lean("XalanModel.Props.C08", THEOREMS, extra_targets=["xm_c08"])
    model = ctx.exe("xm_c08")
    harness = common.build_harness("c08_serialize", ["c08_serialize.cpp"], flavor="hooks", sanitize=False, extra=("-DNDEBUG",))
    work = os.path.join(common.CACHE, "work")
    os.makedirs(work, exist_ok=True)
    if model is None:
        return
    tabpath = os.path.join(common.CACHE, "c08_html_table.json")
    tab = HtmlTable(tabpath) if os.path.exists(tabpath) else None
    runner = Runner(ctx, harness, model, work)
    disagreements = []
    state = {
        "fail": lambda c, key, what, inp: c.fail(key, what, inp),
        "facts": json.load(open(os.path.join(common.CACHE, "c08_facts.json"))) if os.path.exists(os.path.join(common.CACHE, "c08_facts.json")) else {},
        "disagree": lambda tag, line, a, b, why: disagreements.append({"variant": tag, "why": why, "impl": a[:300] if a else a,
                                                                        "model": b[:300] if b else b, "line": line[:2000]}),
    }
    r = Rng(ctx.seed)
    run_sax_xml(ctx, r, runner, state)
    run_sax_html(ctx, r, runner, state, tab)
    factspath = os.path.join(common.CACHE, "c08_facts.json")
    facts = json.load(open(factspath)) if os.path.exists(factspath) else {}
    run_xs(ctx, r, runner, state, tab, facts)
    run_eraw(ctx, r, runner, state, facts)
    run_u8(ctx, r, runner, state)
    run_xf(ctx, r, runner, state, tab)
    ctx.oblige("correspondence: real serializer output = Lean model rendering on every generated case", "correspondence",
               not disagreements, json.dumps(disagreements[:3], ensure_ascii=True))
    if disagreements:
        ctx.extra["model_disagreements"] = disagreements[:20]


def nontrivial(doc):
    def mixed(kids):
        kinds = [k[0] for k in kids]
        return ("text" in kinds or "raw" in kinds or "rtfraw" in kinds) and len(set(kinds)) > 1
    def walk(nodes):
        for n in nodes:
            if n[0] == "elem" and (mixed(n[3]) or walk(n[3])):
                return True
        return False
    return walk(doc)


CORPUS_DOCS = [
    # (doc, cdata elems) — minimised past failures / hand-picked shapes run first
    ([("elem", "a", [], [("text", "x"), ("elem", "b", [], [])])], ["a"]),
    ([("elem", "a", [], [("raw", "x"), ("elem", "b", [], [])])], []),
    ([("elem", "a", [], [("text", "t"), ("elem", "b", [], [("elem", "c", [], [])]), ("text", "u")])], []),
    ([("elem", "a", [], [("elem", "b", [], [("text", "t")]), ("comment", "c"), ("text", " "), ("elem", "c", [], [])])], []),
    ([("comment", "top"), ("elem", "a", [("k", "v\t\"<")], [("text", "x]]>y"), ("pi", "t", " d")]), ("comment", "end")], ["a"]),
]


UNREP_TEXTS = ["\u20acx", "x\u20acy", "x\u20ac", "\u20ac", "\u20ac\u20ac", "x\u20ac\u20acy", "\u00e9x", "x\u00e9", "a\u20ac]]>b", "a]]>\u20acb",
               "\u20ac]]>", "]]>\u20acx", "x\u20ac\ny", "\n\u20ac\n", "a\u20acb\u00e9c", "\u20ac]x", "]\u20ac]>x", "\u2028x\u0085y"]
CORPUS_DOCS += [([("elem", "a", [], [("text", t), ("elem", "b", [], [("text", t)])])], cd) for t in UNREP_TEXTS for cd in (["a"], ["a", "b"], [])]
CORPUS_DOCS += [([("elem", "a", [], [("text", t), ("text", u)])], ["a"]) for t in UNREP_TEXTS[:6] for u in ("y", "\u20ac")]
# XML 1.1 restricted characters, line ends and TAB in CDATA / text / comments / attribute values
CORPUS_DOCS += [([("elem", "a", [("k", t)], [("text", t), ("comment", "c\td"), ("elem", "b", [], [("text", t)])])], cd)
                for t in ["x\ry", "\r", "x\r\ny", "\u0085x", "x\u2028", "\tx\ty", "a\u0085\u2028\rb]]>c", "\u20ac\r\u20ac"] for cd in (["a"], ["b"], [])]
# disable-output-escaping text replayed from a result tree fragment (marker PI + characters()/cdata()), followed by
# ordinary text with < and &: the raw flag must be consumed by exactly the one text event
RTF_TEXTS = ["1 < 2 & 3", "a&b", "<", "x]]>y"]
CORPUS_DOCS += [([("elem", "a", [], [("elem", "c", [], [("rtfraw", rw), ("text", t)]), ("elem", "d", [], [("rtfraw", rw), ("text", t)])])], cd)
                for rw in ("<r/>", "r") for t in RTF_TEXTS for cd in (["c"], ["c", "d"], [])]
CORPUS_DOCS += [([("elem", "a", [], [("elem", "c", [], [("rtfraw", "r"), ("elem", "e", [], []), ("text", "1 < 2"), ("rtfraw", "s"), ("comment", "m"),
                                                       ("text", "3 & 4"), ("text", "5 < 6")])])], cd) for cd in (["c"], [])]
# runs longer than the 512-unit buffers of the writers and of XalanOutputStream: the bulk write(chars, n) paths (element and
# attribute names, disable-output-escaping text direct and replayed from a result tree fragment, comments, PI data, text,
# attribute values), at the lengths around one, two and four buffers, compared as parsed trees across the encodings
LONG_LENGTHS = [511, 512, 513, 1025, 2049]


def long_docs():
    out = []
    for n in LONG_LENGTHS:
        w = ("abcdefghij" * (n // 10 + 1))[:n]
        out += [
            ([("elem", "a", [("k", "v")], [("elem", "b", [], [("raw", w)]), ("text", "t")])], []),
            ([("elem", "a", [], [("elem", "b", [], [("rtfraw", w), ("text", "1 < 2")])])], ["b"]),
            ([("elem", "a", [], [("elem", "n" + w[1:], [], [("text", "t")])])], []),
            ([("elem", "a", [("k" + w[1:], "v"), ("j", w)], [("text", w), ("comment", w), ("pi", "t", w)])], []),
        ]
    return out


def bulk_supplementary_docs():
    """characters outside the BMP written through the writers' bulk path — disable-output-escaping text (direct and
    replayed from a result tree fragment), element and attribute names, PI targets — at the start, in the middle and at
    the end of a run, and at every alignment around the 512-byte / 512-unit buffer boundaries"""
    P = "\U0001f600"
    out = []
    for k in [0, 1, 2, 3] + list(range(440, 520, 3)) + [1021, 1022, 1023, 1024]:
        w = "a" * k
        out.append(([("elem", "a", [], [("raw", w + P + "b")])], []))
        if k % 9 == 0 or k < 4:
            out.append(([("elem", "a", [], [("elem", "b", [], [("rtfraw", P + w + P), ("text", "1 < 2")])])], ["b"]))
            out.append(([("elem", "a", [], [("elem", "n" + w + P, [], [("text", "t")])])], []))
            out.append(([("elem", "a", [("k" + w + P + "z", "v")], [("pi", "t" + w + P, "d"), ("raw", P)])], []))
    out.append(([("elem", "a", [], [("raw", P + P + "x" + P)]), ], []))
    return out


# unpaired surrogates and U+FFFF in the strings that go through the bulk path
BULK_NONCHAR_DOCS = [([("elem", "a", [], [("raw", t)])], []) for t in ["x\udc00y", "x\ud800", "\ud800y", "x\uffff"]]
BULK_NONCHAR_DOCS += [([("elem", "a\udc00", [], [])], []), ([("elem", "a", [("k\ud800", "v")], [])], []), ([("elem", "a", [], [("pi", "t\udc00", "d")])], [])]

NONCHAR_DOCS = [([("elem", "a", [], [("text", t)])], cd) for t in ["x\udc00y", "\ud800", "x\ud800y", "\ufffe", "x\uffff"] for cd in (["a"], [])]
NONCHAR_DOCS += [([("elem", "a", [("k", "\udc00")], [])], []), ([("elem", "a", [], [("comment", "c\ud800")])], [])]


def check_text_output(ctx, state, tag, enc, want, rep, mrep, line, inp):
    """method=text: the output is the concatenated text in the requested encoding; a character the encoding cannot
    represent is an error (XSLT 1.0 16.3) — the unrepaired source substitutes 0x1A instead (recorded finding)"""
    mx = MAXCHAR.get(enc, 0x10FFFF)
    representable = all(ord(c) <= mx for c in want)
    if not rep.startswith("ok "):
        if representable:
            ctx.fail("text.error[%s]" % tag, "text method failed on representable text: " + rep, inp)
        elif not mrep.startswith("ERR"):
            state["disagree"](tag, line, rep, mrep, "text method: the model does not report the unrepresentable character")
        return
    try:
        _, text = decode_out(rep[3:], enc)
    except (UnicodeDecodeError, ValueError) as e:
        ctx.fail("text.encoding[%s]" % tag, "output not valid %s: %s" % (enc, e), inp)
        return
    if not representable:
        if text == "".join(c if ord(c) <= mx else "\x1a" for c in want):
            ctx.fail("text.unrepresentable-replaced-by-sub[%s]" % enc,
                     "method=text, encoding %s: characters the encoding cannot represent are silently written as 0x1A: %r for %r" % (enc, text[:80], want[:80]), inp)
        else:
            ctx.fail("text.not-string-value[%s]" % tag, "method=text output %r is not the text %r in %s" % (text[:200], want[:200], enc), inp)
    elif text != want:
        ctx.fail("text.not-string-value[%s]" % tag, "method=text output %r is not the concatenated text %r" % (text[:200], want[:200]), inp)
    if model_text(mrep) != text:
        state["disagree"](tag, line, text, model_text(mrep) if mrep.startswith("ok ") else mrep, "text method output differs")


def run_sax_xml(ctx, r, runner, state):
    n = 1500 if not ctx.thorough else 12000
    docs = [(d, c) for d, c in CORPUS_DOCS + NONCHAR_DOCS + BULK_NONCHAR_DOCS + long_docs() + bulk_supplementary_docs()]
    for _ in range(n):
        doc = G.gen_doc(r, maxdepth=3 if not ctx.thorough else 4)
        cd = [x for x in G.NAMES if r.chance(1, 4)] if r.chance(1, 3) else []
        if cd and r.chance(1, 2):
            doc = asciify(doc)
        docs.append((doc, cd))
    if ctx.thorough:
        docs += exhaustive_mixed()
    lines, meta, text_lines = [], [], []
    for doc, cd in docs:
        evs = G.events_of(doc, cd)
        variants = sax_variants(r, ctx.thorough)
        ls = [G.sax_line(cfg, evs) for _, cfg in variants]
        meta.append((doc, cd, evs, variants, len(lines), ls))
        lines += ls
        # the same events into FormatterToText (SAX level, so that cdata()/charactersRaw() are exercised too)
        tenc = r.choice(["UTF-8", "UTF-16", "ISO-8859-1", "US-ASCII"])
        tl = G.sax_line(dict(G.BASE_CFG, method="text", enc=tenc), evs)
        text_lines.append((len(lines), doc, evs, tl, tenc))
        lines.append(tl)
    il, ml, irc, mrc, ierr, merr = runner.run(lines, "sax")
    if irc != 0 or len(il) < len(lines):
        bad = lines[len(il)] if len(il) < len(lines) else ""
        ctx.fail("sax.crash", "harness stopped (rc=%s) at request %d: %s" % (irc, len(il), ierr[-600:]), {"line": bad})
        return
    if mrc != 0 or len(ml) < len(lines):
        ctx.oblige("model driver ran to completion (sax)", "correspondence", False, merr[-600:])
        return
    for off, doc, evs, tl, tenc in text_lines:
        want = "".join(e[1] for e in evs if e[0] in ("T", "C", "R"))
        if not valid_units(want):
            continue        # FormatterToText has no notion of XML characters
        ctx.case(cls="sax:text")
        check_text_output(ctx, state, "sax", tenc, want, il[off], ml[off], tl, {"kind": "sax", "variant": "text", "doc": doc, "line": tl})
    for doc, cd, evs, variants, off, ls in meta:
        k = len(variants)
        check_xml_group(ctx, state, doc, evs, variants, il[off:off + k], ml[off:off + k], ls, cd, "sax")
        nt = nontrivial(doc) or any(e[0] in ("C", "R") for e in evs)
        for (tag, cfg), line in zip(variants, ls):
            ctx.case(nontrivial_key=(line if (nt and tag != "base") else None),
                     sample={"doc": doc, "variant": tag} if off < 30 and tag == "indent0" else None,
                     cls="sax:" + re.sub(r"\d+$", "", tag))


def exhaustive_mixed():
    """small-scope exhaustive: every child sequence of length <= 4 over {text, ws-text, empty elem, elem with text,
    elem with elem, comment} inside one parent (thorough tier)"""
    import itertools
    alpha = [("text", "t"), ("text", " "), ("elem", "b", [], []), ("elem", "c", [], [("text", "u")]),
             ("elem", "d", [], [("elem", "e", [], [])]), ("comment", "m")]
    out = []
    for n in range(1, 5):
        for combo in itertools.product(alpha, repeat=n):
            out.append(([("elem", "a", [], list(combo))], []))
            if n <= 3:
                out.append(([("elem", "a", [], list(combo))], ["a", "c"]))
    return out


# ---- copied CDATA section nodes (Xerces DOM source) and the HTML output method

XS_TEXTS = ["a<b", "c&d", "1 < 2 & 3", "x", "<", "p > q", "e&amp;f"]


def gen_xs_doc(r):
    """HTML result tree in which some text nodes are copies (xsl:copy-of) of CDATA section nodes of the source:
    ("cdnode", text).  script/style elements come first, later siblings / nested elements / attributes carry < and &."""
    def leaf():
        k = r.weighted([("cdnode", 5), ("text", 4), ("comment", 1)])
        if k == "comment":
            return ("comment", "c")
        return (k, r.choice(XS_TEXTS))

    def block(depth):
        name = r.choice(["p", "div", "span", "b", "td", "li"])
        attrs = [("title", r.choice(["a<b", "c&d", "t"]))] if r.chance(1, 3) else []
        kids = []
        for _ in range(r.range(1, 3)):
            if depth > 0 and r.chance(1, 3):
                kids.append(block(depth - 1))
            elif r.chance(1, 6):
                kids.append(rawelem())
            else:
                kids.append(leaf())
        return ("elem", name, attrs, kids)

    def rawelem():
        return ("elem", r.choice(["script", "style"]), [], [(r.choice(["text", "cdnode"]), r.choice(["if (a<b) x();", "p > q {}", "a&&b"]))])
    body = []
    if r.chance(3, 4):
        body.append(rawelem())
    for _ in range(r.range(1, 3)):
        body.append(block(r.range(0, 2)))
    if r.chance(1, 3):
        body.append(leaf())
    head = [("elem", "head", [], [rawelem()])] if r.chance(1, 3) else []
    return [("elem", "html", [], head + [("elem", "body", [], body)])]


def xs_parts(doc):
    """source document, template body, per-source-kind events and expected tree of an xs tree"""
    cds = []

    def body(nodes):
        out = []
        for n in nodes:
            if n[0] == "elem":
                out.append("<" + n[1] + "".join(' %s="%s"' % (a, G.esc_attr(v)) for a, v in n[2]) + ">" + body(n[3]) + "</" + n[1] + ">")
            elif n[0] == "text":
                out.append("<xsl:text>" + G.esc_text(n[1]) + "</xsl:text>")
            elif n[0] == "comment":
                out.append("<xsl:comment><xsl:text>" + G.esc_text(n[1]) + "</xsl:text></xsl:comment>")
            elif n[0] == "cdnode":
                cds.append(n[1])
                out.append('<xsl:copy-of select="/r/c[%d]/node()"/>' % len(cds))
        return "".join(out)
    tb = body(doc)
    src = "<r>" + "".join("<c><![CDATA[%s]]></c>" % t for t in cds) + "</r>"

    def events(nodes, dom):
        ev = []
        for n in nodes:
            if n[0] == "elem":
                ev.append(("S", n[1], n[2]))
                ev += events(n[3], dom)
                ev.append(("E", n[1]))
            elif n[0] == "text":
                ev.append(("T", n[1]))
            elif n[0] == "cdnode":
                ev.append(("C" if dom else "T", n[1]))
            elif n[0] == "comment":
                ev.append(("M", n[1]))
        return ev

    def tree(nodes):
        return [("elem", n[1], list(n[2]), tree(n[3])) if n[0] == "elem" else ("text", n[1]) if n[0] in ("text", "cdnode") else n for n in nodes]
    return src, tb, events, tree(doc)


def cdnode_outside_raw(nodes, in_raw=False):
    for n in nodes:
        if n[0] == "elem":
            if cdnode_outside_raw(n[3], in_raw or n[1].upper() in HTML4_RAW):
                return True
        elif n[0] == "cdnode" and not in_raw:
            return True
    return False


def run_xs(ctx, r, runner, state, tab, facts):
    n = 150 if not ctx.thorough else 2500
    corpus = [
        [("elem", "html", [], [("elem", "body", [], [("elem", "script", [], [("text", "x")]), ("elem", "p", [], [("cdnode", "a<b&c")])])])],
        [("elem", "html", [], [("elem", "body", [], [("elem", "p", [], [("cdnode", "a<b&c")])])])],
        [("elem", "html", [], [("elem", "head", [], [("elem", "style", [], [("cdnode", "p > q {}")])]),
                               ("elem", "body", [], [("elem", "div", [("title", "a<b&c")], [("text", "1 < 2"), ("elem", "b", [], [("cdnode", "3 & 4")])]), ("cdnode", "<")])])],
        [("elem", "html", [], [("elem", "body", [], [("elem", "script", [], [("cdnode", "if (a<b) x();")]), ("text", "t<u")])])],
    ]
    lines, meta = [], []
    for t in range(n + len(corpus)):
        doc = corpus[t] if t < len(corpus) else gen_xs_doc(r)
        src, tb, events, exp = xs_parts(doc)
        for dom in (0, 1):
            for tag, method, indent in (("html", "html", "no"), ("html-indent", "html", "yes"), ("xml", "xml", "no")):
                sheet = ('<?xml version="1.0"?><xsl:stylesheet version="1.0" xmlns:xsl="%s"><xsl:output method="%s" indent="%s"/>'
                         '<xsl:template match="/">%s</xsl:template></xsl:stylesheet>' % (G.XSL_NS, method, indent, tb))
                line = " ".join(["xs", str(dom), G.hx(src), G.hx(sheet), "method=" + method, "indent=" + indent, "|"] + G.ev_words(events(doc, dom)))
                meta.append((doc, exp, dom, tag, method, indent == "yes", len(lines)))
                lines.append(line)
    il, ml, irc, mrc, ierr, merr = runner.run(lines, "xs")
    if irc != 0 or len(il) < len(lines):
        bad = lines[len(il)] if len(il) < len(lines) else ""
        ctx.fail("xs.crash", "harness stopped (rc=%s) at request %d: %s" % (irc, len(il), ierr[-600:]), {"line": bad[:3000]})
        return
    if mrc != 0 or len(ml) < len(lines):
        ctx.oblige("model driver ran to completion (xs)", "correspondence", False, merr[-600:])
        return
    for doc, exp, dom, tag, method, ind, off in meta:
        rep, mrep, line = il[off], ml[off], lines[off]
        inp = {"kind": "xs", "variant": tag, "xerces_dom_source": bool(dom), "doc": doc, "line": line[:3000]}
        affected = method == "html" and dom == 1 and cdnode_outside_raw(doc) and not facts.get("htmlCdataIsText", True)
        ctx.case(nontrivial_key=line if dom else None, cls="xs:%s:%s" % (tag, "dom" if dom else "tree"))
        if not rep.startswith("ok "):
            ctx.fail("xs.error[%s]" % tag, "transform failed: " + rep, inp)
            continue
        _, text = decode_out(rep[3:], "UTF-8")
        bad = None
        try:
            if method == "html":
                tree = html_norm(parse_html(text, tab), tab, True)
                bad = embeds(tree, html_norm(exp, tab, False), ci=True)
            else:
                tree = parse_xml(text)
                want = expected_tree([("elem", n[1], n[2], []) if False else n for n in doc_as_text(doc)])
                bad = None if tree == want else "trees differ: %r vs %r" % (tree, want)
        except (ValueError, xml.parsers.expat.ExpatError) as e:
            bad = "output cannot be read back: %s" % e
        if bad is not None:
            key = "html.cdata-node[copied CDATA section node outside script/style]" if affected else "xs.tree[%s]" % tag
            ctx.fail(key, "a copied CDATA section node must be written as text of the %s output method: %s; output %r" % (method, bad, text[:300]), inp)
            continue
        if affected:
            continue        # unrepaired FormatterToHTML::cdata: the model states the HTML output method, see the finding
        mt = model_text(mrep)
        if mt != text:
            state["disagree"](tag, line, text, mt if mt is not None else mrep, "xs output differs")


def doc_as_text(nodes):
    out = []
    for n in nodes:
        if n[0] == "elem":
            out.append(("elem", n[1], n[2], doc_as_text(n[3])))
        elif n[0] == "cdnode":
            out.append(("text", n[1]))
        else:
            out.append(n)
    return out


# ---- XalanUTF8Writer alone: bulk write, writeSafe, positional write

def run_u8(ctx, r, runner, state):
    P, Q = "\U0001f600", "\U00010000"
    seqs = [P, P + Q, "\u00e9" + P, "\u20ac" + P + "\u20ac", "\ud83d", "\ud83db", "\ude00", "\uffff", "x"]
    fills = [0, 1, 2, 3, 255, 507, 508, 509, 510, 511, 512, 513, 1019, 1020, 1021, 1022, 1023, 1024]
    if ctx.thorough:
        fills = sorted(set(fills + list(range(480, 530)) + list(range(1000, 1030))))
    cases = []
    for k in fills:
        for sq in seqs:
            for tail in ("", "b"):
                cases.append("a" * k + sq + tail)
    lines, meta = [], []
    for run_ in cases:
        for kind in ("bulk", "safe", "unit"):
            meta.append((kind, run_))
            lines.append("u8 %s %s" % (kind, G.hx(run_)))
    il, ml, irc, mrc, ierr, merr = runner.run(lines, "u8")
    if irc != 0 or len(il) < len(lines):
        ctx.fail("u8.crash", "harness stopped (rc=%s) at request %d: %s" % (irc, len(il), ierr[-400:]), {"line": lines[min(len(il), len(lines) - 1)][:300]})
        return
    if mrc != 0 or len(ml) < len(lines):
        ctx.oblige("model driver ran to completion (u8)", "correspondence", False, merr[-600:])
        return
    for (kind, run_), rep, mrep, line in zip(meta, il, ml, lines):
        inp = {"kind": "u8", "entry": kind, "run_units": G.hx(run_)[:400], "line": line[:400]}
        wellformed = valid_units(run_.replace("\uffff", "x").replace("\x00", "x"))
        ctx.case(nontrivial_key=line if any(ord(c) > 0xFFFF for c in run_ if not 0xD800 <= ord(c) <= 0xDFFF) else None, cls="u8:" + kind)
        got = bytes.fromhex(rep[3:]) if rep.startswith("ok ") and rep != "ok -" else (b"" if rep == "ok -" else None)
        if wellformed:
            want = run_.encode("utf-8")
            if got != want:
                ctx.fail("u8.bytes[%s]" % kind, "XalanUTF8Writer (%s) wrote %r for a run whose UTF-8 encoding is %r" % (
                    kind, (got or rep)[-24:] if got is not None else rep, want[-24:]), inp)
        mb = None if not mrep.startswith("ok ") else bytes(ord(c) for c in G.unhx4_raw(mrep[3:]))
        if (got is None) != (mb is None) or (got is not None and got != mb):
            state["disagree"]("u8:" + kind, line, rep[:80], mrep[:80], "UTF-8 writer bytes differ from the model")


# ---- the engine's (buffer, start, length) entry points

def run_eraw(ctx, r, runner, state, facts):
    n = 150 if not ctx.thorough else 3000
    cases = [("raw", "ab<c&d>ef", 2, 4), ("cdata", "ab<c&d>ef", 2, 4), ("chars", "ab<c&d>ef", 2, 4), ("raw", "xyz", 0, 3), ("raw", "xyz", 2, 1)]
    for _ in range(n):
        buf = "".join(r.choice(list("abcxyz012 ") + ["<", "&", ">", "\u00e9"]) for _ in range(r.range(1, 12)))
        start = r.range(0, len(buf) - 1)
        ln = r.range(1, len(buf) - start)
        cases.append((r.choice(["raw", "raw", "cdata", "chars"]), buf, start, ln))
    lines = ["eraw %s %d %d %s" % (k, st, ln, G.hx(buf)) for k, buf, st, ln in cases]
    il, ml, irc, mrc, ierr, merr = runner.run(lines, "eraw")
    if irc != 0 or len(il) < len(lines):
        ctx.fail("eraw.crash", "harness stopped (rc=%s) at request %d: %s" % (irc, len(il), ierr[-600:]), {"line": lines[min(len(il), len(lines) - 1)]})
        return
    if mrc != 0 or len(ml) < len(lines):
        ctx.oblige("model driver ran to completion (eraw)", "correspondence", False, merr[-600:])
        return
    for (k, buf, st, ln), rep, mrep, line in zip(cases, il, ml, lines):
        want = buf[st:st + ln]
        inp = {"kind": "eraw", "entry": k, "buffer": buf, "start": st, "length": ln, "line": line}
        ctx.case(nontrivial_key=line if st else None, cls="eraw:" + k)
        if not rep.startswith("ok "):
            ctx.fail("eraw.error[%s]" % k, "engine call failed: " + rep, inp)
            continue
        _, text = decode_out(rep[3:], "UTF-8")
        if k == "raw":
            got = text[3:-4] if text.startswith("<a>") and text.endswith("</a>") else None
        else:
            try:
                t = parse_xml(text)
                got = "".join(x[1] for x in t[0][3] if x[0] == "text") if t and t[0][0] == "elem" else None
            except xml.parsers.expat.ExpatError:
                got = None
        if got != want:
            fact = {"raw": "engineRawUsesStart", "cdata": "engineCdataUsesStart", "chars": "engineCharactersUsesStart"}[k]
            if got == buf[:ln] and st > 0 and not facts.get(fact, True) and k in ("raw", "cdata"):
                key = "engine.start-offset-ignored[%s]" % k
            else:
                key = "eraw.slice[%s]" % k
            ctx.fail(key, "XSLTEngineImpl::%s(ch, %d, %d) delivered %r, the slice is %r" % (
                {"raw": "charactersRaw", "cdata": "cdata", "chars": "characters"}[k], st, ln, got, want), inp)
        mt = model_text(mrep)
        if mt != text:
            state["disagree"]("eraw:" + k, line, text, mt if mt is not None else mrep, "engine entry point output differs")


# ---- stylesheet level

def gen_out_attrs(r, method):
    a = []
    if method != "none":
        a.append(("method", method))
    if r.chance(1, 2):
        a.append(("indent", r.choice(["yes", "no"])))
    if r.chance(1, 4):
        a.append(("indentamount", r.range(0, 4)))
    if r.chance(1, 3):
        a.append(("encoding", r.choice(XF_ENCODINGS)))
    if r.chance(1, 4):
        a.append(("omitdecl", r.choice(["yes", "no"])))
    if r.chance(1, 5):
        a.append(("standalone", r.choice(["yes", "no"])))
    if r.chance(1, 4):
        a.append(("dsys", "sys.dtd"))
        if r.chance(1, 2):
            a.append(("dpub", r.choice(["-//X//DTD y//EN", "-//W3C//DTD XHTML 1.0 Strict//EN"])))
    if r.chance(1, 5):
        a.append(("version", r.choice(["1.0", "1.1"])))
    if r.chance(1, 3):
        a.append(("cdata", [x for x in G.NAMES if r.chance(1, 3)] or ["a"]))
    if r.chance(1, 8):
        a.append(("omitmeta", r.choice(["yes", "no"])))
    if r.chance(1, 8):
        a.append(("escurls", r.choice(["yes", "no"])))
    return r.shuffle(a)


def gen_api(r):
    api = dict(G.BASE_API)
    if r.chance(1, 3):
        api["indent"] = r.range(0, 4)
    if r.chance(1, 4):
        api["enc"] = r.choice(XF_ENCODINGS)
    if r.chance(1, 6):
        api["omitmeta"] = r.range(0, 2)
    if r.chance(1, 6):
        api["escurls"] = r.range(0, 2)
    return api


def effective(out_attrs, api, doc):
    """python re-statement of the option selection, only used to decode the real output and to pick the oracle
    (method, encoding, indenting?) — the Lean model has its own transcription"""
    method = "none"
    enc = ""
    ind = None
    amount = -1
    for k, v in out_attrs:
        if k == "method":
            method = v
        elif k == "encoding":
            enc = v
        elif k == "indent":
            ind = v == "yes"
        elif k == "indentamount":
            amount = int(v)
    if api["enc"]:
        enc = api["enc"]
    if api["indent"] >= 0:
        amount = api["indent"]
    first = next((n[1] for n in doc if n[0] == "elem"), None)
    if method == "none" and first is not None and first.lower() == "html":
        return "html", enc or "UTF-8", ind is not False
    if method == "html":
        indenting = True if amount > -1 else (ind is not False)
    else:
        indenting = True if amount > -1 else bool(ind)
    return ("xml" if method == "none" else method), enc or "UTF-8", indenting


# implicit HTML (no xsl:output method, document element html) combined with cdata-section-elements: the switch to
# the HTML formatter must also switch CDATA sections off (XSLTEngineImpl::flushPending resets m_hasCDATASectionElements)
XF_SWITCH_CORPUS = [
    ([("elem", "html", [], [("elem", "body", [], [("elem", "p", [], [("text", "x<y&z"), ("elem", "b", [], [("text", "t")]), ("text", "u")])])])], ["p", "b"], "none"),
    ([("elem", "HTML", [], [("elem", "head", [], [("elem", "title", [], [("text", "a]]>b")])]), ("elem", "body", [], [("text", "w")])])], ["title", "body", "HTML"], "none"),
    ([("elem", "html", [], [("elem", "body", [], [("elem", "script", [], [("text", "if (a<b) x();")]), ("elem", "p", [], [("text", "q")])])])], ["script", "p"], "none"),
    # the same list with a non-html document element stays XML, with CDATA sections
    ([("elem", "doc", [], [("elem", "p", [], [("text", "x<y&z"), ("elem", "b", [], [("text", "t")])])])], ["p", "b"], "none"),
]


def run_xf(ctx, r, runner, state, tab):
    n = 700 if not ctx.thorough else 6000
    lines, meta = [], []
    corpus = [(d, c, "xml") for d, c in CORPUS_DOCS] + XF_SWITCH_CORPUS
    for t in range(n + len(corpus)):
        if t < len(corpus):
            doc, cd, method = corpus[t]
        else:
            method = r.weighted([("xml", 5), ("none", 3), ("text", 2), ("html", 4)])
            cd = None
            if method == "html" or (method == "none" and r.chance(1, 4)):
                doc = gen_html_doc(r)
            else:
                doc = G.gen_doc(r, maxdepth=3, allow_raw=(method != "text"))
        # the same tree under a base setting and under several others
        allow_cdata = cd is not None or r.chance(1, 2)
        if allow_cdata and r.chance(1, 2):
            doc = asciify(doc)
        base_attrs = [] if method == "none" else [("method", method)]
        settings = [("base", base_attrs, dict(G.BASE_API))]
        if cd is not None:
            settings.append(("cdata+indent", base_attrs + [("cdata", cd), ("indent", "yes")], dict(G.BASE_API)))
            settings.append(("cdata", base_attrs + [("cdata", cd)], dict(G.BASE_API)))
        for k in range(3 if not ctx.thorough else 5):
            oa = gen_out_attrs(r, method)
            if not allow_cdata:
                oa = [x for x in oa if x[0] != "cdata"]
            settings.append(("s%d" % k, oa, gen_api(r)))
        ls = [G.xf_line(api, oa, doc) for _, oa, api in settings]
        meta.append((doc, method, settings, len(lines), ls))
        lines += ls
    il, ml, irc, mrc, ierr, merr = runner.run(lines, "xf")
    if irc != 0 or len(il) < len(lines):
        bad = lines[len(il)] if len(il) < len(lines) else ""
        ctx.fail("xf.crash", "harness stopped (rc=%s) at request %d: %s" % (irc, len(il), ierr[-600:]), {"line": bad[:3000]})
        return
    if mrc != 0 or len(ml) < len(lines):
        ctx.oblige("model driver ran to completion (xf)", "correspondence", False, merr[-600:])
        return
    for doc, method, settings, off, ls in meta:
        k = len(settings)
        reps, mreps = il[off:off + k], ml[off:off + k]
        eff = [effective(oa, api, doc) for _, oa, api in settings]
        kind = eff[0][0]
        if kind == "xml":
            variants = []
            for (tag, oa, api), (m, enc, ind) in zip(settings, eff):
                variants.append((tag, {"_enc": enc, "_indent": ind, "out": oa, "api": api}))
            cds = [e for s in settings for kk, e in s[1] if kk == "cdata"]
            evs_marker = [("C", "")] if cds else []
            check_xml_group(ctx, state, doc, evs_marker, variants, reps, mreps, ls, (), "xf")
        elif kind == "text":
            want = "".join(text_of(doc))
            for (tag, oa, api), (m, enc, ind), rep, mrep, line in zip(settings, eff, reps, mreps, ls):
                inp = {"kind": "xf", "variant": tag, "out": oa, "api": api, "doc": doc, "line": line[:3000]}
                check_text_output(ctx, state, tag, enc, want, rep, mrep, line, inp)
        else:
            check_html_group(ctx, state, doc, settings, eff, reps, mreps, ls, tab)
        nt = nontrivial(doc)
        for (tag, oa, api), line in zip(settings, ls):
            ctx.case(nontrivial_key=(line if (nt and tag != "base") else None), cls="xf:" + kind)


def text_of(nodes):
    for n in nodes:
        if n[0] == "elem":
            yield from text_of(n[3])
        elif n[0] in ("text", "raw", "rtfraw"):
            yield n[1]


HTML_PLAIN = list("abcxyz 012") + ["<", ">", "&", '"', "\n", " "]
HTML_TEXT = list("abcxyz 012") + ["<", ">", "&", '"', "'", "\n", " ", "\u00e9", "\u00a0", "\u20ac", "\t", "\r", "\x7f", "\u0085",
                                   "\u009f", "\u00ff", "\u03b1", "\u0416", "\u2028", "{"]


NS_NAMES = ["m:x", "m:row", "svg:g", "svg:c"]


def gen_html_doc(r, ns=None):
    """an HTML result tree; with `ns`, elements of two namespaced vocabularies (prefixes m, svg, declared on the root)
    appear inside mixed content, so that FormatterToHTML takes its inherited FormatterToXML element path"""
    if ns is None:
        ns = r.chance(1, 2)
    plain = r.chance(1, 2)     # content the Lean HTML model renders (printable ASCII, simple attribute values)

    def text():
        t = "".join(r.choice(HTML_PLAIN if plain else HTML_TEXT) for _ in range(r.range(1, 5)))
        if r.chance(1, 8):
            t = r.choice([" ", "\n", "  "])
        return t

    def kids_of(depth):
        kids = []
        if depth > 0:
            for _ in range(r.weighted([(0, 2), (1, 4), (2, 4), (3, 3), (4, 1)])):
                k = r.weighted([("elem", 8), ("text", 8), ("comment", 1), ("raw", 1), ("pi", 1), ("rtfraw", 1)])
                if k == "elem":
                    kids.append(elem(depth - 1))
                elif k == "text":
                    kids.append(("text", text()))
                elif k == "raw":
                    kids.append(("raw", r.choice(["r", "r s", "rr"])))
                elif k == "rtfraw":
                    kids.append(("rtfraw", r.choice(["r", "r s", "rr"])))
                elif k == "pi":
                    kids.append(("pi", "t", r.choice(["", "d"])))
                else:
                    kids.append(("comment", "c"))
        return kids

    def elem(depth, name=None):
        if name is None and ns and r.chance(2, 5):
            name = r.choice(NS_NAMES)
            attrs = [("k", r.choice(["v", "a b", "k"]))] if r.chance(1, 3) else []
            return ("elem", name, attrs, kids_of(depth))
        name = name or r.choice(G.HTML_NAMES)
        attrs = []
        if name == "a" and r.chance(2, 3):
            attrs.append(("href", r.choice(["x.html", "a b", "a/b.c"] if plain else ["x.html", "a b", "q?x=1&y=2", "caf\u00e9", "%20z", 'a"b', "\u20ac/\u0416 z", "t\tu", "&{v}"])))
        if name == "img":
            attrs.append(("src", r.choice(["i.png", "a b.png"])))
        if name in ("input", "option", "select", "textarea") and r.chance(1, 2):
            attrs.append(r.choice([("disabled", "disabled"), ("disabled", ""), ("readonly", "readonly"), ("selected", "selected"),
                                   ("checked", "checked")]))
        if r.chance(1, 4):
            attrs.append(("title", "".join(r.choice("abc xyz.") for _ in range(r.range(1, 4))) if plain
                          else text() + ("\U0001d4b3" if r.chance(1, 6) else "")))
        if name in ("br", "hr", "img", "input"):
            return ("elem", name, attrs, [])
        return ("elem", name, attrs, kids_of(depth))
    head_kids = []
    if r.chance(1, 2):
        head_kids.append(("elem", "title", [], [("text", text())]))
    if r.chance(1, 3):
        head_kids.append(("elem", r.choice(["script", "style"]), [], [("text", r.choice(["a<b&&c", "p > q {}", "if (a<b) x();"]))]))
    body = ("elem", "body", [], [elem(r.range(0, 3)) for _ in range(r.range(1, 3))])
    top = [("elem", "head", [], head_kids)] if r.chance(2, 3) else []
    root_attrs = [("xmlns:m", "urn:m"), ("xmlns:svg", "urn:svg")] if ns else []
    return [("elem", r.choice(["html", "html", "HTML"]), root_attrs, top + [body])]


def raw_before_namespaced(nodes):
    """a disable-output-escaping text node directly followed by a namespaced element (recorded finding)"""
    for i, n in enumerate(nodes):
        if n[0] == "elem":
            if raw_before_namespaced(n[3]):
                return True
        if n[0] == "raw" and i + 1 < len(nodes) and nodes[i + 1][0] == "elem" and ":" in nodes[i + 1][1]:
            return True
    return False


def supplementary_in_attr(nodes):
    for n in nodes:
        if n[0] == "elem":
            if any(ord(c) > 0xFFFF for _, v in n[2] for c in v) or supplementary_in_attr(n[3]):
                return True
    return False


def check_html_group(ctx, state, doc, settings, eff, reps, mreps, ls, tab):
    items = []
    for (tag, oa, api), (m, enc, ind), rep, mrep, line in zip(settings, eff, reps, mreps, ls):
        inp = {"kind": "xf", "variant": tag, "out": oa, "api": api, "doc": doc, "line": line[:3000]}
        items.append((tag, enc, ind, rep, mrep, line, inp, not any(k == "method" for k, _ in oa)))
    check_html_outputs(ctx, state, doc, items, tab)


def check_html_outputs(ctx, state, doc, items, tab):
    """items: (tag, encoding, indenting?, implementation reply, model reply, request line, replay input, implicit-html?)"""
    if tab is None:
        return
    exp = html_norm(expected_tree_html(doc), tab, False)
    for tag, enc, ind, rep, mrep, line, inp, implicit in items:
        if not rep.startswith("ok "):
            ctx.fail("html.error[%s]" % tag, "transform failed: " + rep, inp)
            continue
        try:
            _, text = decode_out(rep[3:], enc)
            if text.startswith("\ufeff"):
                # a second byte-order mark: the first one is consumed by the decoder
                ctx.fail("html.second-bom[%s]" % ("implicit-html-utf16" if implicit and enc == "UTF-16" else "other"),
                         "the output starts with two byte-order marks (the second one is a U+FEFF character before the document)", inp)
                text = text[1:]
                mrep = "skip"
            tree = html_norm(parse_html(text, tab), tab, True)
        except (UnicodeDecodeError, ValueError) as e:
            ctx.fail("html.unreadable[%s]" % tag, "output cannot be read by HTML rules: %s: %r" % (e, rep[:80]), inp)
            continue
        mt = model_text(mrep)
        d = embeds(tree, exp, ci=True)
        if d is not None:
            # recognise the two recorded findings (alone or together in one tree); anything else is new
            can_raw = ind and raw_before_namespaced(doc) and (mt is None or mt == text)
            can_sup = supplementary_in_attr(doc)
            what = "HTML output does not read back to the result tree (modulo inserted whitespace/META): %s; output %r" % (d, text[:300])
            keys = None
            if can_raw and embeds(strip_ws_after_raw(tree), strip_ws_after_raw(exp), ci=True) is None:
                keys = ["html.indent-after-raw-before-namespaced-element"]
            elif can_sup and embeds(tree, truncate_supplementary(exp), ci=True) is None:
                keys = ["html.attr-supplementary-character[%s]" % ("indent" if ind else "noindent")]
            elif can_raw and can_sup and embeds(strip_ws_after_raw(tree), strip_ws_after_raw(truncate_supplementary(exp)), ci=True) is None:
                keys = ["html.indent-after-raw-before-namespaced-element",
                        "html.attr-supplementary-character[%s]" % ("indent" if ind else "noindent")]
            for key in keys or ["html.tree[%s]" % ("indent" if ind else "noindent")]:
                ctx.fail(key, what, inp)
        if mt is not None and mt != text:
            state["disagree"](tag, line, text, mt, "html output differs")


def truncate_supplementary(nodes):
    """used only to recognise the recorded finding: attribute values with characters outside the BMP cut to 16 bits"""
    out = []
    for n in nodes:
        if n[0] == "elem":
            out.append(("elem", n[1], [(a, v if v is None else "".join(chr(ord(c) & 0xFFFF) for c in v)) for a, v in n[2]],
                        truncate_supplementary(n[3])))
        else:
            out.append(n)
    return out


def strip_ws_after_raw(nodes):
    """used only to recognise the recorded finding: trailing white space of a text node that is directly followed
    by a namespaced element is dropped"""
    out = []
    for i, n in enumerate(nodes):
        if n[0] == "elem":
            out.append(("elem", n[1], n[2], strip_ws_after_raw(n[3])))
        elif n[0] == "text" and i + 1 < len(nodes) and nodes[i + 1][0] == "elem" and ":" in nodes[i + 1][1]:
            out.append(("text", n[1].rstrip(WS)))
        else:
            out.append(n)
    return out


def run_sax_html(ctx, r, runner, state, tab):
    """FormatterToHTML at SAX level (prefixes m and svg bound by the harness' resolver): every tree with indentation
    off and on (several amounts), doctype, META on/off"""
    n = 500 if not ctx.thorough else 6000
    lines, meta = [], []
    corpus = [
        [("elem", "html", [], [("elem", "body", [], [("elem", "p", [], [("text", "t"), ("elem", "m:x", [], []), ("text", "u"),
                                                                       ("elem", "m:y", [], [("elem", "m:z", [], [])])])])])],
        [("elem", "html", [], [("elem", "body", [], [("elem", "p", [], [("raw", "t"), ("elem", "m:x", [], [])])])])],
        [("elem", "html", [], [("elem", "body", [], [("elem", "m:x", [("k", "k")], [("elem", "p", [], [("text", "t")]),
                                                                                ("elem", "svg:y", [], [("text", "q")])])])])],
    ]
    for t in range(n + len(corpus)):
        doc = corpus[t] if t < len(corpus) else gen_html_doc(r)
        evs = G.events_of(doc)
        vs = [("noindent", dict(G.BASE_CFG, method="html", indent=False, enc=r.choice(["UTF-8", "UTF-8", "ISO-8859-1", "US-ASCII", "UTF-16"]),
                                escurls=r.chance(2, 3))),
              ("indent0", dict(G.BASE_CFG, method="html", indent=True, amount=0)),
              ("indent%d" % r.range(1, 4), dict(G.BASE_CFG, method="html", indent=True, amount=r.range(1, 4), omitmeta=r.chance(1, 3),
                                                dsys=r.choice(["", "s.dtd"]), dpub=r.choice(["", "-//W3C//DTD HTML 4.01//EN", "-//W3C//DTD XHTML 1.0 Strict//EN"]),
                                                escurls=r.chance(1, 2)))]
        ls = [G.sax_line(cfg, evs) for _, cfg in vs]
        meta.append((doc, vs, len(lines), ls))
        lines += ls
    il, ml, irc, mrc, ierr, merr = runner.run(lines, "saxhtml")
    if irc != 0 or len(il) < len(lines):
        bad = lines[len(il)] if len(il) < len(lines) else ""
        ctx.fail("saxhtml.crash", "harness stopped (rc=%s) at request %d: %s" % (irc, len(il), ierr[-600:]), {"line": bad[:3000]})
        return
    if mrc != 0 or len(ml) < len(lines):
        ctx.oblige("model driver ran to completion (sax html)", "correspondence", False, merr[-600:])
        return
    modelled = 0
    for doc, vs, off, ls in meta:
        items = []
        for k, ((tag, cfg), line) in enumerate(zip(vs, ls)):
            inp = {"kind": "sax", "variant": tag, "cfg": cfg, "doc": doc, "line": line[:3000]}
            items.append((tag, cfg["enc"], cfg["indent"], il[off + k], ml[off + k], line, inp, False))
            modelled += ml[off + k].startswith("ok ")
            nt = nontrivial(doc)
            ctx.case(nontrivial_key=(line if (nt and cfg["indent"]) else None), cls="saxhtml:" + ("ns" if doc[0][2] else "plain"))
        check_html_outputs(ctx, state, doc, items, tab)
    ctx.extra["saxhtml_model_covered"] = "%d of %d requests rendered by the Lean HTML model (the rest: predicates only)" % (modelled, len(lines))


def expected_tree_html(nodes):
    out = []
    for n in nodes:
        if n[0] == "elem":
            out.append(("elem", n[1], list(n[2]), expected_tree_html(n[3])))
        elif n[0] in ("text", "raw", "rtfraw"):
            out.append(("text", n[1]))
        elif n[0] == "comment":
            out.append(n)
        elif n[0] == "pi":
            out.append(("pi", n[1], n[2].lstrip(WS)))
    return out


# ------------------------------------------------------------------------------------------------

def replay(ctx, path):
    d = json.load(open(path))
    first = d.get("first", {})
    inp = first.get("input", {})
    line = inp.get("line")
    if not line:
        print("replay file names no request line:", json.dumps(d.get("broken_obligations", []))[:2000])
        return 1
    ctx.build("hooks")
    ctx.translate("c08_callpoints")
    ctx.translate("c08_html_table")
    common.lake_build(["xm_c08"])
    model = ctx.exe("xm_c08")
    harness = common.build_harness("c08_serialize", ["c08_serialize.cpp"], flavor="hooks", sanitize=False, extra=("-DNDEBUG",))
    work = os.path.join(common.CACHE, "work")
    os.makedirs(work, exist_ok=True)
    il, ml, irc, mrc, ierr, merr = Runner(ctx, harness, model, work).run([line], "replay")
    print("request:", line[:400])
    for nm, rep in (("implementation", il), ("model", ml)):
        rep = rep[0] if rep else "<none>"
        if rep.startswith("ok ") and nm == "implementation":
            b = bytes.fromhex(rep[3:]) if rep[3:] != "-" else b""
            print(nm + ":", repr(b))
        elif rep.startswith("ok "):
            print(nm + ":", repr(G.unhx4(rep[3:])))
        else:
            print(nm + ":", rep)
    print("recorded verdict:", first.get("key"), "--", first.get("what"))
    return 1
