"""C01 — the transformation result is the tree XSLT 1.0 defines (DESIGN.md §5 C01, design/C01.md).

proof:          lean/XalanModel/Props/C01.lean — walker (iterative execute = recursive traversal),
                VariablesStack (findEntry = lexical lookup), pending start tag (flushPending protocol =
                §7.1.3 tree construction), Core (engine model = Spec.transform on a fragment, oracle instantiated),
                over lean/XalanModel/C01/{Walker,Variables,Pending,Core,CoreMono,CoreSpec}*.lean
correspondence: harness/c01_xslt.cpp (real XalanTransformer in-process; result captured as SAX events at a
                FormatterListener; real VariablesStack driven by op logs) vs lean/Driver/C01.lean
                (Spec.lean: independent XSLT 1.0 core interpreter; Variables/Pending/Walker models),
                same request lines produced by gen/c01_gen.py.
"""
import copy
import json
import os

from vlib import common
from vlib.common import Rng
from gen import c01_gen as G

CLAIMED = True
LEVEL = "proof"
TECHNIQUE = ("Lean 4 proofs about hand models of the three engine mechanisms (iterative instruction walker, variables stack, "
             "pending start tag) + differential correspondence of the real XalanTransformer against an independent "
             "executable XSLT 1.0 core specification written in Lean")
LEVEL_TEXT = ("PROVED in Lean, for all inputs (19 theorems, lean/XalanModel/Props/C01.lean): "
              "(1) walker_eq_recursion / walker_restores_stack — for every instruction tree over leaf / block / call-template / choose / "
              "for-each (any node count) / apply-templates (any sequence of selected templates) / use-attribute-sets (any nested sets), any nesting "
              "and call graph, the iterative startElement/endElement/getInvoker/getNextChildElemToExecute loop of ElemTemplateElement::execute "
              "issues exactly the event sequence of the recursive traversal and restores the invoker and node-list stacks. "
              "(1b) core_refines_spec_partial — the same loop with data (current-node stack, node lists, output through the pending start tag; "
              "selects / rule choice / branches / strings answered by an ARBITRARY oracle of the context) delivers exactly normalize of the "
              "recursive instantiation Core.inst, for the fragment value-of / attributes / copy-of, comment, PI / literal result elements / "
              "call-template / choose / for-each / apply-templates. "
              "(1c) core_refines_spec_total / core_refines_spec — NO abstract oracle and NO assumed program: CoreSpec.compile is a total compiler "
              "from the specification's stylesheets to Core programs (with annotation infoOf and layout layoutOf), inFragment a decidable "
              "test; for EVERY stylesheet passing the test (literal text / value-of / literal result elements with attribute value templates (no xsl:attribute, no use-attribute-sets) / if / "
              "choose / for-each / apply-templates without sort and params / call-template without params / all built-in rules; any "
              "patterns, modes, priorities, import precedences; no keys, strip-space, global variables, namespace-alias) and every document, "
              "with the oracle CoreSpec.oracleOf whose every answer IS Spec.eval / chooseTemplateIdx / toStr: whatever tree the "
              "specification Spec.transform defines, the iterative engine model Core.run on compile ss produces exactly that tree. "
              "(core_refines_spec is the relational form for any program that Represents the stylesheet; represents_compile proves the "
              "compiler establishes it; CoreSpecProofs.simS simulates the five mutually recursive functions of Spec.lean by the four of "
              "Core.inst by induction on the specification's fuel.) "
              "(2) variables_lexical(_params) / variables_lookup_pure / variables_balanced — VariablesStack::findEntry returns the innermost "
              "binding of the current template instance, else the global one, whatever the callers' frames hold, and popContextMarker "
              "discards a frame whole; variables_attribute_set_scope — with the current stack frame index set to the global one "
              "(ElemAttributeSet::startElement) a variable reference returns the top-level binding whatever the using template and its "
              "callers have bound under the same name (XSLT 7.1.4), and attribute_sets_see_only_globals — in Spec.lean the events of "
              "the used attribute sets do not depend on the user's local variables / passed parameters; "
              "variables_attribute_set_wrong_index_counterexample shows the lookup with the index left at the current frame. "
              "(4) avt_literals_opaque — in the attribute-value-template parser of the model (Avt.avtParse, XSLT 7.6.2, fed with the RAW "
              "attribute text) braces, doubled braces and the other quote character inside a string literal of either quote style are "
              "not template syntax: the literal is taken verbatim and lexing continues in the expression. "
              "(3) pending_refines_spec / pending_wellformed — for every sequence of engine calls the pending-start-tag protocol of "
              "XSLTEngineImpl delivers a balanced stream with attributes only inside start tags, and exactly the XSLT 7.1.3 tree when "
              "attributes are added through the guarded path. Three counterexample theorems (replayed on the real engine) show where the "
              "code as it was violated the full statement. "
              "ONLY COMPARED (differential, not proved): the full property — every stylesheet x document yields the Recommendation's tree — "
              "is decided by running generated stylesheets x documents through the real XalanTransformer and through the Lean specification "
              "interpreter Spec.transform and comparing the delivered event lists (expanded names, attributes as sets, adjacent text merged); "
              "each hand model (Walker, Variables, Pending, Core) is tied to the real class by its own op-log run, and stylesheets of the "
              "proved fragment are additionally run exactly as in the conclusion of core_refines_spec_total (Core.run on compile ss with oracleOf) and compared with engine and specification.")
LEVEL_NOTE = ("Partial. What the proofs do NOT cover: no Lean model of the whole of XSLT/*.cpp exists, so real engine = Core model is a "
              "correspondence (op logs, TraceListener order), not a theorem; core_refines_spec covers the narrow fragment above (no "
              "variables / parameters / xsl:attribute / xsl:element / copy / sort / keys / strip-space / global variables / xsl:number / xsl:apply-imports — these are in "
              "Spec.lean and are compared only); expression values inside Spec.lean use a constant fuel (evalFuel = 1000), so "
              "a deeper XPath evaluation is 'undefined' in the specification (the generator stays far below; the check fails on any "
              "spec-undefined reply). "
              "Compared subset (generator coverage bounds the assurance): template rules with match/name/mode/priority, key() and id-free "
              "patterns, every pattern kind of XSLT 5.5 with its default priority computed by Spec.lean (processing-instruction('t') and QName 0, "
              "p:* -0.25, other node tests -0.5, the rest 0.5; rule sets differing in default priority only, on every node kind), apply-templates, call-template, for-each, sort, value-of, copy, copy-of, element and attribute (name AVTs, "
              "namespace= AVTs, namespace=\"\"), text, comment, processing-instruction, if, choose, variable, param, with-param, literal result "
              "elements with AVTs (pre-split parts, and raw template TEXT with {{ }} escapes, several {expr} parts, string literals of both "
              "quote styles holding braces / the other quote, nested calls; written with \" ' and character-reference quoting; split by Avt.avtParse), global variables/params, attribute sets (merged by import precedence), keys (several declarations of one "
              "name, also in imported modules), xsl:number (value / level / count / from, multi-token formats), strip-space with xml:space "
              "(XSLT 3.4), xsl:namespace-alias (single module), import trees + include + apply-imports with named templates / globals / keys "
              "in imported modules, re-execution of the same invocation; documents with prefixed elements / attributes (two prefixes for one "
              "URI; the same prefix re-bound to other URIs at different depths and copied by xsl:copy / copy-of into result elements that "
              "already bind it), a default namespace, xml:space, comments, PIs, whitespace-only text; XPath: 10 axes, node tests, predicates, 31 "
              "functions, arithmetic on exact dyadic rationals (div by powers of two only — other quotients and their number->string "
              "rounding are NOT generated, see C18). NOT compared: namespace nodes / xmlns declarations of the result (only expanded names "
              "are), hence exclude-result-prefixes; xsl:output and serialisation (C04/C08); xsl:message, document(), extension elements, "
              "decimal-format, fallback; error cases (C03). "
              "Model abstractions: Walker — conditions / node counts / selected templates are parameters of the tree, the direct-template "
              "shortcut is treated as a call; Variables — values and names are numbers, lazily evaluated variables not modelled; Pending — "
              "attribute list abstracted to an association list, namespaces/CDATA/HTML switch out of scope. "
              "Run time is bounded: at most 8 failing cases are listed, 3 shrunk, 150 s (quick) spent on failures in total. "
              "Trusted: Lean kernel; axioms propext/Classical.choice/Quot.sound only; Spec.lean as a transcription of the Recommendations; "
              "the hand transcriptions (each checked against the real code by an op-log correspondence: TraceListener order, real "
              "VariablesStack, FormatterListener events); Xerces parser; generator/harness/canonicaliser.")
DESIGN_REF = "DESIGN.md section 5, C01; design/C01.md"

THEOREMS = [
    "XalanModel.Props.C01.walker_eq_recursion",
    "XalanModel.Props.C01.walker_restores_stack",
    "XalanModel.Props.C01.core_refines_spec_partial",
    "XalanModel.Props.C01.core_refines_spec",
    "XalanModel.Props.C01.core_refines_spec_total",
    "XalanModel.Props.C01.variables_lexical",
    "XalanModel.Props.C01.variables_lexical_params",
    "XalanModel.Props.C01.variables_lookup_pure",
    "XalanModel.Props.C01.variables_balanced",
    "XalanModel.Props.C01.variables_activation_leak_counterexample",
    "XalanModel.Props.C01.variables_attribute_set_scope",
    "XalanModel.Props.C01.variables_attribute_set_wrong_index_counterexample",
    "XalanModel.Props.C01.attribute_sets_see_only_globals",
    "XalanModel.Props.C01.avt_literals_opaque",
    "XalanModel.Props.C01.pending_refines_spec",
    "XalanModel.Props.C01.pending_wellformed",
    "XalanModel.Props.C01.pending_unguarded_attribute_counterexample",
    "XalanModel.Props.C01.pending_empty_text_counterexample",
]


# ------------------------------------------------------------------------------------------
# canonical form of a reply

def canon(reply, dedup=False):
    """dedup=True: attributes of one element with the same *expanded* name collapse (the later one wins, XSLT 7.1.3) -- used
    only to recognise the recorded defect 'duplicate-expanded-attribute'.
    ('ok', tuple of events) | ('err', text).  Events: ('S', name, ((an, av)...)), ('T', s), ('C', s), ('P', t, d), ('E', name).
    Adjacent text merged, empty text dropped, attributes sorted by name (later value wins)."""
    if reply is None:
        return ("crash", "")
    w = reply.split(" ")
    if not w or w[0] != "ok":
        return ("err", reply[:300])
    evs = []
    scopes = [{"xml": "http://www.w3.org/XML/1998/namespace"}]   # namespace declarations in scope on the delivered stream

    def resolve(q, elem=False):
        # expanded name `{uri}local`; names already expanded (the Lean side) stay as they are; an unprefixed element
        # name takes the default namespace in scope, an unprefixed attribute name is in no namespace
        if q.startswith("{") or (":" not in q and not elem):
            return q
        pfx, loc = q.split(":", 1) if ":" in q else ("", q)
        for sc in reversed(scopes):
            if pfx in sc:
                return "{%s}%s" % (sc[pfx], loc) if sc[pfx] else loc
        return q

    for t in w[1:]:
        if t == "#":
            break
        if t == "":
            continue
        k = t[:2]
        body = t[2:]
        if k == "S:":
            evs.append(["S", body, {}, {}])      # name, attributes, namespace declarations
        elif k == "A:":
            n, _, v = body.partition("=")
            if evs and evs[-1][0] == "S":
                if n == "xmlns" or n.startswith("xmlns:"):
                    evs[-1][3][n[6:] if n.startswith("xmlns:") else ""] = dec(v)
                else:
                    evs[-1][2][n] = v
            else:
                evs.append(["A!", n, v])      # attribute not directly after a start tag: never canonical
        elif k == "T:":
            if body == "-":
                continue
            if evs and evs[-1][0] == "T":
                evs[-1][1] += body[1:]
            else:
                evs.append(["T", body])
        elif k == "C:":
            evs.append(["C", body])
        elif k == "P:":
            evs.append(["P", body])
        elif k == "E:":
            evs.append(["E", body])
        else:
            evs.append(["?", t])
    out = []
    for e in evs:
        if e[0] == "S":
            scopes.append(e[3])
            # namespace declarations are not compared (they are not attributes); names are compared expanded
            if dedup:
                out.append(("S", resolve(e[1], True), tuple(sorted({resolve(n): v for n, v in e[2].items()}.items()))))
            else:
                out.append(("S", resolve(e[1], True), tuple(sorted((resolve(n), v) for n, v in e[2].items()))))
        elif e[0] == "E":
            out.append(("E", resolve(e[1], True)))
            if len(scopes) > 1:
                scopes.pop()
        else:
            out.append(tuple(e))
    return ("ok", tuple(out))


def equal_modulo_duplicate_attributes(ci, cm):
    """the engine's tree `ci` and the specification's tree `cm` (canonical event tuples) are equal except that, on some
    elements, the engine delivered several attributes with one expanded name (different prefixes) where the specification
    has one, whose value is one of those delivered -- the recorded defect duplicate-expanded-attribute.  At least one
    such element must exist."""
    if len(ci) != len(cm):
        return False
    seen = False
    for a, b in zip(ci, cm):
        if a[0] != "S" or b[0] != "S":
            if a != b:
                return False
            continue
        if a[1] != b[1]:
            return False
        names = [n for n, _ in a[2]]
        dups = {n for n in names if names.count(n) > 1}
        if not dups:
            if a != b:
                return False
            continue
        seen = True
        if [x for x in a[2] if x[0] not in dups] != [x for x in b[2] if x[0] not in dups]:
            return False
        for n in dups:
            bv = [v for m, v in b[2] if m == n]
            if len(bv) != 1 or bv[0] not in [v for m, v in a[2] if m == n]:
                return False
    return seen


def trace_of(reply):
    if reply and " # " in reply:
        return reply.split(" # ", 1)[1].split(" ")
    if reply and reply.endswith(" #"):
        return []
    return None


def wellformed(evs):
    """specification predicate evaluated on the implementation's own output: balanced, properly nested"""
    st = []
    for e in evs:
        if e[0] == "S":
            st.append(e[1])
        elif e[0] == "E":
            if not st or st[-1] != e[1]:
                return False
            st.pop()
        elif e[0] in ("A!", "?"):
            return False
    return not st


def show(evs):
    out = []
    for e in evs:
        if e[0] == "S":
            out.append("<%s%s>" % (e[1], "".join(" %s=%r" % (n, dec(v)) for n, v in e[2])))
        elif e[0] == "E":
            out.append("</%s>" % e[1])
        elif e[0] == "T":
            out.append(repr(dec(e[1])))
        else:
            out.append(str(e))
    return "".join(out)


def dec(h):
    if h == "-":
        return ""
    try:
        return bytes.fromhex(h[1:]).decode("utf-8", "replace")
    except ValueError:
        return h


# ------------------------------------------------------------------------------------------

CHUNK = 2000


def run_lines(harness, model, lines, work, tag):
    """same request lines to the harness and to the Lean driver, in chunks (the shared line loop of the Lean
    drivers is not tail recursive: a very long stream plus one deep evaluation can exhaust its stack)"""
    il, ml, ierr_all, merr_all = [], [], "", ""
    irc = mrc = 0
    for k in range(0, max(len(lines), 1), CHUNK):
        part = lines[k:k + CHUNK]
        req = os.path.join(work, "c01_%s.req" % tag)
        with open(req, "w") as f:
            f.write("\n".join(part) + "\n")
        a, b, rc1, rc2, e1, e2 = common.run_pair([harness], [model], req, timeout=3000)
        # keep positions aligned even if a process died in this chunk
        a = a[:len(part)] + [None] * (len(part) - len(a))
        b = b[:len(part)] + [None] * (len(part) - len(b))
        il.extend(a)
        ml.extend(b)
        irc = irc or rc1
        mrc = mrc or rc2
        ierr_all += e1[-500:] if rc1 else ""
        merr_all += e2[-500:] if rc2 else ""
    return il, ml, irc, mrc, ierr_all, merr_all


def run_harness_only(harness, lines, timeout=900):
    import subprocess
    res = []
    err = ""
    rc = 0
    for k in range(0, len(lines), CHUNK):
        part = lines[k:k + CHUNK]
        try:
            p = subprocess.run([harness], input=("\n".join(part) + "\n").encode(), stdout=subprocess.PIPE, stderr=subprocess.PIPE, timeout=timeout)
        except subprocess.TimeoutExpired:
            res.extend([None] * len(part))
            rc = 124
            err += "harness timed out"
            continue
        out = p.stdout.decode("utf-8", "replace").split("\n")
        out = out[:-1] if out and out[-1] == "" else out
        res.extend(out[:len(part)] + [None] * (len(part) - len(out)))
        if p.returncode:
            rc = p.returncode
            err += p.stderr.decode("utf-8", "replace")[-500:]
    return res, rc, err


def run_two_phase(harness, model, lines, timeout=900):
    """harness first; the Lean interpreter only on the cases the harness did not abandon as oversized (or died on)"""
    il, irc, ierr = run_harness_only(harness, lines, timeout)
    keep = [i for i in range(len(lines)) if il[i] != "big" and il[i] is not None]
    mo = run_model_only(model, [lines[i] for i in keep], timeout)
    ml = [None] * len(lines)
    for i, o in zip(keep, mo):
        ml[i] = o if o != "" else None
    mrc = 0 if all(ml[i] is not None for i in keep) else 1
    return il, ml, irc, mrc, ierr, ""


def verdict(ir, mr):
    """ok | spec-undefined | impl-error | mismatch | illformed | crash"""
    if ir == "big":
        return "big"
    ci, cm = canon(ir), canon(mr)
    if ci[0] == "crash":
        return "crash"
    if cm[0] != "ok":
        return "spec-undefined"
    if ci[0] == "err":
        return "impl-error"
    if not wellformed(ci[1]):
        return "illformed"
    return "ok" if ci[1] == cm[1] else "mismatch"


# ---- classification of a disagreement by the modelled engine behaviours -------------------------

QUIRKS = [(1, "param-activation-leak")]


def run_model_only(model, lines, timeout=900):
    import subprocess
    res = []
    for k in range(0, len(lines), CHUNK):
        part = lines[k:k + CHUNK]
        try:
            p = subprocess.run([model], input=("\n".join(part) + "\n").encode(), stdout=subprocess.PIPE, stderr=subprocess.PIPE, timeout=timeout)
        except subprocess.TimeoutExpired:
            res.extend([""] * len(part))
            continue
        out = p.stdout.decode("utf-8", "replace").split("\n")
        out = out[:-1] if out and out[-1] == "" else out
        res.extend(out[:len(part)] + [""] * (len(part) - len(out)))
    return res


MASKS = [1]


def explain_many(model, items):
    """items: list of (request line, canonical implementation result).  For each: the smallest set of
    modelled engine behaviours (Quirks switches of Spec.lean, tree built by the pending-start-tag model)
    under which the interpreter reproduces the implementation's result exactly, or None.
    One model process for the whole batch."""
    if not items:
        return []
    req = []
    for line, _ in items:
        rest = line.split(" ", 1)[1]
        req.extend("xsltq %d %s" % (m, rest) for m in MASKS)
    outs = run_model_only(model, req)
    res = []
    for k, (_, impl_canon) in enumerate(items):
        why = None
        for j, m in enumerate(MASKS):
            idx = k * len(MASKS) + j
            if idx < len(outs) and canon(outs[idx]) == impl_canon:
                why = [name for bit, name in QUIRKS if m & bit]
                break
        res.append(why)
    return res


def explain(model, line, impl_canon):
    return explain_many(model, [(line, impl_canon)])[0]


# ---- shrinking -----------------------------------------------------------------------------

BODY_FIELDS = ("body", "params", "whens", "otherwise")


def body_lists(ss):
    """all mutable instruction lists of a stylesheet"""
    res = []

    def walk(lst):
        res.append(lst)
        for i in lst:
            for f in BODY_FIELDS:
                if isinstance(i.get(f), list):
                    walk(i[f])
    for t in ss["templates"]:
        walk(t["body"])
    return res


def variants(ss, doc):
    """one-step-smaller (stylesheet, doc) pairs"""
    # drop a template / a global
    for k in range(len(ss["templates"])):
        s2 = copy.deepcopy(ss)
        del s2["templates"][k]
        yield s2, doc
    for k in range(len(ss["globals"])):
        s2 = copy.deepcopy(ss)
        del s2["globals"][k]
        yield s2, doc
    # drop an instruction / replace it by its body
    nlists = len(body_lists(ss))
    for li in range(nlists):
        n = len(body_lists(ss)[li])
        for k in range(n):
            s2 = copy.deepcopy(ss)
            l2 = body_lists(s2)[li]
            ins = l2[k]
            del l2[k]
            yield s2, doc
            if ins["k"] in ("lre", "element", "copy", "if", "foreach") and ins.get("body"):
                s3 = copy.deepcopy(ss)
                l3 = body_lists(s3)[li]
                l3[k:k + 1] = l3[k]["body"]
                yield s3, doc
            if ins.get("sorts"):
                s3 = copy.deepcopy(ss)
                body_lists(s3)[li][k]["sorts"] = []
                yield s3, doc
            if ins["k"] == "lre" and ins.get("attrs"):
                s3 = copy.deepcopy(ss)
                body_lists(s3)[li][k]["attrs"] = []
                yield s3, doc
    for t in range(len(ss["templates"])):
        if len(ss["templates"][t]["pats"]) > 1:
            for k in range(len(ss["templates"][t]["pats"])):
                s2 = copy.deepcopy(ss)
                del s2["templates"][t]["pats"][k]
                yield s2, doc
        if ss["templates"][t]["prio"] is not None:
            s2 = copy.deepcopy(ss)
            s2["templates"][t]["prio"] = None
            yield s2, doc
    # shrink the document
    def doc_variants(node):
        if node[0] != "E":
            return
        _, name, attrs, kids = node
        for k in range(len(kids)):
            if kids[k][0] == "T" and 0 < k < len(kids) - 1 and kids[k - 1][0] == "T":
                continue
            nk = kids[:k] + kids[k + 1:]
            # never leave two adjacent text nodes (they would be one node after parsing)
            if any(nk[j][0] == "T" and nk[j + 1][0] == "T" for j in range(len(nk) - 1)):
                continue
            yield ("E", name, attrs, nk)
        for k in range(len(attrs)):
            yield ("E", name, attrs[:k] + attrs[k + 1:], kids)
        for k in range(len(kids)):
            for sub in doc_variants(kids[k]):
                yield ("E", name, attrs, kids[:k] + [sub] + kids[k + 1:])
    for ti in range(len(doc)):
        if doc[ti][0] != "E":
            yield ss, doc[:ti] + doc[ti + 1:]
            continue
        for v in doc_variants(doc[ti]):
            yield ss, doc[:ti] + [v] + doc[ti + 1:]


def shrink(harness, model, ss, doc, work, want, max_rounds=60, deadline=None):
    """greedy; a variant is kept when it shows the same failure class and (for mismatches) is still not
    explained by the modelled engine behaviours.  Bounded: `max_rounds` rounds, at most 400 variants per round, stops at
    `deadline` (wall clock); variants the harness abandons as oversized never reach the Lean interpreter."""
    import time
    cur = (ss, doc)
    for _ in range(max_rounds):
        if deadline is not None and time.time() > deadline:
            break
        vs = list(variants(*cur))[:400]
        if not vs:
            break
        lines = [G.request_line("s%d" % i, v[0], v[1]) for i, v in enumerate(vs)]
        il, ml, irc, _, _, _ = run_two_phase(harness, model, lines, timeout=60)
        hit = None
        for i in range(len(vs)):
            ir = il[i] if i < len(il) else None
            mr = ml[i] if i < len(ml) else None
            if ir is None and want != "crash":
                break
            if verdict(ir, mr) == want:
                if want == "mismatch" and explain(model, lines[i], canon(ir)):
                    continue
                hit = vs[i]
                break
        if hit is None:
            break
        cur = hit
    return cur


# ---- corpus: minimised past failures and the reproduced defects (run first) --------------

def T(s, xsl=False):
    return {"k": "text", "s": s, "xsl": xsl}


def LRE(name, body, attrs=()):
    return {"k": "lre", "name": name, "attrs": list(attrs), "body": body}


def ATTR(name, body, nsempty=False):
    return {"k": "attribute", "name": [("l", name)], "body": body, "nsempty": nsempty}


def ROOT_T(body):
    return {"pats": [("root",)], "name": None, "mode": None, "prio": None, "body": body}


def ASET(name, attr, val, uses=()):
    return {"name": name, "uses": list(uses), "body": [ATTR(attr, [T(val)])]}


DOC0 = [("E", "r", [], [("E", "a", [("x", "1")], [("T", "1")]), ("E", "b", [], [("T", "2")])])]

CORPUS = [
    # xsl:attribute namespace="" after a child: the attribute leaks onto the NEXT element (known finding)
    ({"globals": [], "templates": [ROOT_T([LRE("out", [LRE("p", []), ATTR("x", [T("1")], nsempty=True), LRE("q", [])])])]}, DOC0),
    # xsl:copy-of of an empty string closes the start tag; the following xsl:attribute is lost (known finding)
    ({"globals": [], "templates": [ROOT_T([LRE("out", [{"k": "copyof", "e": ("lit", "")}, ATTR("y", [T("2")])])])]}, DOC0),
    # plain late attribute: ignored with a warning (allowed recovery) — must agree
    ({"globals": [], "templates": [ROOT_T([LRE("out", [LRE("p", []), ATTR("x", [T("1")]), LRE("q", [])])])]}, DOC0),
    # with-param claimed by template a stays visible to template b (same apply-templates), hiding the global X (known finding)
    ({"globals": [{"k": "variable", "name": "X", "select": ("lit", "global"), "body": []}],
      "templates": [ROOT_T([{"k": "apply", "select": ("step", ("step", ("ctx",), "child", ("name", "r"), []), "child", "star", []), "mode": None, "sorts": [],
                             "params": [{"k": "withparam", "name": "X", "select": ("lit", "passed"), "body": []}]}]),
                    {"pats": [("step", ("ctx",), "child", ("name", "a"), [])], "name": None, "mode": None, "prio": None,
                     "body": [{"k": "param", "name": "X", "select": None, "body": []}, {"k": "valueof", "e": ("var", "X")}]},
                    {"pats": [("step", ("ctx",), "child", ("name", "b"), [])], "name": None, "mode": None, "prio": None,
                     "body": [{"k": "valueof", "e": ("var", "X")}]}]},
     [("E", "r", [], [("E", "b", [], []), ("E", "a", [], []), ("E", "b", [], [])])]),
    # attribute sets: used sets first, then the element's own attributes, then xsl:attribute children
    ({"globals": [], "attrsets": [ASET("s0", "x", "1"), ASET("s1", "x", "2", uses=["s0"])],
      "templates": [ROOT_T([LRE("out", [{"k": "usesets", "names": ["s1"]}, ATTR("z", [T("3")]),
                                        {"k": "element", "name": [("l", "e")], "body": [{"k": "usesets", "names": ["s0", "s1"]}]}],
                                attrs=[("k", [("l", "v")])])])]}, DOC0),
    # scope of attribute sets (XSLT 7.1.4): $gs inside the set is the top-level binding, although the using template has a local
    # variable / a parameter (default and with-param) / a nested set of the same name; via literal element, xsl:element, xsl:copy
    ({"globals": [{"k": "variable", "name": "gs", "select": ("lit", "glob"), "body": []}],
      "attrsets": [{"name": "sc", "uses": [], "body": [ATTR("sc", [{"k": "valueof", "e": ("var", "gs")}])]},
                   {"name": "sc2", "uses": ["sc"], "body": [ATTR("sc2", [{"k": "valueof", "e": ("fn", "concat", [("var", "gs"), ("lit", "2")])}])]}],
      "templates": [ROOT_T([{"k": "variable", "name": "gs", "select": ("lit", "loc"), "body": []},
                            LRE("w", [{"k": "usesets", "names": ["sc2"]}, {"k": "valueof", "e": ("var", "gs")}]),
                            {"k": "element", "name": [("l", "el")], "body": [{"k": "usesets", "names": ["sc"]}]},
                            {"k": "call", "name": "tc", "params": [{"k": "withparam", "name": "gs", "select": ("fn", "concat", [("var", "gs"), ("lit", "-wp")]), "body": []}]},
                            {"k": "call", "name": "tc", "params": []},
                            {"k": "apply", "select": ("step", ("ctx",), "child", "star", []), "mode": None, "sorts": [], "params": []}]),
                    {"pats": [], "name": "tc", "mode": None, "prio": None,
                     "body": [{"k": "param", "name": "gs", "select": ("fn", "concat", [("var", "gs"), ("lit", "-dflt")]), "body": []},
                              LRE("w", [{"k": "usesets", "names": ["sc", "sc2"]}, {"k": "valueof", "e": ("var", "gs")}])]},
                    {"pats": [("step", ("ctx",), "child", ("name", "r"), [])], "name": None, "mode": None, "prio": None,
                     "body": [{"k": "variable", "name": "gs", "select": None, "body": [T("rtf")]},
                              {"k": "copy", "body": [{"k": "usesets", "names": ["sc"]}, {"k": "valueof", "e": ("var", "gs")}]}]}]}, DOC0),
    # a prefix re-bound at different depths of the source (p = urn:p on r, urn:o on a, urn:p again on b), copied by xsl:copy-of
    # and by xsl:copy into result elements that already bind p to either URI: every copy keeps its expanded names
    ({"globals": [], "templates": [
        ROOT_T([LRE("out", [{"k": "copyof", "e": ("step", ("ctx",), "descendant", ("name", "b"), [])}]),
                LRE("p:item", [{"k": "copyof", "e": ("step", ("ctx",), "descendant", ("name", "b"), [])},
                               {"k": "apply", "select": ("step", ("ctx",), "descendant", "star", []), "mode": "cp", "sorts": [], "params": []}]),
                {"k": "element", "name": [("l", "p:el")], "ns": [("l", "urn:o")],
                 "body": [{"k": "apply", "select": ("step", ("ctx",), "descendant", ("name", "b"), []), "mode": "cp", "sorts": [], "params": []},
                          {"k": "copyof", "e": ("step", ("ctx",), "descendant", "star", [])}]}]),
        {"pats": [("step", ("ctx",), "child", "star", [])], "name": None, "mode": "cp", "prio": None,
         "body": [{"k": "copy", "body": [{"k": "copyof", "e": ("step", ("ctx",), "attribute", "star", [])},
                                         {"k": "apply", "select": None, "mode": "cp", "sorts": [], "params": []}]}]}]},
     [("E", "r", [], [("E", "a", [("xmlns:p", "urn:o"), ("p:x", "0")],
                       [("E", "b", [("xmlns:p", "urn:p")], [("E", "p:c", [("p:x", "1")], [("E", "q:d", [], [])])]),
                        ("E", "p:e", [("xmlns", "urn:d")], [("E", "f", [("xmlns", "")], [])])])])]),
    # default priorities (XSLT 5.5): the rule naming the PI target (0) beats the later processing-instruction() and node()
    # rules (-0.5); a:0 beats the later * (-0.5); @x beats @*; text()[true()] (0.5) beats text(); comment() = node(): last wins
    ({"globals": [], "templates": [
        ROOT_T([{"k": "apply", "select": ("bin", "|", ("step", ("ctx",), "descendant", "node", []),
                                           ("step", ("step", ("ctx",), "descendant", "star", []), "attribute", "star", [])),
                 "mode": None, "sorts": [], "params": []}])] + [
        {"pats": [p], "name": None, "mode": None, "prio": None, "body": [T(s)]} for p, s in [
            (("step", ("ctx",), "child", ("piname", "p1"), []), "PI-named;"),
            (("step", ("ctx",), "child", "pi", []), "PI-any;"),
            (("step", ("ctx",), "child", "text", [("fn", "true", [])]), "T-pred;"),
            (("step", ("ctx",), "child", ("name", "a"), []), "E-a;"),
            (("step", ("ctx",), "attribute", ("name", "x"), []), "A-x;"),
            (("step", ("ctx",), "child", "comment", []), "C;"),
            (("step", ("ctx",), "child", "text", []), "T;"),
            (("step", ("ctx",), "child", "star", []), "E-star;"),
            (("step", ("ctx",), "attribute", "star", []), "A-star;"),
            (("step", ("ctx",), "child", "node", []), "N;")]]},
     [("E", "r", [("y", "2")], [("P", "p1", "d"), ("E", "a", [("x", "1")], [("T", "t")]), ("C", "c1"), ("P", "pp", ""), ("E", "b", [], [])])]),
    # attribute value templates given as TEXT (split by Avt.avtParse on the Lean side): string literals of both quote styles
    # holding braces, doubled braces and the other quote; the escapes {{ }} next to expressions; written with the three
    # XML quoting styles
    ({"globals": [], "templates": [ROOT_T([LRE("out", [], attrs=[
        ("a", [("raw", '{"{x}}\'"}', "dq")]),
        ("b", [("raw", "{{{concat('}{{\"', \"'{\", @x)}}}", "sq")]),
        ("c", [("raw", 'x{"a"}{\'}\'}-{translate("{a}", "{", \'}\')}{{', "ref")]),
        ("d", [("raw", '{string-length("}}{{")}{ "\'" }', "dq")])])])]}, DOC0),
    # empty value-of / empty RTF copy-of do not close the start tag
    ({"globals": [], "templates": [ROOT_T([LRE("out", [{"k": "valueof", "e": ("lit", "")}, ATTR("y", [T("2")])])])]}, DOC0),
]


DOC1 = [("E", "r", [], [("E", "c", [], [("E", "c", [], []), ("E", "c", [], [])])])]

# cases whose deviation is a recorded finding that the Quirks switches do not model (keyed by tag)
DOC2 = [("E", "r", [], [("E", "b", [], [("E", "c", [], [])]), ("E", "d", [], [])])]

DOC3 = [("E", "r", [], [("E", "c", [("q:x", "abc")], [])])]

DOC4 = [("E", "r", [], [("E", "a", [("q:x", "3")], []), ("E", "b", [("p:x", "abc")], [])])]

TAGGED_CORPUS = [
    # xsl:namespace-alias in the importing module, the literal result element in the imported one: a top-level declaration
    # holds for the whole stylesheet (XSLT 7.1.1: "the declaration with the highest import precedence is used"), but
    # NamespacesHandler keeps the aliases per module (known finding)
    ("namespace-alias-imported-module",
     {"globals": [], "templates": [{"pats": [("root",)], "name": None, "mode": None, "prio": None, "body": [LRE("p:item", [])],
                                    "mod": 1, "prec": 0, "low": 0}],
      "modules": [{"imports": [1], "includes": []}, {"imports": [], "includes": []}], "imports": 1, "alias": [("urn:p", "urn:q")]}, DOC0),
    # two attribute nodes with the same expanded name {urn:p}x but different prefixes copied onto one element: the
    # second must replace the first (XSLT 7.1.3); both are delivered (known finding, also recorded by C14)
    ("duplicate-expanded-attribute",
     {"globals": [], "templates": [ROOT_T([LRE("w", [{"k": "copyof", "e": ("step", ("step", ("ctx",), "descendant", "star", []), "attribute", "star", [])}])])]}, DOC4),
    # copying an attribute node whose prefix the receiving element does not declare: the prefix stays undeclared
    ("copy-namespaced-attribute-undeclared-prefix",
     {"globals": [], "templates": [ROOT_T([LRE("out", [{"k": "copyof", "e": ("step", ("step", ("ctx",), "descendant", ("name", "c"), []), "attribute", "star", [])}])])]}, DOC3),
    # xsl:copy with two attribute sets while the current node is the root: content instantiated twice
    ("copy-usesets-on-root",
     {"globals": [], "attrsets": [ASET("s0", "x", "1"), ASET("s1", "y", "2")],
      "templates": [ROOT_T([{"k": "copy", "body": [{"k": "usesets", "names": ["s0", "s1"]}, T("ab")]}])]}, DOC0),
    # union in which the document node is merged after other nodes: delivered last instead of first
    ("union-with-document-node-order",
     {"globals": [], "templates": [ROOT_T([{"k": "foreach", "select": ("bin", "|", ("step", ("root",), "descendant", ("name", "c"), []), ("step", ("root",), "self", "node", [])),
                                           "sorts": [], "body": [{"k": "valueof", "e": ("fn", "name", [])}, T(";")]}])]}, DOC2),
    # step from a node-set holding the document node and other nodes, result again holding it: duplicates
    ("document-node-in-merged-step-duplicates",
     {"globals": [], "templates": [ROOT_T([{"k": "foreach", "select": ("step", ("root",), "descendant", ("name", "c"), []), "sorts": [],
                                           "body": [{"k": "valueof", "e": ("fn", "count", [("step", ("step", ("ctx",), "ancestor", "node", []), "descendant-or-self", "node", [])])}]}])]}, DOC2),
    # a top-level variable is evaluated lazily at its first reference, with that reference's context
    # position/size instead of the root's (XSLT 11.4): last() is 2 here, the Recommendation says 1
    ("global-variable-lazy-context",
     {"globals": [{"k": "variable", "name": "g0", "select": ("fn", "string", [("fn", "last", [])]), "body": []}],
      "templates": [{"pats": [("step", ("step", ("ctx",), "child", ("name", "c"), []), "child", "star", [])], "name": None, "mode": None, "prio": None,
                     "body": [{"k": "copyof", "e": ("var", "g0")}]}]}, DOC1),
]


# ------------------------------------------------------------------------------------------

def setup(ctx):
    ctx.build("hooks")
    ctx.lean("XalanModel.Props.C01", THEOREMS, extra_targets=["xm_c01"])
    model = ctx.exe("xm_c01")
    harness = common.build_harness("c01_xslt", ["c01_xslt.cpp"], flavor="hooks")
    work = os.path.join(common.CACHE, "work")
    os.makedirs(work, exist_ok=True)
    return harness, model, work


def classify_key(ss, kind):
    return "xslt.%s [%s]" % (kind, ",".join(G.instr_kinds(ss)))


def run(ctx):
    ctx.rule = ("a case is one generated (stylesheet, document) pair inside the Spec.lean subset, or one VariablesStack / pending / "
                "walker operation log; an xslt case is non-trivial when its result tree has at least one element or 3 text characters "
                "and its stylesheet uses at least 4 distinct instruction kinds; distinct = distinct request text")
    ctx.trusted += [
        "lean/XalanModel/C01/Spec.lean as a transcription of XSLT 1.0 / XPath 1.0 (the reference the real processor is compared with)",
        "harness/c01_xslt.cpp + gen/c01_gen.py + checks/c01.py (generator, canonicaliser, comparison)",
        "modelled, not verified: everything in src/xalanc/XSLT outside execute()/VariablesStack/flushPending — reached only "
        "through the differential runs; Xerces-C parser; ICU",
    ]
    harness, model, work = setup(ctx)
    if model is None:
        return
    r = Rng(ctx.seed)
    ncases = 2500 if not ctx.thorough else 40000
    cases = []
    for ss, doc in CORPUS:
        cases.append((ss, doc, {"corpus"}))
    for tag, ss, doc in TAGGED_CORPUS:
        cases.append((ss, doc, {"corpus", "tag:" + tag}))
    ncorpus = len(cases)
    ncorpus = len(cases)  # (set after the tagged corpus below)
    for k in range(ncases):
        size = r.weighted([(1, 3), (2, 5), (3, 2)])
        g = G.Gen(r, size)
        ss = g.gen_stylesheet()
        doc = g.gen_doc()
        cases.append((ss, doc, set(g.features)))
    lines = [G.request_line("c%d" % i, c[0], c[1]) for i, c in enumerate(cases)]
    il, ml, irc, mrc, ierr, merr = run_two_phase(harness, model, lines)
    ctx.extra["oversized_cases_skipped"] = sum(1 for x in il if x == "big")
    undefined = []
    nshrunk = 0
    import time
    # bounded failure handling: whatever the number of failing cases, the xslt stream spends at most FAIL_BUDGET seconds
    # on classifying / shrinking / re-running them, records at most MAXFAIL failing cases and shrinks the first 3
    FAIL_BUDGET = 150 if not ctx.thorough else 600
    MAXFAIL = 8
    t_fail0 = time.time()
    nfailing = 0
    mism = [i for i in range(len(cases))
            if verdict(il[i] if i < len(il) else None, ml[i] if i < len(ml) else None) == "mismatch"]
    ctx.extra["xslt_mismatching_cases"] = len(mism)
    mism_x = mism[:300]
    why_of = dict(zip(mism_x, explain_many(model, [(lines[i], canon(il[i])) for i in mism_x])))
    for i, (ss, doc, feats) in enumerate(cases):
        ir = il[i] if i < len(il) else None
        mr = ml[i] if i < len(ml) else None
        v = verdict(ir, mr)
        ci = canon(ir)
        kinds = G.instr_kinds(ss)
        nontriv = None
        if ci[0] == "ok":
            nel = sum(1 for e in ci[1] if e[0] == "S")
            ntx = sum(len(dec(e[1])) for e in ci[1] if e[0] == "T")
            if (nel >= 1 or ntx >= 3) and len(kinds) >= 4:
                nontriv = lines[i]
            cls = "result:empty" if not ci[1] else "result:<=5ev" if len(ci[1]) <= 5 else "result:<=30ev" if len(ci[1]) <= 30 else "result:>30ev"
        elif ir == "big":
            cls = "result:oversized(skipped)"
        else:
            cls = "result:error"
        ctx.case(nontrivial_key=nontriv, sample={"stylesheet": G.stylesheet_xml(ss)[:600], "document": "".join(G.doc_xml(t) for t in doc)[:200]}
                 if i in (ncorpus, ncorpus + 1, ncorpus + 2) else None, cls=cls)
        if i >= ncorpus and i < ncorpus + 300:
            for k in kinds:
                ctx.hist["instr:" + k] = ctx.hist.get("instr:" + k, 0) + 1
        if v == "ok" or v == "big":
            continue
        if v == "spec-undefined":
            undefined.append({"case": i, "model": (mr or "")[:200], "stylesheet": G.stylesheet_xml(ss)[:1500]})
            continue
        if v == "crash":
            ctx.fail("xslt.crash", "harness died: " + ierr[-600:], {"request": lines[i]})
            break
        if v == "mismatch":
            why = why_of.get(i)
            if why:
                for name in why:
                    ctx.fail("xslt.quirk{%s}" % name,
                             "result differs from the specification exactly as the modelled engine behaviour '%s' predicts: impl=%s spec=%s"
                             % (name, show(ci[1])[:300], show(canon(mr)[1])[:300]),
                             {"stylesheet": G.stylesheet_xml(ss), "document": "".join(G.doc_xml(t) for t in doc), "request": lines[i]})
                    ctx.hist["quirk:" + name] = ctx.hist.get("quirk:" + name, 0) + 1
                continue
        tags = [f[4:] for f in feats if f.startswith("tag:")]
        if v == "mismatch" and tags:
            ctx.fail("xslt.corpus{%s}" % tags[0], "recorded case still differs from the specification: impl=%s spec=%s"
                     % (show(ci[1])[:300], show(canon(mr)[1])[:300]),
                     {"stylesheet": G.stylesheet_xml(ss), "document": "".join(G.doc_xml(t) for t in doc), "request": lines[i]})
            continue
        if v == "mismatch" and equal_modulo_duplicate_attributes(ci[1], canon(mr)[1]):
            # the only difference: two attributes with the same expanded name but different prefixes were both delivered
            ctx.fail("xslt.duplicate-expanded-attribute", "an element was delivered with two attributes of the same expanded name "
                     "(different prefixes): impl=%s spec=%s" % (show(ci[1])[:300], show(canon(mr)[1])[:300]),
                     {"stylesheet": G.stylesheet_xml(ss), "document": "".join(G.doc_xml(t) for t in doc), "request": lines[i]})
            continue
        nfailing += 1
        if nfailing > MAXFAIL:
            ctx.extra["xslt_failing_cases_not_listed"] = "more than %d failing cases; stopped listing" % MAXFAIL
            break
        if nshrunk < 3 and time.time() - t_fail0 < FAIL_BUDGET:
            nshrunk += 1
            ss2, doc2 = shrink(harness, model, ss, doc, work, v, deadline=t_fail0 + FAIL_BUDGET)
        else:
            ss2, doc2 = ss, doc
        line2 = G.request_line("r", ss2, doc2)
        i2, m2, _, _, _, _ = run_two_phase(harness, model, [line2], timeout=60)
        ci2, cm2 = canon(i2[0] if i2 else None), canon(m2[0] if m2 else None)
        si = show(ci2[1]) if ci2[0] == "ok" else str(ci2)
        sm = show(cm2[1]) if cm2[0] == "ok" else str(cm2)
        if v == "impl-error":
            msg = dec((i2[0].split(" ") + ["", "", ""])[2]) if i2 else ""
            what = "the processor rejects an error-free stylesheet: " + msg
        elif v == "illformed":
            what = "the event stream delivered to the FormatterListener is not a well-formed tree: " + si
        else:
            what = "result tree differs from the XSLT 1.0 specification interpreter: impl=%s spec=%s" % (si, sm)
        ctx.fail(classify_key(ss2, v), what,
                 {"stylesheet": G.stylesheet_xml(ss2), "document": "".join(G.doc_xml(t) for t in doc2), "request": line2})
    ctx.oblige("generator stays inside the subset Spec.lean defines (no spec-undefined replies)", "machinery",
               not undefined, json.dumps(undefined[:2])[:1800])
    if irc != 0 and not ctx.failures:
        ctx.oblige("harness exits cleanly", "correspondence", False, ierr[-1500:])
    if mrc != 0:
        ctx.oblige("Lean driver exits cleanly", "machinery", False, merr[-1500:])
    ctx.oblige("correspondence: XalanTransformer result events = Spec.lean transform on every generated pair "
               "(up to the listed findings)", "correspondence",
               not ctx.failures, ctx.failures[0]["key"] if ctx.failures else "")
    run_mechanisms(ctx, harness, model, work, r)
    ctx.exhaustive = False


def run_mechanisms(ctx, harness, model, work, r):
    """op-log correspondences for the proved mechanism models (filled in by the sections below)"""
    from gen import c01_mech
    c01_mech.run(ctx, lambda lines, tag: run_lines(harness, model, lines, work, tag), r)


def replay(ctx, path):
    d = json.load(open(path))
    harness, model, work = setup(ctx)
    first = d.get("first", {})
    inp = first.get("input", {})
    line = inp.get("request") if isinstance(inp, dict) else None
    if not line:
        print("no concrete request in the replay file; broken obligations:", d.get("broken_obligations"))
        return 1
    il, ml, _, _, ierr, _ = run_lines(harness, model, [line], work, "replay")
    if inp.get("stylesheet"):
        print("stylesheet:", inp["stylesheet"])
        print("document:  ", inp.get("document"))
    print("implementation:", il[0] if il else ierr[-500:])
    print("model/spec:    ", ml[0] if ml else None)
    if line.startswith("xslt"):
        v = verdict(il[0] if il else None, ml[0] if ml else None)
    else:
        v = "ok" if il and ml and il[0] == ml[0] else "mismatch"
    print("verdict:", v)
    return 0 if v == "ok" else 1
