"""C03 — no input crashes, hangs or corrupts memory; every failure is a reported error (DESIGN.md §5 C03).

proof:          lean/XalanModel/Props/C03.lean over Generated/C03_Exceptions.lean + Generated/C03_Buffers.lean
                (exception hierarchy, throw sites, catch chains, buffer sizes/guards re-read from the working tree)
correspondence: harness/c03_fuzz.cpp (real entry points of the working-tree library; ASan+UBSan+LSan build in the
                thorough tier) vs lean/Driver/C03.lean:
                  * exception injection (class thrown inside doTransform / compileStylesheet / parseSource) -> status/message
                  * number -> string lengths (NumberToDOMString), int2alphaCount / decimal digits through xsl:number
                  * guarded stack buffers at the boundary lengths
search:         grammar-aware + byte-level malformed stylesheets / sources / XPath / parameters through
                XalanTransformer, the C API and the XPath C API, each followed by a known-good transformation;
                crash / sanitizer report / hang / escaping exception / zero-length message = concrete violation.
"""
import json
import os
import re
import select
import struct
import subprocess
import sys
import threading
import concurrent.futures
import resource
import time

from vlib import common
from vlib.common import Rng

sys.path.insert(0, os.path.join(common.ROOT, "gen"))
import c03_gen  # noqa: E402

CLAIMED = True
LEVEL = "proof"
TECHNIQUE = ("Lean 4 proofs over tables regenerated from the source (exception hierarchy / throw sites / catch chains; buffer sizes and guards) "
             "and over hand models of the fixed-buffer loops, + injection/number correspondence and sanitizer-backed malformed-input search "
             "against the working-tree library")
LEVEL_TEXT = ("Partial machine-checked proof (48 theorems, Props/C03.lean). Proved for all inputs: (a) error mapping over the regenerated class table and catch "
              "chains: C++ handler dispatch is first-match; each of compileStylesheet/parseSource/doTransform ends in catch(...) with non-zero statuses, so whatever is "
              "thrown the method returns a status (every_exception_caught); for the four library exception families with a non-empty text, and for bad_alloc / Xerces "
              "OutOfMemoryException / DOMException / std::exception always, the message is non-empty; no typed handler is dead; every exported int C function reaches only "
              "chain-protected methods; every XPath-C-API function returns a non-zero code for anything thrown. (b) bounds and termination of the transcribed loops, sizes "
              "re-read from the source: int2alphaCount, ScalarToDecimalString (also functional correctness), the sprintf path of NumberToDOMString/NumberToCharacters for every "
              "finite double (two-sided in the buffer size), three length-guarded stack arrays, findTemplate's conflictsArray/conflictsVector, the transcode grow-and-retry loop "
              "(with and without its no-progress guard), xsl:number's backwards walk, the XPath tokenizer's scans, and definedness of two double->integer conversions (two-sided in "
              "their range guards); (c) the stylesheet handler's decision tables, regenerated: no element token falls through, and with-param / sort / when / otherwise are refused outside "
              "the parents the XSLT content model names; (d) the recursion guard of lazily evaluated top-level variables: for every dependency graph the evaluation ends in a value or a "
              "circular-definition error within N+1 nested evaluations (whole-stack search, as the regenerated flag confirms); (e) every getMessage overload's character limit fits its "
              "stack buffer (regenerated overload table and catalogue); (g) the template depth guard counts every push (regenerated flag): any sequence of pushes and pops, null or not, that would exceed eMaximumTemplateDepth is reported and the stack never exceeds it; (h) the retry loop of the local-code-page transcoding reaches a sufficient buffer for every source needing <= 3 bytes per UTF-16 unit (regenerated factor/step); (f) XalanParsedURI::parse reads inside its buffer (exactly sized if the regenerated flag says its two free-standing tests are bounded, else only with a "
              "terminating 0) and resolve is total: the dot-segment removal never indexes outside the path and terminates, for every base and reference. The memory-safety / UB / leak / hang part of the property for all other code is searched, not proved: malformed and adversarial stylesheets, "
              "sources, XPath strings, parameters and URLs through every entry point (sanitizer build in the thorough tier), each followed by a known-good transformation, plus "
              "re-use of one compiled stylesheet after an aborted run, more decimal-formats than the formatter cache holds, buffer-boundary outputs, failing imports and a "
              "template-recursion depth ramp, recursion without an end through 20 frame-pushing constructs x call-template / apply-templates / apply-imports (cycles of one and two templates) under a memory and time budget, the complete (parent, child, attribute-variant) matrix of XSLT elements, and error-path families (failing modules at import/include depth 1..3, failing document() loads, "
              "extension elements, reference cycles of length 1..5) on a counting memory manager that must show no outstanding block after the transformer is destroyed; every catalogue message through every overload and 33 quoting "
              "error kinds with substituted texts of 0..70000 characters; URI references x bases directly and through include/import/document().")
LEVEL_NOTE = ("Trusted: Lean kernel (leanchecker in the thorough tier); axioms propext/Classical.choice/Quot.sound only; translate/c03_exceptions.py, c03_buffers.py, c03_messages.py (regex readers of the "
              "C++ source and the Xerces headers) and c03_inventory.py (clang-14 typed AST); the hand transcriptions in lean/XalanModel/C03/*.lean (int2alphaCount, "
              "ScalarToDecimalString and the number path are validated by the correspondence run; the conflicts, transcode, getPreviousNode and tokenizer models are tied by shape "
              "checks of the translator only and abstract pattern matching, the transcoder and DOM navigation into parameters with the stated hypotheses: table size <= "
              "m_patternCount, transcoder makes source progress whenever it writes, previous node has a smaller document-order number). Assumed: the local code page needs at most 3 bytes per UTF-16 unit (UTF-8, EUC, Shift-JIS, Big5, ISO-8859; not GB18030) and XMLString::transcode succeeds exactly when the target has room; Xerces-C loadMsg/XMLString::replaceTokens never store more than maxChars characters + NUL; the buffers handed to XalanParsedURI by Xalan itself are c_str()s (terminating 0). glibc sprintf(\"%.Nf\") stores "
              "sign+digits+1+N characters + NUL and sprintf(\"%.17e\") an exponent field of at most three digits. NOT proved, only searched with sanitizers "
              "and bounded by generator coverage: memory safety, undefined behaviour, leaks and termination of all other code (XPath parser and evaluator, stylesheet builder and "
              "executor, serializers, source tree, Xerces/ICU); thread interleavings. The depth-guard theorems assume what the translator checks by shape only: every template instantiation and every xsl:for-each pushes "
              "through pushCurrentTemplate and pops on the way out; that a recursion through other constructs reaches the guard within the memory and time budget is searched (recursion "
              "family), not proved. The mutation generator does not create unbounded template recursion (the endless stylesheets are the recursion family); a hang on a mutated stylesheet that still contains apply-templates/call-template is counted as inconclusive. Unmodelled fixed arrays / "
              "conversions are listed in the evidence (unmodelled_sites).")
DESIGN_REF = "DESIGN.md section 5, C03; design/C03.md"

P = "XalanModel.Props.C03."
THEOREMS = [P + n for n in (
    "dispatch_first_match",
    "dispatch_none_iff",
    "every_library_exception_caught",
    "reported_error_partial",
    "empty_message_counterexample",
    "every_exception_caught",
    "foreign_exceptions_reported",
    "thrown_foreign_classes_pinned",
    "no_dead_handler",
    "capi_reaches_only_protected_methods",
    "xpath_capi_catches_everything",
    "int2alpha_no_memerr_terminates",
    "int2alpha_radix1_counterexample",
    "alpha_tables_radix_ge_2",
    "scalarToDecimal_no_memerr_terminates",
    "scalarToDecimal_refines_spec",
    "sprintf_fits_partial",
    "integer_valued_sprintf_fits_partial",
    "number_to_string_buffer_dichotomy",
    "number_to_string_fits_all_doubles",
    "small_number_path_fits",
    "guarded_buffers_safe",
    "conflicts_array_safe",
    "conflicts_array_alone_counterexample",
    "transcode_loop_terminates_in_bounds",
    "transcode_without_guard_counterexample",
    "getPreviousNode_terminates",
    "tokenize_terminates",
    "float_casts_defined_iff_guarded",
    "structure_no_fall_through",
    "context_dependent_children_rejected_elsewhere",
    "guard_stack_every_cycle_detected",
    "guard_stack_reports_first_repetition",
    "guard_top_only_counterexample",
    "message_buffers_bounded",
    "uri_dot_removal_in_bounds_and_terminates",
    "uri_parse_in_bounds",
    "uri_parse_terminated_in_bounds",
    "uri_parse_unterminated_counterexample",
    "uri_resolve_total",
    "uri_unguarded_decrement_counterexample",
    "template_depth_guard_reports_every_unbounded_recursion",
    "template_depth_guard_at_most_limit_pushes",
    "template_depth_guard_bounded_no_false_alarm",
    "template_depth_guard_null_skipping_counterexample",
    "template_depth_guard_equality_counterexample",
    "local_transcode_growth_covers_three_bytes_per_unit",
    "local_transcode_growth_factor_two_counterexample",
)]

INJECT_CLASSES = ["XSLException", "XalanXPathException", "XPathParserException", "XSLTProcessorException", "ElemMessageTerminateException",
                  "DOMSupportException", "XObjectInvalidConversionException", "UnsupportedEncodingException", "UnrepresentableCharacterException",
                  "XalanDOMException", "XercesDOMException", "TranscodingError", "xerces_SAXException", "xerces_SAXNotSupportedException",
                  "xerces_SAXParseException", "xerces_RuntimeException", "xerces_XMLException", "xerces_IOException",
                  "xerces_OutOfMemoryException", "xerces_DOMException", "std_bad_alloc", "std_out_of_range"]
XML_FAMILY = {"xerces_RuntimeException", "xerces_XMLException", "xerces_IOException"}
# the harness cannot build these with an empty text (their constructors compose / load the message themselves)
ALWAYS_TEXT = XML_FAMILY | {"XObjectInvalidConversionException", "UnsupportedEncodingException", "UnrepresentableCharacterException"}
ENTRIES = ["doTransform", "compileStylesheet", "parseSource"]


def hx(b):
    if isinstance(b, str):
        b = b.encode("utf-8")
    return b.hex() if b else "-"


# ------------------------------------------------------------------------------------------------
# running request lines through the harness with crash / hang attribution

class Runner:
    def __init__(self, exe, env, case_timeout, as_limit_mb=None):
        self.exe = exe
        self.env = dict(os.environ)
        self.env.update(env)
        self.case_timeout = case_timeout
        self.as_limit_mb = as_limit_mb      # RLIMIT_AS of the child: the memory budget of a request (not usable under ASan: shadow memory)
        self.work = os.path.join(common.CACHE, "work")
        os.makedirs(self.work, exist_ok=True)
        self.seq = 0
        self.lock = threading.Lock()

    def run(self, mode, lines, tag="b"):
        """-> list of (reply or None, problem or None) per line; problem = dict(kind=crash|hang|leak, detail)"""
        res = [(None, None)] * len(lines)
        res = list(res)
        start = 0
        restarts = 0
        while start < len(lines) and restarts < 60:
            with self.lock:
                self.seq += 1
                errp = os.path.join(self.work, "c03_%s_%d_%d.err" % (tag, os.getpid(), self.seq))
            errf = open(errp, "wb")
            lim = None
            if self.as_limit_mb:
                nbytes = self.as_limit_mb << 20

                def lim():
                    resource.setrlimit(resource.RLIMIT_AS, (nbytes, nbytes))
            p = subprocess.Popen([self.exe, mode], stdin=subprocess.PIPE, stdout=subprocess.PIPE, stderr=errf, env=self.env, preexec_fn=lim)
            chunk = lines[start:]
            data = ("\n".join(chunk) + "\n").encode("ascii")

            def feed():
                try:
                    p.stdin.write(data)
                    p.stdin.close()
                except (BrokenPipeError, OSError):
                    pass
            th = threading.Thread(target=feed)
            th.daemon = True
            th.start()
            got = 0
            buf = b""
            problem = None
            fd = p.stdout.fileno()
            deadline = time.time() + self.case_timeout
            done_seen = False
            while True:
                r, _, _ = select.select([fd], [], [], max(0.0, deadline - time.time()))
                if not r:
                    problem = "hang"
                    break
                d = os.read(fd, 1 << 16)
                if not d:
                    break
                buf += d
                while b"\n" in buf:
                    ln, buf = buf.split(b"\n", 1)
                    s = ln.decode("ascii", "replace")
                    if s == "done":
                        done_seen = True
                        continue
                    if got < len(chunk):
                        res[start + got] = (s, None)
                        got += 1
                        deadline = time.time() + self.case_timeout
            if problem == "hang":
                p.kill()
            p.wait()
            errf.close()
            err = open(errp, "rb").read().decode("utf-8", "replace")
            try:
                os.unlink(errp)
            except OSError:
                pass
            if problem == "hang":
                res[start + got] = (None, {"kind": "hang", "detail": "no reply within %ds" % self.case_timeout})
                start = start + got + 1
                restarts += 1
                continue
            if got < len(chunk):
                # died while processing line start+got
                rep = sanitizer_summary(err)
                res[start + got] = (None, {"kind": "crash", "detail": "exit %s; %s" % (p.returncode, rep)})
                start = start + got + 1
                restarts += 1
                continue
            # all answered; leak / late sanitizer report?
            if p.returncode != 0 or not done_seen or "ERROR: LeakSanitizer" in err or "ERROR: AddressSanitizer" in err or "runtime error:" in err:
                rep = sanitizer_summary(err)
                kind = "leak" if "LeakSanitizer" in err else "late-report"
                res.append((None, {"kind": kind, "detail": "exit %s; %s" % (p.returncode, rep), "range": (start, len(lines))}))
            elif "runtime error:" in err:
                pass
            start = len(lines)
        return res


def sanitizer_summary(err):
    # err may contain single lines of hundreds of kB (messages quoting a generated expression): no pattern here may start
    # with an unanchored `[^\n]*` (quadratic); work on the lines that matter only
    if len(err) > 400000:
        err = err[:100000] + "\n...\n" + err[-300000:]
    head = ""
    for ln in err.split("\n"):
        if len(ln) > 2000:
            continue
        if not head and ("ERROR: AddressSanitizer" in ln or "ERROR: LeakSanitizer" in ln):
            head = ln[ln.find("ERROR:"):][:300]
        if "runtime error:" in ln:
            head += " | " + ln[-300:]
            break
    frames = []
    for ln in err.split("\n"):
        if len(ln) < 2000:
            m = re.match(r"\s*#\d+ 0x[0-9a-f]+ in (.+)", ln)
            if m:
                frames.append(m.group(1))
    fr = [f for f in frames if "xalanc" in f or "Xalan" in f][:4] or frames[:4]
    if not head:
        tail = [l[:200] for l in err.strip().split("\n") if l.strip()][-3:]
        head = " / ".join(tail)[-400:]
    return (head + " @ " + " <- ".join(f[:120] for f in fr))[:900]


def parse_reply(s):
    d = {}
    for tok in s.split():
        if "=" in tok:
            k, v = tok.split("=", 1)
            d[k] = v
    return d


def run_parallel(runner, mode, lines, nproc, tag):
    """split lines into nproc contiguous batches; returns per-line results + extra problems"""
    if not lines:
        return [], []
    n = len(lines)
    size = max(1, (n + nproc - 1) // nproc)
    parts = [(i, lines[i:i + size]) for i in range(0, n, size)]
    out = [None] * n
    extras = []

    def work(off, chunk, k):
        r = runner.run(mode, chunk, "%s%d" % (tag, k))
        for j in range(len(chunk)):
            out[off + j] = r[j]
        for e in r[len(chunk):]:
            pr = dict(e[1])
            a, b = pr.get("range", (0, len(chunk)))
            pr["range"] = (off + a, off + b)
            extras.append(pr)
    ths = []
    for k, (off, chunk) in enumerate(parts):
        t = threading.Thread(target=work, args=(off, chunk, k))
        t.start()
        ths.append(t)
    for t in ths:
        t.join()
    return out, extras


# ------------------------------------------------------------------------------------------------
# classification of a failing case -> key matched against known_findings.json

TEXT_ATTRS_OK = ("disable-output-escaping", "xml:space")


def classify(kind, sty, src, params, detail=""):
    """narrow classes of genuine defects that are already recorded (known_findings.json) or have a proposed fix.
    With a sanitizer trace the class comes from the trace; without one (quick tier: plain SIGSEGV) only from an exact
    syntactic witness in the input — anything else stays `unclassified` and is reported as a new violation."""
    s = sty.decode("utf-8", "replace") if isinstance(sty, bytes) else sty
    d = detail or ""
    has_trace = "Sanitizer" in d or "runtime error" in d
    if has_trace:
        if "ElemNumber::getPreviousNode" in d or ("ElemNumber" in d and "getMatchScore" in d):
            return "xsl-number-any-from-at-root"
        if "NumberToDOMString" in d or "NumberToCharacters" in d:
            return "number-ge-1e89-sprintf-overflow"
        if "writeCDATAChars" in d:
            return "cdata-lookahead-overread"
        if "XPath::predicates" in d:
            return "predicate-index-cast"
        if "ReusableArenaBlock" in d and "~ReusableArenaBlock" in d:
            return "arena-uncommitted-block-destroyed"
        if "Stylesheet::addTemplate" in d and "length(char16_t const*)" in d:
            return "pattern-double-slash-only"
        if "XalanUTF16Transcoder::transcode" in d:
            return "utf16-transcoder-overread"
        return "unclassified"
    if kind != "crash":
        return "unclassified"
    if re.search(r"<xsl:number[^>]*level='any'[^>]*count='/'[^>]*from='[^']+'", s) or re.search(r"<xsl:number[^>]*from='[^']+'[^>]*level='any'[^>]*count='/'", s):
        return "xsl-number-any-from-at-root"
    if re.search(r"[0-9]{90,}", s) and not re.search(r"<xsl:text\s+[^>]*[0-9]{90,}", s):
        return "number-ge-1e89-sprintf-overflow"
    m = re.search(r"<xsl:text((?:\s+[\w:.-]+\s*=\s*(?:'[^']*'|\"[^\"]*\"))+)\s*/?>", s)
    if m:
        names = re.findall(r"([\w:.-]+)\s*=", m.group(1))
        if any(n not in TEXT_ATTRS_OK for n in names):
            return "arena-uncommitted-block-destroyed"
    if re.search(r"(?:match|count|from)='(?:[^'|]*\|)*\s*//\s*(?:\|[^']*)?'", s):
        return "pattern-double-slash-only"
    return "unclassified"


# ------------------------------------------------------------------------------------------------

def model_lines(model, lines, work, tag):
    req = os.path.join(work, "c03_model_%s_%d.req" % (tag, os.getpid()))
    with open(req, "w") as f:
        f.write("\n".join(lines) + "\n")
    p = subprocess.run([model], stdin=open(req, "rb"), stdout=subprocess.PIPE, stderr=subprocess.PIPE, timeout=600)
    os.unlink(req)
    out = p.stdout.decode("utf-8", "replace").split("\n")
    if out and out[-1] == "":
        out.pop()
    return out


def dbl_bits(v):
    return struct.unpack("<Q", struct.pack("<d", v))[0]


def bits_dbl(b):
    return struct.unpack("<d", struct.pack("<Q", b))[0]


CORPUS_XF = [
    # (name, stylesheet, source) — minimised past failures / DESIGN §6 candidates, run first
    ("item9-number-any-count-root-from", c03_gen.sty("<xsl:template match='/'><o><xsl:number level='any' count='/' from='h'/></o></xsl:template>"), "<r><h/><i>1</i></r>"),
    ("item10-1e89-literal", c03_gen.sty("<xsl:template match='/'><o><xsl:value-of select='1" + "0" * 89 + " * 10'/></o></xsl:template>"), "<r/>"),
    ("item10-number-value-1e100", c03_gen.sty("<xsl:template match='/'><o><xsl:number value='-1" + "0" * 100 + "'/></o></xsl:template>"), "<r/>"),
    ("item17-cdata-tail", c03_gen.sty("<xsl:template match='/'><e><xsl:value-of select='//x'/></e></xsl:template>",
                                      top="<xsl:output cdata-section-elements='e' encoding='US-ASCII'/>"), "<r><x>ab]</x><x>]</x></r>"),
    ("item21-huge-predicate", c03_gen.sty("<xsl:template match='/'><o><xsl:value-of select='count(//i[99999999999999999999999])'/><xsl:value-of select='count(//i[-5e30])'/></o></xsl:template>"), "<r><i/><i/></r>"),
    ("new-arena-xsl-text-bad-attribute", c03_gen.sty("<xsl:template match='/'><o><xsl:text elements='*'>x</xsl:text></o></xsl:template>"), "<r/>"),
    ("new-pattern-double-slash", c03_gen.sty("<xsl:template match='//'><o/></xsl:template>"), "<r/>"),
    ("deep-parens", c03_gen.sty("<xsl:template match='/'><o><xsl:value-of select='" + "(" * 3000 + "1" + ")" * 3000 + "'/></o></xsl:template>"), "<r/>"),
    ("deep-source", c03_gen.sty("<xsl:template match='/'><o><xsl:value-of select='count(//a)'/></o></xsl:template>"), "<a>" * 20000 + "</a>" * 20000),
    ("number-multiple-depth-100", c03_gen.sty("<xsl:template match='/'><o><xsl:for-each select='//s[not(s)]'><xsl:number level='multiple' count='s' format='1.'/></xsl:for-each></o></xsl:template>"),
     "<r>" + "<s>" * 100 + "</s>" * 100 + "</r>"),
]


def alpha_stylesheet(vals, fmt):
    lv = " letter-value='alphabetic'" if fmt == "α" else ""
    body = "".join("<xsl:number value='%d' format='%s'%s/>|" % (v, fmt, lv) for v in vals)
    return c03_gen.sty("<xsl:template match='/'><o>" + body + "</o></xsl:template>", top="<xsl:output method='text' encoding='UTF-8'/>")


def run(ctx):
    ctx.rule = ("a case = one request to a real entry point (exception injection, number conversion, or a generated malformed/adversarial "
                "stylesheet+source(+params) / XPath+source) followed by a known-good transformation on the same object; non-trivial = the request got "
                "past XML well-formedness of the stylesheet (status 0, -1, or an XSLT/XPath-level message), or exercised a modelled mechanism "
                "(injection, number path, guarded buffer); distinct = distinct request text")
    ctx.trusted += [
        "translate/c03_exceptions.py, translate/c03_buffers.py, translate/c03_messages.py (regex readers of the working tree, the message catalogue and the Xerces-C headers)",
        "harness/c03_fuzz.cpp + checks/c03.py + gen/c03_gen.py (generators, crash/hang attribution, specification predicate)",
        "glibc sprintf(\"%.Nf\") stores sign+integer digits+1+N characters + NUL (model parameter; validated on the generated doubles)",
        "modelled, not verified: everything outside the generated tables and the three transcribed loops — reached only by the sanitizer-backed search",
    ]
    ctx.assumptions += ["the mutation generator does not turn bounded template recursion into unbounded recursion (the unbounded stylesheets of the recursion family are tested separately; a hang on a mutated stylesheet that still contains apply-templates/call-template is counted as inconclusive)"]
    flavor = "asan" if ctx.thorough else "hooks"
    ctx.build("hooks")
    if ctx.thorough:
        ctx.build("asan")
    ok1, _ = ctx.translate("c03_exceptions")
    ok2, _ = ctx.translate("c03_buffers")
    ctx.translate("c03_inventory")
    ctx.translate("c03_structure")
    ctx.translate("c03_messages")
    ctx.lean("XalanModel.Props.C03", THEOREMS, extra_targets=["xm_c03"])
    model = ctx.exe("xm_c03")
    harness = common.build_harness("c03_fuzz", ["c03_fuzz.cpp"], flavor=flavor, sanitize=(flavor == "asan"))
    work = os.path.join(common.CACHE, "work")
    os.makedirs(work, exist_ok=True)
    if model is None:
        return
    env = {"ASAN_OPTIONS": "detect_leaks=1:abort_on_error=0:allocator_may_return_null=1:detect_stack_use_after_return=0:malloc_context_size=12",
           "UBSAN_OPTIONS": "print_stacktrace=1:halt_on_error=1", "LSAN_OPTIONS": "exitcode=23"}
    runner = Runner(harness, env, case_timeout=(240 if ctx.thorough else 120))
    nproc = min(12, common.NPROC)
    r = Rng(ctx.seed)

    # inventory of fixed-size local arrays and floating-point -> integer conversions in the anchored files (clang AST):
    # every site is either covered by a theorem of THEOREMS or listed as unmodelled in the evidence (information, not an alarm)
    try:
        inv = json.load(open(os.path.join(common.GEN, "C03_Inventory.json")))
        short = [t.split(".")[-1] for t in THEOREMS]
        ctx.extra["fixed_arrays"] = ["%s:%s %s %s[%s] -> %s" % (x["file"], x["line"], x["type"], x["name"], x["size"], x["theorem"] or "UNMODELLED") for x in inv["arrays"]]
        ctx.extra["float_to_int_conversions"] = ["%s:%s (%s)%s `%s` -> %s" % (x["file"], x["line"], x["to"], "" if x["explicit"] else " implicit", x["text"][:90],
                                                                           x["theorem"] or "UNMODELLED") for x in inv["casts"]]
        ctx.extra["unmodelled_sites"] = [l for l in ctx.extra["fixed_arrays"] + ctx.extra["float_to_int_conversions"] if l.endswith("UNMODELLED")]
        named = set(re.findall(r"[A-Za-z_][A-Za-z0-9_]*", " ".join((x["theorem"] or "") for x in inv["arrays"] + inv["casts"])))
        missing = [n for n in named if ("_" in n and n.islower() or n.startswith(("int2alpha", "scalarToDecimal"))) and n not in short and n in
                   ("scalarToDecimal_no_memerr_terminates", "number_to_string_fits_all_doubles", "int2alpha_no_memerr_terminates", "guarded_buffers_safe", "conflicts_array_safe", "float_casts_defined_iff_guarded")]
        ctx.oblige("inventory: every site marked as modelled names a theorem of the obligation list", "translator", not missing, str(missing))
    except Exception as e:
        ctx.oblige("inventory of fixed arrays / float->int conversions is readable", "translator", False, repr(e))

    # ---------------------------------------------------------------- 1. exception injection
    inj = []
    for e in ENTRIES:
        for c in INJECT_CLASSES:
            for me in (0, 1):
                inj.append((e, c, me))
    ilines = ["inject %s %s %d" % t for t in inj]
    ires = runner.run("xslt", ilines, "inj")
    # through the Xerces scanner (entity resolver) an XMLException is converted by Xerces itself into a fatal SAXParseException
    mreq = []
    for (e, c, me) in inj:
        mc = "xerces_SAXParseException" if (c in XML_FAMILY and e != "doTransform") else c
        mme = 0 if (c in ALWAYS_TEXT) else me
        # the default problem listener writes nothing for exceptions raised below the processor: listenerText = 0
        mreq.append("inject %s %s %d 0" % (e, mc, mme))
    mres = model_lines(model, mreq, work, "inj")
    agree = True
    dis = []
    for k, (e, c, me) in enumerate(inj):
        rep, prob = ires[k]
        ctx.case(nontrivial_key="inject %s %s %d" % (e, c, me), cls="inject", sample=ilines[k] if k in (0, 40) else None)
        if prob:
            ctx.fail("inject.%s: %s %s" % (prob["kind"], e, c), "injected %s inside %s: %s" % (c, e, prob["detail"]), ilines[k])
            continue
        if rep == "unsupported":
            continue
        d = parse_reply(rep)
        if d.get("esc") != "none":
            impl = "escapes"
        else:
            impl = "rc %s msg %d" % (d.get("rc"), 1 if int(d.get("msg", "0")) > 0 else 0)
        if impl != mres[k]:
            agree = False
            dis.append({"request": ilines[k], "impl": rep, "model": mres[k]})
        # property predicate, independent of the model
        if d.get("fu") != "1":
            ctx.fail("inject.unusable-after: %s %s" % (e, c), "transformer not usable after %s inside %s: %s" % (c, e, rep), ilines[k])
        if d.get("esc") != "none":
            ctx.fail("inject.escapes[%s]: %s" % (c, e), "exception of class %s thrown inside %s leaves the entry point (no status, no message)" % (c, e), ilines[k])
        elif int(d.get("rc", "0")) == 0:
            ctx.fail("inject.status0[%s]: %s" % (c, e), "exception swallowed with status 0: " + rep, ilines[k])
        elif int(d.get("msg", "0")) == 0 and (me == 0 or c in ALWAYS_TEXT):
            ctx.fail("inject.empty-message[%s]: %s" % (c, e), "non-zero status with an empty message although the exception carried a text: " + rep, ilines[k])
    ctx.oblige("correspondence: injected exception class -> status/message (real catch chains = Generated chains under the dispatch model)",
               "correspondence", agree, json.dumps(dis[:4]))
    ctx.extra["injection_disagreements"] = dis[:10]

    # ---------------------------------------------------------------- 2. number -> string
    vals = [2.0 ** 63, -2.0 ** 63, 2.0 ** 63 * 1.5, 2.0 ** 64, 1e19, 1e20, 1e50, -1e50, 1e87, 9.99e87, 1e88, -1e88, 9.99e88, 1e89, 0.5, -0.5, 1.5, 123456.789,
            1e-5, 1e-10, 1e-19, 1.234567890123456789e-21, 1e-30, -1e-30, 4.9e-324, -4.9e-324, 2.2250738585072014e-308, -2.2250738585072014e-308, 1e-300, 0.1, 1.0 / 3, 2.0 ** 52 + 0.5, 2.0 ** 53, 2.0 ** 53 + 2, 9007199254740993.0,
            1e15 + 0.3, 123456789012345.67, 1.7976931348623157e308 / 1e230]
    for _ in range(300 if not ctx.thorough else 3000):
        k = r.below(4)
        if k == 0:
            b = r.next() & 0x7FFFFFFFFFFFFFFF | (r.below(2) << 63)
            v = bits_dbl(b)
            if v != v or v in (float("inf"), float("-inf")):
                continue
        elif k == 1:
            v = float(r.range(-10 ** 6, 10 ** 6)) / r.choice([1, 2, 3, 7, 10, 1000, 1 << 20])
        elif k == 2:
            v = (10.0 ** r.range(0, 304)) * (r.range(1, 9999) / 1000.0) * r.choice([1, -1])
        else:
            v = float(r.range(1, 1 << 53)) * 2.0 ** r.range(-60, 970)
        vals.append(v)
    vals += [1e90, -1e89 * 1.0000001, 1e100, 1e200, -1e300, 1.7976931348623157e308, -1.7976931348623157e308]
    bufsize = 101
    try:
        bufsize = int(re.search(r"def printfBufferSize : Nat := (\d+)", open(os.path.join(common.GEN, "C03_Buffers.lean")).read()).group(1))
    except Exception:
        pass

    def ovkey(ln):
        return "num2str.overflow[>=1e89]" if ln >= 90 else "num2str.overflow[digits=%d,buffer=%d]" % (ln, bufsize)
    nlines = ["num %016x" % dbl_bits(v) for v in vals]
    nres = runner.run("xslt", nlines, "num")
    mres = model_lines(model, ["dbl %016x" % dbl_bits(v) for v in vals], work, "num")
    nagree = True
    ndis = []
    for k, v in enumerate(vals):
        rep, prob = nres[k]
        ctx.case(nontrivial_key=nlines[k], cls="num", sample=nlines[k] if k == 3 else None)
        if prob:
            ctx.fail("num2str.%s: %r" % (prob["kind"], v), "NumberToDOMString(%r): %s" % (v, prob["detail"]), nlines[k])
            continue
        d = parse_reply(rep)
        ln = int(d.get("len", "-1"))
        m = mres[k].split()
        isint = v == int(v) if abs(v) < 1e300 else True
        if m[0] == "int":
            good = ln == int(m[1])
        elif m[0] == "printf":
            good = (ln == int(m[1]) - 12) if isint else (ln + 1 <= int(m[1]))
        elif m[0] == "frac":
            good = ln + 1 <= int(m[1])
        elif m[0] == "special":
            good = True
        elif m[0] == "mem":
            # the model says the sprintf does not fit the (regenerated) buffer; the implementation's result shows how much it wrote
            good = isint and ln + 12 == int(m[1])
        else:
            good = False
        if not good:
            nagree = False
            ndis.append({"value": repr(v), "impl": rep, "model": mres[k]})
        # predicate on the implementation: the sprintf path (|v| >= 2^63) stored len + 12 bytes into the 101-byte buffer
        if isint and abs(v) >= 2.0 ** 63 and ln + 12 > bufsize:
            ctx.fail("%s: %r" % (ovkey(ln), v), "NumberToDOMString wrote %d bytes into char[%d]" % (ln + 12, bufsize), nlines[k])
    ctx.oblige("correspondence: NumberToDOMString(double) path and length = Lean model (dblOfBits/numberToString)", "correspondence", nagree, json.dumps(ndis[:4]))
    # ---------------------------------------------------------------- 3. int2alphaCount / decimal through xsl:number
    avals = [1, 2, 25, 26, 27, 51, 52, 53, 676, 677, 701, 702, 703, 18277, 18278, 18279, 475254, 2 ** 31, 2 ** 32, 2 ** 53, 2 ** 63, 18446744073709549568]
    for _ in range(60 if not ctx.thorough else 600):
        # below 2^52 only: between 2^52 and 2^53 DoubleSupport::round (x + 0.5) is off by one for odd x — that is C18's
        # finding (DESIGN §6 item 12), not part of this model
        avals.append(r.range(1, 1 << r.range(1, 52)))
    for e in range(54, 64):
        avals.append(1 << e)
    alines = []
    ameta = []
    CH = 100
    for fmt, ti in (("A", 0), ("α", 1), ("1", None)):
        for off in range(0, len(avals), CH):
            chunk = avals[off:off + CH]
            alines.append("xf %s %s" % (hx(alpha_stylesheet(chunk, fmt)), hx("<r/>")))
            ameta.append((fmt, ti, chunk))
    ares = runner.run("xslt", alines, "alpha")
    aagree = True
    adis = []
    for (fmt, ti, chunk), (rep, prob), line in zip(ameta, ares, alines):
        if prob:
            ctx.fail("alpha.%s: format=%s" % (prob["kind"], fmt), "xsl:number value=… format=%s: %s" % (fmt, prob["detail"]), line[:300])
            continue
        d = parse_reply(rep)
        if d.get("rc") != "0" or d.get("fu") != "1":
            aagree = False
            adis.append({"format": fmt, "impl": rep[:200]})
            continue
        out = bytes.fromhex(d.get("out", "")).decode("utf-8", "replace") if d.get("out", "-") != "-" else ""
        got = out.split("|")[:-1]
        if ti is not None:
            exp = model_lines(model, ["alpha %d %d" % (ti, v) for v in chunk], work, "alpha")
        else:
            exp = model_lines(model, ["dec 0 %d" % v for v in chunk], work, "dec")
        for v, g, e in zip(chunk, got, exp):
            ctx.case(nontrivial_key="alpha %s %d" % (fmt, v), cls="alpha/dec")
            try:
                es = bytes.fromhex(e).decode("utf-16-be") if e not in ("-", "mem", "fuel") else e
            except ValueError:
                es = e
            if g != es:
                aagree = False
                adis.append({"format": fmt, "value": v, "impl": g, "model": es})
        if len(got) != len(chunk):
            aagree = False
            adis.append({"format": fmt, "impl-count": len(got), "expected": len(chunk), "out": out[:200]})
    ctx.oblige("correspondence: xsl:number value=N format=A/α/1 output = Lean int2alphaCount / scalarToDecimal", "correspondence", aagree, json.dumps(adis[:4], ensure_ascii=False))

    # ---------------------------------------------------------------- 4. guarded stack buffers at their boundaries (real code, sanitizers in thorough)
    glines = []
    gexp = []
    for n in (198, 199, 200, 201, 9, 10):     # convertHelper: string of n chars with a decimal point
        s = "1." + "0" * (n - 2)
        glines.append("xf %s %s" % (hx(c03_gen.sty("<xsl:template match='/'><o><xsl:value-of select=\"number('%s') + 1\"/></o></xsl:template>" % s,
                                                   top="<xsl:output method='text'/>")), hx("<r/>")))
        gexp.append("2")
    for depth in (98, 99, 100, 101):          # numberList
        glines.append("xf %s %s" % (hx(c03_gen.sty("<xsl:template match='/'><o><xsl:for-each select='//s[not(s)]'><xsl:number level='multiple' count='s' format='1'/></xsl:for-each></o></xsl:template>",
                                                   top="<xsl:output method='text'/>")), hx("<r>" + "<s>" * depth + "</s>" * depth + "</r>")))
        gexp.append("1" + ".1" * (depth - 1))
    for n in (99, 100, 101, 150):             # conflictsArray[100] / conflictsVector(m_patternCount)
        glines.append("xf %s %s" % (hx(c03_gen.sty("".join("<xsl:template match='r'>t%d</xsl:template>" % k for k in range(n)), top="<xsl:output method='text'/>")), hx("<r/>")))
        gexp.append("t%d" % (n - 1))
    # UTF-8 writer: 2-, 3- and 4-byte characters starting at the last bytes of the 512-byte buffer and just after it, twice in a row
    # (byte offsets 496..515 and 1008..1027), text and xml methods (xml shifts everything by the 3 bytes of "<o>")
    for method in ("text", "xml"):
        body = "<xsl:value-of select='/r'/>" if method == "text" else "<o><xsl:value-of select='/r'/></o>"
        ust = c03_gen.sty("<xsl:template match='/'>%s</xsl:template>" % body, top="<xsl:output method='%s' encoding='UTF-8' omit-xml-declaration='yes'/>" % method)
        for ch in ("\U00010000", "\u20ac", "\u00e9"):
            nb = len(ch.encode("utf-8"))
            for off in range(496, 516):
                t = "a" * off + ch + "z" * (512 - nb - 5) + "a" * 5 + ch + "end"
                glines.append("xf %s %s" % (hx(ust), hx("<r>" + t + "</r>")))
                gexp.append(t if method == "text" else "<o>" + t + "</o>")
    # xsl:fallback in an unknown extension element: a directly executed named template, and variables (frames must be popped)
    fb_ns = " xmlns:ext='urn:ext' extension-element-prefixes='ext'"
    glines.append("xf %s %s" % (hx(c03_gen.sty("<xsl:template match='/'><o><ext:unknown><xsl:fallback><xsl:call-template name='t'/></xsl:fallback></ext:unknown>"
                                               "<xsl:call-template name='t'/></o></xsl:template><xsl:template name='t'>T</xsl:template><xsl:template match='i'>WRONG</xsl:template>",
                                               extra_attrs=fb_ns)), hx("<r><i>1</i><i>2</i></r>")))
    gexp.append('<?xml version="1.0" encoding="UTF-8"?><o>TT</o>')
    glines.append("xf %s %s" % (hx(c03_gen.sty("<xsl:template match='/'><o><xsl:for-each select='r/i'><ext:unknown><xsl:fallback><xsl:variable name='v' select='.'/>"
                                               "<xsl:value-of select='$v'/></xsl:fallback></ext:unknown></xsl:for-each><xsl:call-template name='t'/></o></xsl:template>"
                                               "<xsl:template name='t'><xsl:param name='q' select='7'/><xsl:value-of select='$q'/></xsl:template>", extra_attrs=fb_ns)), hx("<r><i>1</i><i>2</i></r>")))
    gexp.append('<?xml version="1.0" encoding="UTF-8"?><o>127</o>')
    # an imported / included module that fails to compile (files next to the check's work directory; leaks show in the thorough tier)
    impdir = os.path.join(work, "c03_import")
    os.makedirs(impdir, exist_ok=True)
    mods = {"badxpath.xsl": c03_gen.sty("<xsl:template match='a'><xsl:value-of select='1 +'/></xsl:template>"),
            "badelem.xsl": c03_gen.sty("<xsl:template match='a'><xsl:bogus/></xsl:template><xsl:nonsense/>"),
            "malformed.xsl": "<xsl:stylesheet version='1.0' xmlns:xsl='%s'><xsl:template match='a'><b></xsl:template>" % c03_gen.XSLNS,
            "badattr.xsl": c03_gen.sty("<xsl:template match='a'><xsl:text elements='*'>x</xsl:text></xsl:template>"),
            "nested.xsl": c03_gen.sty("<xsl:template match='b'>B</xsl:template>", top="<xsl:import href='badxpath.xsl'/>"),
            "good.xsl": c03_gen.sty("<xsl:template match='i'>I</xsl:template>")}
    for nm, txt in mods.items():
        with open(os.path.join(impdir, nm), "w", encoding="utf-8") as f:
            f.write(txt)
    n_before_imports = len(glines)
    for nm in mods:
        for how in ("import", "include"):
            url = "file://" + os.path.join(impdir, nm)
            st = c03_gen.sty("<xsl:template match='/'><o><xsl:apply-templates select='r/i'/></o></xsl:template>", top="<xsl:%s href='%s'/>" % (how, url))
            for cmd in ("xf", "xc"):
                glines.append("%s %s %s" % (cmd, hx(st), hx("<r><i/></r>")))
                gexp.append(None if nm != "good.xsl" else '<?xml version="1.0" encoding="UTF-8"?><o>I</o>')
    gres = runner.run("xslt", glines, "guard")
    gagree = True
    for k, (rep, prob) in enumerate(gres[:len(glines)]):
        ctx.case(nontrivial_key="guard %d" % k, cls="guard")
        if prob:
            ctx.fail("guard.%s: case %d" % (prob["kind"], k), "guarded stack buffer boundary: " + prob["detail"], glines[k][:200])
            continue
        d = parse_reply(rep)
        out = bytes.fromhex(d["out"]).decode("utf-8", "replace") if d.get("out", "-") != "-" else ""
        if gexp[k] is None:
            # a module that does not compile: a reported error, nothing else
            if d.get("esc") != "none" or d.get("rc") == "0" or int(d.get("msg", "0")) == 0 or d.get("fu") != "1":
                ctx.fail("import.bad-report: case %d" % (k - n_before_imports), "a stylesheet whose imported/included module does not compile must end in a non-zero status with a message: " + rep[:300],
                         glines[k][:300])
            continue
        if d.get("rc") != "0" or out != gexp[k]:
            if any(ord(c) > 127 for c in gexp[k]) and d.get("rc") == "0":
                ctx.fail("utf8-writer.wrong-bytes: case %d" % k, "UTF-8 output differs from the text that was written (multi-byte character at a buffer boundary?): first difference at character %d"
                         % next((i for i, (a, b) in enumerate(zip(out, gexp[k])) if a != b), min(len(out), len(gexp[k]))), glines[k][:300])
                continue
            gagree = False
            ctx.extra.setdefault("guard_disagreements", []).append({"case": k, "impl": rep[:200], "expected": gexp[k][:50]})
    for rep, prob in gres[len(glines):]:
        if prob and not (prob["kind"] == "leak" and "xalanc" not in prob["detail"] and "Xalan" not in prob["detail"]):
            a, b = prob.get("range", (0, len(glines)))
            culprit = bisect_report(runner, "xslt", glines[a:b])
            cl = classify(prob["kind"], b"", b"", [], prob["detail"])
            ctx.fail("boundary.%s[%s]: case %s" % (prob["kind"], cl, "?" if culprit is None else a + culprit), "%s in the boundary / import stream: %s" % (prob["kind"], prob["detail"]),
                     glines[a + culprit][:400] if culprit is not None else "guard batch")
    xlines = []
    for n in (98, 99, 100, 101):              # XPathCAPI transcodeString
        e = ("1+" * n)[:n - 1] + "1"
        e = e[:n] if e[:n][-1] != "+" else e[:n - 1] + "1"
        xlines.append("xp %s %s %s" % (hx(e), hx("<r/>"), hx("UTF-8")))
    xres = runner.run("xpath", xlines, "guardx")
    for k, (rep, prob) in enumerate(xres[:len(xlines)]):
        ctx.case(nontrivial_key="guardx %d" % k, cls="guard")
        if prob:
            ctx.fail("guard.%s: xpath-capi length %d" % (prob["kind"], (98, 99, 100, 101)[k]), "XPath C API transcodeString boundary: " + prob["detail"], xlines[k])
            continue
        d = parse_reply(rep)
        if d.get("rc") != "0" or d.get("val") != "1" or d.get("fu") != "1":
            gagree = False
            ctx.extra.setdefault("guard_disagreements", []).append({"xpath-case": k, "impl": rep[:200]})
    ctx.oblige("guarded stack buffers behave at boundary lengths (number('…' 198..201 chars), xsl:number depth 98..101, XPath C API 98..101 bytes)",
               "correspondence", gagree, json.dumps(ctx.extra.get("guard_disagreements", [])[:3]))

    # ---------------------------------------------------------------- 4b. destroy… with objects the transformer does not own
    dres = runner.run("xslt", ["dd"], "dd")
    rep, prob = dres[0]
    ctx.case(nontrivial_key="dd", cls="invalid-handle")
    if prob:
        ctx.fail("invalid-handle.%s" % prob["kind"], "destroyStylesheet/destroyParsedSource with a foreign object: " + prob["detail"], "dd")
    else:
        d = parse_reply(rep)
        rcs = d.get("rc", "").split(",")
        if d.get("esc") != "none" or d.get("fu") != "1" or any(x in ("0", "7777", "7779", "-99") for x in rcs) or int(d.get("msg", "0")) == 0:
            ctx.fail("invalid-handle.bad-report: " + rep, "destroyStylesheet/destroyParsedSource (C++ and C API) with an object owned by another transformer "
                     "must return a non-zero status with a message and leave both transformers usable: " + rep, "dd")

    # ---------------------------------------------------------------- 5. malformed / adversarial search
    cases = []      # (mode, line, meta)
    for name, s, d in CORPUS_XF:
        for cmd in ("xf", "xc", "ca"):
            cases.append(("xslt", "%s %s %s" % (cmd, hx(s), hx(d)), {"kind": "corpus:" + name, "sty": s.encode("utf-8"), "src": d.encode("utf-8"), "params": []}))
    cdir = os.path.join(common.ROOT, "gen", "corpus", "c03")
    if os.path.isdir(cdir):
        for f in sorted(os.listdir(cdir)):
            if f.endswith(".json"):
                c = json.load(open(os.path.join(cdir, f)))
                cases.append((c.get("mode", "xslt"), c["line"], {"kind": "corpus:" + f, "sty": bytes.fromhex(c.get("sty", "")), "src": b"", "params": []}))
    cases.append(("xpath", "xp %s %s %s" % (hx("count(/r/i) = 3"), hx("<r><i/><i/><i/></r>"), hx("UTF-16")),
                  {"kind": "corpus:new-xpath-capi-utf16", "sty": b"count(/r/i) = 3", "src": b"", "params": []}))
    nx, nxp = (1500, 500) if not ctx.thorough else (10000, 3000)
    c03_gen.MAX_DEPTH = 1000 if ctx.thorough else 5000     # sanitizer build: nesting costs ~10x
    for _ in range(nx):
        kind, sb, src, params = c03_gen.gen_case(r)
        if params:
            if r.chance(1, 2):
                line = "xf %s %s %s" % (hx(sb), hx(src), " ".join("%s=%s" % (hx(a), hx(b)) for a, b in params))
            else:
                a, b = params[0]
                line = "cp %s %s %s %s" % (hx(a.replace(b"\x00", b"")), hx(b.replace(b"\x00", b"")), hx(sb), hx(src))
        else:
            cmd = r.weighted([("xf", 6), ("xc", 2), ("ca", 2)])
            line = "%s %s %s" % (cmd, hx(sb), hx(src))
        cases.append(("xslt", line, {"kind": kind, "sty": sb, "src": src, "params": params}))
    for _ in range(nxp):
        eb, src, enc = c03_gen.gen_xpath_case(r)
        cmd = r.weighted([("xp", 3), ("xe", 2)])
        if cmd == "xp":
            line = "xp %s %s%s" % (hx(eb), hx(src.replace(b"\x00", b"")), (" " + hx(enc)) if enc is not None else "")
        else:
            line = "xe %s %s" % (hx(eb), hx(src))
        cases.append(("xpath", line, {"kind": "xpath", "sty": eb, "src": src, "params": []}))

    # ---------------------------------------------------------------- 5a. the SAME compiled stylesheet after a failure; > 10 decimal-formats; recursion
    def pspec(ps):
        return ",".join("%s=%s" % (hx(a), hx(b)) for a, b in ps) if ps else "-"
    rlines, rmeta = [], []
    for _ in range(150 if not ctx.thorough else 1200):
        sb, src, A, B = c03_gen.gen_reuse_case(r)
        rlines.append("xs %s %s %s %s" % (hx(sb), hx(src), pspec(A), pspec(B)))
        rmeta.append(("reuse", sb, A, B))
    for _ in range(20 if not ctx.thorough else 200):
        sb, src = c03_gen.gen_decfmt_case(r)
        rlines.append("xr %s %s" % (hx(sb), hx(src)))
        rmeta.append(("decfmt", sb, None, None))
    for nm, e in (("dollar", "$"), ("undefined", "$undefined"), ("self", "$p"), ("junk", "$ + 1"), ("digit", "$1")):
        # a variable reference in a top-level parameter expression (no stack frame exists yet while these are resolved)
        rlines.append("cp %s %s %s %s" % (hx("p"), hx(e), hx(c03_gen.BASES[3][0]), hx(c03_gen.SOURCES[1])))
        rmeta.append(("param-varref:" + nm, e.encode(), None, None))
    rres, rextras = run_parallel(runner, "xslt", rlines, nproc, "reuse")
    for (kind, sb, A, B), (rep, prob), line in zip(rmeta, rres, rlines):
        if prob:
            ctx.case(nontrivial_key=line[:4000], cls=kind + ":" + prob["kind"])
            cl = classify(prob["kind"], sb if kind != "param-varref" else b"", b"", [], prob["detail"])
            ctx.fail("%s.%s[%s]: %s" % (kind.split(":")[0], prob["kind"], cl if cl != "unclassified" else kind, line[:100]),
                     "%s on a %s request: %s" % (prob["kind"], kind, prob["detail"]), {"mode": "xslt", "line": line})
            continue
        d = parse_reply(rep or "")
        rc = int(d.get("rc", "-99"))
        ctx.case(nontrivial_key=line[:4000] if (d.get("cmp", "1") == "1") else None, cls="%s:rc=%d,rc2=%s" % (kind.split(":")[0], rc, d.get("rc2", "-")),
                 sample=line[:400] if kind == "reuse" and len(ctx.samples) < 7 else None)
        if d.get("esc", "none") != "none":
            ctx.fail("%s.escapes[%s]" % (kind, d["esc"]), "exception %s left the entry point" % d["esc"], {"mode": "xslt", "line": line})
            if d.get("fu") != "1":
                ctx.fail("%s.unusable-after" % kind, "follow-up known-good transformation failed after: " + (rep or "")[:300], {"mode": "xslt", "line": line})
            continue      # status / message / second run were not reached
        if d.get("fu") != "1":
            ctx.fail("%s.unusable-after" % kind, "follow-up known-good transformation failed after: " + (rep or "")[:300], {"mode": "xslt", "line": line})
        if (rc == 0 and int(d.get("msg", "0")) != 0) or (d.get("rc2") == "0" and int(d.get("msg2", "0")) != 0):
            ctx.fail("%s.stale-message-after-success" % kind.split(":")[0], "a successful call leaves getLastError() non-empty (the message of an earlier failure): " + (rep or "")[:300],
                     {"mode": "xslt", "line": line})
        if rc != 0 and int(d.get("msg", "0")) == 0:
            ctx.fail("%s.empty-message: rc=%d" % (kind, rc), "non-zero status with an empty message: " + (rep or "")[:300], {"mode": "xslt", "line": line})
        if kind in ("reuse", "decfmt") and d.get("ref") != "1":
            what = ("the second transformation with the same compiled stylesheet on the same transformer differs from a fresh transformer"
                    if kind == "reuse" else "a transformer with a history formats numbers differently from a fresh one (more decimal-formats than the cache holds)")
            ctx.fail("%s.differs-from-fresh: rc2=%s refrc=%s" % (kind, d.get("rc2", d.get("rc")), d.get("refrc", "?")), what + ": " + (rep or "")[:600],
                     {"mode": "xslt", "line": line})
        if kind == "decfmt" and rc != 0:
            ctx.extra.setdefault("decfmt_invalid", []).append((rep or "")[:400])
    ctx.oblige("generated decimal-format stylesheets (> 10 symbol sets each) are accepted by the processor", "correspondence",
               not ctx.extra.get("decfmt_invalid"), str(ctx.extra.get("decfmt_invalid", [])[:2]))
    for pr in rextras:
        a, b = pr["range"]
        if pr["kind"] == "leak" and "xalanc" not in pr["detail"] and "Xalan" not in pr["detail"]:
            ctx.extra.setdefault("external_leaks", []).append(pr["detail"][:300])
            continue
        culprit = bisect_report(runner, "xslt", rlines[a:b])
        if culprit is not None:
            k = a + culprit
            cl = classify(pr["kind"], rmeta[k][1], b"", [], pr["detail"])
            ctx.fail("%s.%s[%s]: %s" % (rmeta[k][0].split(":")[0], pr["kind"], cl, rlines[k][:100]), "%s: %s" % (pr["kind"], pr["detail"]), {"mode": "xslt", "line": rlines[k]})
        else:
            ctx.oblige("harness batch exits cleanly (reuse stream, lines %d..%d)" % (a, b), "correspondence", False, pr["detail"])

    # template recursion: a depth ramp of terminating recursion, and recursion without an end (must end in a reported error)
    depths = [10, 1000, 20000] if not ctx.thorough else [10, 100, 1000, 10000, 50000, 90000]
    reclines, recmeta = [], []
    for kind in ("call", "apply", "call-element"):
        for dp in depths:
            if kind == "call-element" and dp > 20000:
                continue
            reclines.append("xf %s %s %s=%s" % (hx(c03_gen.recursion_stylesheet(kind)), hx("<r/>"), hx("n"), hx(str(dp))))
            recmeta.append((kind, dp))
    recres, _ = run_parallel(runner, "xslt", reclines, min(nproc, len(reclines)), "rec")
    for (kind, dp), (rep, prob), line in zip(recmeta, recres, reclines):
        ctx.case(nontrivial_key="recursion %s %d" % (kind, dp), cls="recursion:bounded")
        if prob:
            ctx.fail("recursion.%s[bounded-%s]: depth %d" % (prob["kind"], kind, dp), "terminating template recursion of depth %d (%s): %s" % (dp, kind, prob["detail"]),
                     {"mode": "xslt", "line": line})
            continue
        d = parse_reply(rep or "")
        out = bytes.fromhex(d["out"]).decode("utf-8", "replace") if d.get("out", "-") != "-" else ""
        if d.get("rc") != "0" or d.get("fu") != "1" or (kind != "call-element" and out != "done"):
            ctx.fail("recursion.wrong-result[bounded-%s]: depth %d" % (kind, dp), "terminating recursion of depth %d did not produce its result: %s" % (dp, (rep or "")[:300]),
                     {"mode": "xslt", "line": line})
    # Recursion without an end — through every construct that pushes a frame (for-each, variable / with-param / param bodies, attribute sets,
    # fallback, sort keys and lazily evaluated globals, result-tree builders …) x call-template / apply-templates / apply-imports, as cycles of
    # one template and of two with alternating constructs — must end in a REPORTED error within the budget of a request: the time limit and a
    # memory limit (RLIMIT_AS of the child; under ASan its hard_rss_limit_mb).  Reaching the memory limit ("Out of memory") is over budget.
    mem_mb = 3000
    inf_env = dict(env)
    if flavor == "asan":
        inf_env["ASAN_OPTIONS"] = env["ASAN_OPTIONS"] + ":hard_rss_limit_mb=%d" % (3 * mem_mb)
    inf_runner = Runner(harness, inf_env, case_timeout=(900 if ctx.thorough else 100), as_limit_mb=(None if flavor == "asan" else mem_mb))
    infcases = [(k, c03_gen.recursion_stylesheet(k)) for k in ("infinite-call", "infinite-apply", "infinite-mutual")]
    infcases += c03_gen.recursion_family(os.path.join(work, "c03_recursion"), r, ctx.thorough)
    # (the body of xsl:with-param under deep recursion costs time quadratic in the depth — a minute per case, several under ASan: quick keeps the
    #  cheapest one, thorough the three cycles of one template and the pairs with plain / for-each)
    if not ctx.thorough:
        infcases = [c for c in infcases if "with-param-body" not in c[0] or c[0] == "with-param-body/imports"]
    else:
        infcases = [c for c in infcases if "with-param-body" not in c[0] or "+" not in c[0] or
                    any(c[0].startswith(o + "/") or ("+" + o + "/") in c[0] for o in ("plain", "for-each"))]
    inflines = ["xf %s %s" % (hx(sty_), hx(c03_gen.REC_SOURCE)) for _, sty_ in infcases]
    with concurrent.futures.ThreadPoolExecutor(max_workers=min(nproc, 6)) as ex:
        infres = list(ex.map(lambda jl: inf_runner.run("xslt", [jl[1]], "inf%d" % jl[0])[0], enumerate(inflines)))
    for (k, _), (rep, prob), line in zip(infcases, infres, inflines):
        ctx.case(nontrivial_key="recursion " + k, cls="recursion:unbounded")
        if prob:
            ctx.fail("recursion.%s[%s]" % (prob["kind"], k), "template recursion without an end must end in a reported error; instead: %s" % prob["detail"],
                     {"mode": "xslt", "line": line, "as_limit_mb": mem_mb})
            continue
        d = parse_reply(rep or "")
        err = bytes.fromhex(d["err"]).decode("utf-8", "replace") if d.get("err", "-") != "-" else ""
        if d.get("esc", "none") != "none" or d.get("rc") == "0" or int(d.get("msg", "0")) == 0:
            ctx.fail("recursion.bad-report[%s]" % k, "template recursion without an end must end in a non-zero status with a message: " + (rep or "")[:300],
                     {"mode": "xslt", "line": line, "as_limit_mb": mem_mb})
        elif "memory" in err.lower() or d.get("rc") == "-5":
            ctx.fail("recursion.memory-budget[%s]" % k, "template recursion without an end was not recognised: it ran until the memory limit of the request (%d MB) and ended in %r" % (mem_mb, err[:80]),
                     {"mode": "xslt", "line": line, "as_limit_mb": mem_mb})
        elif d.get("fu") != "1":
            ctx.fail("recursion.bad-report[%s]" % k, "after the reported recursion the transformer is not usable: " + (rep or "")[:300], {"mode": "xslt", "line": line, "as_limit_mb": mem_mb})

    # ---------------------------------------------------------------- 5b. structural stream: every XSLT element under every parent
    good_href = "file://" + os.path.join(work, "c03_import", "good.xsl")
    smatrix = c03_gen.structural_matrix(good_href)
    smatrix += c03_gen.structural_matrix(good_href, version="2.0", variants=c03_gen.ATTR_VARIANTS if ctx.thorough else ("good", "missing"))
    smatrix += c03_gen.structural_pairs(r, 400 if not ctx.thorough else 6000, good_href)
    slines = ["%s %s %s" % ("xf" if (k % 5) else ("xc" if (k % 10) else "ca"), hx(st), hx(c03_gen.STRUCT_SOURCE)) for k, (_, st) in enumerate(smatrix)]
    sres, sextras = run_parallel(runner, "xslt", slines, nproc, "struct")
    sobs, sobs_k = [], []
    for k, ((skey, st), (rep, prob), line) in enumerate(zip(smatrix, sres, slines)):
        if prob:
            ctx.case(nontrivial_key="struct " + skey, cls="struct:" + prob["kind"])
            cl = classify(prob["kind"], st.encode("utf-8"), b"", [], prob["detail"])
            ctx.fail("struct.%s[%s]: %s" % (prob["kind"], cl if cl != "unclassified" else skey.split(":")[0], skey),
                     "%s for child/parent %s: %s" % (prob["kind"], skey, prob["detail"]), {"mode": "xslt", "line": line})
            continue
        d = parse_reply(rep or "")
        rc = int(d.get("rc", "-99"))
        ctx.case(nontrivial_key="struct " + skey, cls="struct:rc=%d" % rc, sample=st[:400] if k == 1234 else None)
        if d.get("esc", "none") != "none":
            ctx.fail("struct.escapes[%s]: %s" % (d["esc"], skey), "exception %s left the entry point" % d["esc"], {"mode": "xslt", "line": line})
            continue
        if d.get("fu") != "1":
            ctx.fail("struct.unusable-after: " + skey, "follow-up known-good transformation failed after: " + (rep or "")[:300], {"mode": "xslt", "line": line})
        if rc == 0 and int(d.get("msg", "0")) != 0:
            ctx.fail("struct.stale-message-after-success: " + skey, "a successful call leaves getLastError() non-empty: " + (rep or "")[:200], {"mode": "xslt", "line": line})
        if rc in (7777, 7778, 7779):
            ctx.fail("struct.prebuilt-misbehaves[%d]: %s" % (rc, skey), "compiled stylesheet / parsed source not reusable or not destroyable: " + (rep or "")[:200], {"mode": "xslt", "line": line})
        else:
            sobs.append("obs doTransform %d %s" % (rc, d.get("msg", "0")))
            sobs_k.append(k)
    if sobs:
        for o, v, k in zip(sobs, model_lines(model, sobs, work, "sobs"), sobs_k):
            if v != "ok":
                ctx.fail("struct.bad-report: %s %s" % (smatrix[k][0], o), "entry point returned %s: a status no handler produces, or a non-zero status with an empty message" % o,
                         {"mode": "xslt", "line": slines[k]})
    for pr in sextras:
        a, b = pr["range"]
        if pr["kind"] == "leak" and "xalanc" not in pr["detail"] and "Xalan" not in pr["detail"]:
            ctx.extra.setdefault("external_leaks", []).append(pr["detail"][:300])
            continue
        culprit = bisect_report(runner, "xslt", slines[a:b])
        if culprit is not None:
            k = a + culprit
            ctx.fail("struct.%s[%s]: %s" % (pr["kind"], smatrix[k][0].split(":")[0], smatrix[k][0]), "%s: %s" % (pr["kind"], pr["detail"]), {"mode": "xslt", "line": slines[k]})
        else:
            ctx.oblige("harness batch exits cleanly (structural stream, lines %d..%d)" % (a, b), "correspondence", False, pr["detail"])
    ctx.extra["structural_matrix"] = {"parents": len(c03_gen.STRUCT_PARENTS), "children": len(c03_gen.XSLT_ELEMENTS), "cases": len(smatrix)}

    # ---------------------------------------------------------------- 5c. error paths must not leak; reference cycles of length 1..5
    moddir = os.path.join(work, "c03_modules")
    ecases = c03_gen.error_path_cases(moddir) + c03_gen.cycle_cases(moddir)
    for (how, err, depth) in [(h, e, d) for h in ("import", "include") for e in ("cycle",) for d in (1, 2, 3)]:
        url = "file://" + os.path.join(moddir, "cycle_%s_%d_1.xsl" % (how, depth))
        ecases.append(("cycle:module-%s:%d" % (how, depth), c03_gen.sty("<xsl:template match='/'><o/></xsl:template>", top="<xsl:%s href='%s'/>" % (how, url)), "<r/>", "error"))
    # every case on a transformer of its own over a counting memory manager (`lk`): outstanding blocks after its destruction must be 0;
    # the error / cycle cases also through the shared transformer (`xf`, `xc`) for the usual oracle
    elines, emeta = [], []
    for key, st, src, expect in ecases:
        elines.append("lk %s %s" % (hx(st), hx(src)))
        emeta.append((key, st, expect, "lk"))
        elines.append("%s %s %s" % ("xf" if len(elines) % 4 else "xc", hx(st), hx(src)))
        emeta.append((key, st, expect, "xf"))
    eres, eextras = run_parallel(runner, "xslt", elines, nproc, "errpath")
    for (key, st, expect, via), (rep, prob), line in zip(emeta, eres, elines):
        fam = key.split(":")[0] + ":" + key.split(":")[1]
        if prob:
            ctx.case(nontrivial_key="errpath %s %s" % (via, key), cls="errpath:" + prob["kind"])
            cl = classify(prob["kind"], st.encode("utf-8"), b"", [], prob["detail"])
            ctx.fail("errpath.%s[%s]: %s" % (prob["kind"], cl if cl != "unclassified" else fam, key), "%s on %s: %s" % (prob["kind"], key, prob["detail"]), {"mode": "xslt", "line": line})
            continue
        d = parse_reply(rep or "")
        rc = int(d.get("rc", "-99"))
        ctx.case(nontrivial_key="errpath %s %s" % (via, key), cls="errpath:%s:rc=%d" % (key.split(":")[0], rc))
        if d.get("esc", "none") != "none":
            ctx.fail("errpath.escapes[%s]: %s" % (d["esc"], key), "exception %s left the entry point" % d["esc"], {"mode": "xslt", "line": line})
            continue
        if d.get("fu") != "1":
            ctx.fail("errpath.unusable-after: " + key, "follow-up known-good transformation failed after: " + (rep or "")[:300], {"mode": "xslt", "line": line})
        if rc != 0 and int(d.get("msg", "0")) == 0:
            ctx.fail("errpath.empty-message: " + key, "non-zero status with an empty message: " + (rep or "")[:300], {"mode": "xslt", "line": line})
        if via == "lk" and d.get("live", "0") != "0":
            ctx.fail("errpath.leak[%s]: %s live=%s" % (fam, key, d.get("live")),
                     "%s memory blocks of the transformer's memory manager are still outstanding after the transformer was destroyed (%s, status %d)" % (d.get("live"), key, rc),
                     {"mode": "xslt", "line": line})
        if expect == "error" and rc == 0:
            ctx.fail("errpath.cycle-or-error-not-reported: " + key, "a stylesheet that cannot be compiled / a reference cycle must end in a reported error, got status 0: " + (rep or "")[:200],
                     {"mode": "xslt", "line": line})
        elif expect not in ("error", "ok", "any") and via == "xf" and line.startswith("xf "):
            out = bytes.fromhex(d["out"]).decode("utf-8", "replace") if d.get("out", "-") != "-" else ""
            if rc != 0 or out != expect:
                ctx.fail("errpath.wrong-result: " + key, "a terminating chain / bounded mutual recursion must produce %r: %s" % (expect, (rep or "")[:300]), {"mode": "xslt", "line": line})
        elif expect == "ok" and rc != 0:
            ctx.fail("errpath.wrong-result: " + key, "a valid module chain was rejected: " + (rep or "")[:300], {"mode": "xslt", "line": line})
    for pr in eextras:
        a, b = pr["range"]
        if pr["kind"] == "leak" and "xalanc" not in pr["detail"] and "Xalan" not in pr["detail"]:
            ctx.extra.setdefault("external_leaks", []).append(pr["detail"][:300])
            continue
        culprit = bisect_report(runner, "xslt", elines[a:b])
        if culprit is not None:
            k = a + culprit
            ctx.fail("errpath.%s[%s]: %s" % (pr["kind"], emeta[k][0].split(":")[0] + ":" + emeta[k][0].split(":")[1], emeta[k][0]), "%s: %s" % (pr["kind"], pr["detail"]), {"mode": "xslt", "line": elines[k]})
        else:
            ctx.oblige("harness batch exits cleanly (error-path stream, lines %d..%d)" % (a, b), "correspondence", False, pr["detail"])

    # ---------------------------------------------------------------- 5d. error-message construction; URI resolution
    try:
        nmsg = json.load(open(os.path.join(common.GEN, "C03_Messages.json")))["count"]
        maxmsg = int(re.search(r"def maxMessageLength : Nat := (\d+)", open(os.path.join(common.GEN, "C03_Messages.lean")).read()).group(1))
    except Exception:
        nmsg, maxmsg = 200, 1024
    # every message of the catalogue x every getMessage overload x every length of the substituted texts, called directly
    mlines = ["msgall %d %d" % (n, nmsg) for n in c03_gen.MESSAGE_LENGTHS]
    mcases = c03_gen.long_message_cases()
    mlines += ["%s %s %s" % ("xf" if k % 3 else "xc", hx(st), hx(src)) for k, (_, st, src) in enumerate(mcases)]
    mkeys = ["msgall:%d" % n for n in c03_gen.MESSAGE_LENGTHS] + [key for key, _, _ in mcases]
    mres, mextras = run_parallel(runner, "xslt", mlines, nproc, "msg")
    mobs, mobs_k = [], []
    for k, (key, (rep, prob), line) in enumerate(zip(mkeys, mres, mlines)):
        ctx.case(nontrivial_key="message " + key, cls="message:" + key.split(":")[0] if not key.startswith("msgall") else "message:catalogue")
        if prob:
            ctx.fail("message.%s[%s]: %s" % (prob["kind"], key.split(":")[0], key), "%s while an error message with a substituted text of that length was built (%s): %s" % (prob["kind"], key, prob["detail"]),
                     {"mode": "xslt", "line": line if len(line) < 3000 else line[:3000]})
            continue
        d = parse_reply(rep or "")
        if d.get("esc", "none") != "none":
            ctx.fail("message.escapes[%s]: %s" % (d["esc"], key), "exception %s left the entry point" % d["esc"], {"mode": "xslt", "line": line[:3000]})
            continue
        if key.startswith("msgall"):
            if int(d.get("maxlen", "0")) > maxmsg or int(d.get("codes", "0")) != nmsg:
                ctx.fail("message.longer-than-limit: " + key, "a message came back longer than kMaxMessageLength: " + (rep or ""), line)
            continue
        if d.get("fu") != "1":
            ctx.fail("message.unusable-after: " + key, "follow-up known-good transformation failed after: " + (rep or "")[:300], {"mode": "xslt", "line": line[:3000]})
        rc = int(d.get("rc", "-99"))
        if rc in (7777, 7778, 7779):
            ctx.fail("message.prebuilt-misbehaves[%d]: %s" % (rc, key), (rep or "")[:200], {"mode": "xslt", "line": line[:3000]})
        else:
            mobs.append("obs doTransform %d %s" % (rc, d.get("msg", "0")))
            mobs_k.append(k)
    if mobs:
        for o, v, k in zip(mobs, model_lines(model, mobs, work, "mobs"), mobs_k):
            if v != "ok":
                ctx.fail("message.bad-report: %s %s" % (mkeys[k], o), "entry point returned %s" % o, {"mode": "xslt", "line": mlines[k][:3000]})
    for pr in mextras:
        a, b = pr["range"]
        if pr["kind"] == "leak" and "xalanc" not in pr["detail"] and "Xalan" not in pr["detail"]:
            ctx.extra.setdefault("external_leaks", []).append(pr["detail"][:300])
            continue
        culprit = bisect_report(runner, "xslt", mlines[a:b])
        ctx.fail("message.%s: %s" % (pr["kind"], mkeys[a + culprit] if culprit is not None else "?"), "%s: %s" % (pr["kind"], pr["detail"]),
                 {"mode": "xslt", "line": (mlines[a + culprit] if culprit is not None else "batch")[:3000]})

    # error messages that quote NON-ASCII texts of the input (2-, 3-, 4-byte UTF-8 characters, 10..5000 of them): the status is non-zero AND
    # getLastError() is a non-empty, valid UTF-8 string that contains the beginning of the quoted text (where the same kind of message quotes an
    # ASCII text — calibrated in the same run); the local-code-page transcoding behind it has to grow its buffer up to 3 bytes per UTF-16 unit
    ncases = c03_gen.nonascii_message_cases()
    nlines = []
    for key, kind, s_, src_, needle in ncases:
        nlines.append("nd %s" % hx(needle))
        nlines.append("xf %s %s" % (hx(s_), hx(src_)))
    nres = runner.run("xslt", nlines, "nonascii")
    quotes = {}
    for j, (key, kind, s_, src_, needle) in enumerate(ncases):
        rep, prob = nres[2 * j + 1]
        line = nlines[2 * j + 1]
        ctx.case(nontrivial_key="message-nonascii " + key, cls="message:" + kind)
        if prob:
            ctx.fail("message.%s[nonascii:%s]" % (prob["kind"], key), "%s while an error message quoting a non-ASCII text was built: %s" % (prob["kind"], prob["detail"]), {"mode": "xslt", "line": line})
            continue
        d = parse_reply(rep or "")
        if key.endswith("/calibrate"):
            quotes[kind] = d.get("rc") != "0" and d.get("nf") == "1"
            continue
        if d.get("esc", "none") != "none":
            ctx.fail("message.escapes[nonascii:%s]" % key, "exception %s left the transformer" % d.get("esc"), {"mode": "xslt", "line": line})
        elif d.get("rc") == "0":
            continue
        elif int(d.get("msg", "0")) == 0:
            ctx.fail("message.empty[nonascii:%s]" % key, "non-zero status %s with an EMPTY getLastError() for an error whose message quotes a non-ASCII text" % d.get("rc"), {"mode": "xslt", "line": line})
        elif d.get("eu") != "1":
            ctx.fail("message.invalid-utf8[nonascii:%s]" % key, "getLastError() is not a valid UTF-8 string: %s" % (rep or "")[:300], {"mode": "xslt", "line": line})
        elif quotes.get(kind) and d.get("nf") != "1":
            ctx.fail("message.text-lost[nonascii:%s]" % key, "getLastError() does not contain the beginning of the quoted text (it does for an ASCII text): %s" % (rep or "")[:300], {"mode": "xslt", "line": line})
        elif d.get("fu") != "1":
            ctx.fail("message.not-usable[nonascii:%s]" % key, "the transformer is not usable afterwards: %s" % (rep or "")[:300], {"mode": "xslt", "line": line})
    ctx.extra["nonascii_message_kinds_quoting"] = sorted(k for k, v in quotes.items() if v)
    runner.run("xslt", ["nd -"], "nonascii-reset")

    # XalanParsedURI::resolve called directly on unterminated exactly-sized copies (reads past the end show under ASan), compared with the Lean model
    upairs = [(rf, b) for b in c03_gen.URI_BASES for rf in c03_gen.URI_REFS]
    for _ in range(300 if not ctx.thorough else 5000):
        segs = ["..", ".", "a", "", "bb", "...", "..x", "x..", "%2e"]
        rf = r.choice(["", "/", "//h/", "s:", "?"]) * r.below(2) + "/".join(r.choice(segs) for _ in range(r.range(0, 9))) + r.choice(["", "/", "?q", "#f", "/.."])
        b = r.choice(["", "s:", "s://h", "s://h/", "file:", "s:p", ""]) + "/".join(r.choice(segs) for _ in range(r.range(0, 6))) + r.choice(["", "/", "?q", "#f"])
        upairs.append((rf, b))
    ulines = ["uri %s %s" % (hx(rf), hx(b)) for rf, b in upairs]
    ures, uextras = run_parallel(runner, "xslt", ulines, min(nproc, 4), "uri")
    umodel = model_lines(model, ulines, work, "uri")
    uagree, udis, n_over, n_notrun = True, [], 0, 0
    for (rf, b), (rep, prob), mv, line in zip(upairs, ures, umodel, ulines):
        ctx.case(nontrivial_key=line, cls="uri:direct")
        if prob:
            ctx.fail("uri.%s: resolve(%r, base %r)" % (prob["kind"], rf[:60], b[:60]), "XalanParsedURI::resolve: %s" % prob["detail"], {"mode": "xslt", "line": line})
            continue
        if rep is None:
            n_notrun += 1       # the harness gave up after 60 crashes in this batch: these lines were never executed (no statement about them)
            continue
        d = parse_reply(rep or "")
        if d.get("esc", "none") != "none":
            ctx.fail("uri.escapes[%s]: resolve(%r, base %r)" % (d["esc"], rf[:60], b[:60]), "exception left XalanParsedURI::resolve", {"mode": "xslt", "line": line})
        elif d.get("out") != mv:
            uagree = False
            udis.append({"ref": rf, "base": b, "impl": d.get("out"), "model": mv})
        elif d.get("pout") != d.get("out"):
            n_over += 1
            if n_over > 3:      # one cause: the first three pairs are enough as replays
                continue
            # the same call on buffers that are followed by ":/" behind the stated lengths gave another result: an element past the end was read
            ctx.fail("uri.overread: resolve(%r, base %r)" % (rf[:60], b[:60]),
                     "XalanParsedURI::resolve(relative, relativeLen, base, baseLen) reads behind the stated length: result %r on exactly sized buffers, %r when ':/' or '//' follows them" % (
                         bytes.fromhex(d.get("out", "") if d.get("out") != "-" else "").decode("latin-1")[:80], bytes.fromhex(d.get("pout", "") if d.get("pout") != "-" else "").decode("latin-1")[:80]),
                     {"mode": "xslt", "line": line})
    for pr in uextras:
        a, bb = pr["range"]
        culprit = bisect_report(runner, "xslt", ulines[a:bb])
        ctx.fail("uri.%s: %s" % (pr["kind"], ulines[a + culprit][:100] if culprit is not None else "?"), "%s: %s" % (pr["kind"], pr["detail"]),
                 {"mode": "xslt", "line": ulines[a + culprit] if culprit is not None else "batch"})
    ctx.extra["uri_overread_pairs"] = n_over
    if n_notrun:
        ctx.fail("uri.not-run", "%d of %d direct XalanParsedURI::resolve calls were not executed: the harness crashed 60 times in one batch (see the uri.crash entries)" % (n_notrun, len(upairs)), {"mode": "xslt", "line": "batch"})
    ctx.oblige("correspondence: XalanParsedURI::resolve(reference, base) = Lean resolveStrings on %d base x reference pairs" % len(upairs), "correspondence", uagree, json.dumps(udis[:4]))
    # … and through xsl:include / xsl:import / document() with the base URI given as the system id of stream inputs
    ucases = c03_gen.uri_stylesheets()
    xlines2 = ["xu %s %s %s %s" % (hx(st), hx(src), hx(sid), hx(did)) for _, st, src, sid, did in ucases]
    xres2, xextras2 = run_parallel(runner, "xslt", xlines2, nproc, "urisheet")
    for (key, st, src, sid, did), (rep, prob), line in zip(ucases, xres2, xlines2):
        ctx.case(nontrivial_key="uri " + key, cls="uri:" + key.split(":")[0])
        if prob:
            ctx.fail("uri.%s[%s]: %s" % (prob["kind"], key.split(":")[0], key), "%s resolving a reference against the base URI of a stream input (%s): %s" % (prob["kind"], key, prob["detail"]),
                     {"mode": "xslt", "line": line})
            continue
        d = parse_reply(rep or "")
        if d.get("esc", "none") != "none":
            ctx.fail("uri.escapes[%s]: %s" % (d["esc"], key), "exception %s left the entry point" % d["esc"], {"mode": "xslt", "line": line})
        elif d.get("fu") != "1":
            ctx.fail("uri.unusable-after: " + key, "follow-up known-good transformation failed after: " + (rep or "")[:300], {"mode": "xslt", "line": line})
        elif int(d.get("rc", "0")) != 0 and int(d.get("msg", "0")) == 0:
            ctx.fail("uri.empty-message: " + key, "non-zero status with an empty message: " + (rep or "")[:200], {"mode": "xslt", "line": line})
    for pr in xextras2:
        a, bb = pr["range"]
        if pr["kind"] == "leak" and "xalanc" not in pr["detail"] and "Xalan" not in pr["detail"]:
            ctx.extra.setdefault("external_leaks", []).append(pr["detail"][:300])
            continue
        culprit = bisect_report(runner, "xslt", xlines2[a:bb])
        ctx.fail("uri.%s[sheet]: %s" % (pr["kind"], ucases[a + culprit][0] if culprit is not None else "?"), "%s: %s" % (pr["kind"], pr["detail"]),
                 {"mode": "xslt", "line": xlines2[a + culprit] if culprit is not None else "batch"})

    # sources / stylesheets named by system id or URL (file, directory, unreachable host, malformed URL) instead of a stream
    for u in ["nonexistent-file.xml", "/", ".", "http://localhost:1/x.xml", "ftp://x/y", "file:///nonexistent", "http://[bad", "bogus://x", "a b c",
              "file://%zz", "file:///dev/null", "x" * 5000, "\x01", "http://", "file:", "//", "\\\\server\\share", "é.xml"]:
        cases.append(("xslt", "pu %s" % hx(u), {"kind": "url", "sty": u.encode("utf-8"), "src": b"", "params": []}))

    for mode in ("xslt", "xpath"):
        idx = [i for i, c in enumerate(cases) if c[0] == mode]
        lines = [cases[i][1] for i in idx]
        res, extras = run_parallel(runner, mode, lines, nproc, mode)
        obs = []
        obs_idx = []
        for j, i in enumerate(idx):
            rep, prob = res[j]
            meta = cases[i][2]
            line = cases[i][1]
            short = line if len(line) < 3000 else line[:3000] + "…"
            if prob and prob["kind"] == "hang" and re.search(rb"xsl:(apply-templates|call-template|apply-imports)", meta["sty"] or b""):
                # a mutated stylesheet that recurses without bound is a non-terminating *program*, not a hang of the processor;
                # the generator avoids them, what slips through is counted, not reported (see design/C03.md)
                ctx.case(nontrivial_key=None, cls=mode + ":inconclusive-hang(recursive stylesheet)")
                ctx.extra.setdefault("inconclusive_hangs", []).append(line[:300])
                continue
            if prob:
                ctx.case(nontrivial_key=line[:4000], cls=mode + ":" + meta["kind"].split(":")[0])
                cl = classify(prob["kind"], meta["sty"], meta["src"], meta["params"], prob["detail"])
                ctx.fail("fuzz.%s[%s]: %s %s" % (prob["kind"], cl, meta["kind"], line[:120]),
                         "%s on %s input: %s" % (prob["kind"], meta["kind"], prob["detail"]), {"mode": mode, "line": line})
                continue
            d = parse_reply(rep or "")
            rc = int(d.get("rc", "-99"))
            ml = int(d.get("msg", "0"))
            nontriv = rc in (0, -1) or (rc != 0 and mode == "xpath" and rc not in (9,))
            ctx.case(nontrivial_key=line[:4000] if nontriv else None, cls="%s:%s:rc=%d" % (mode, meta["kind"].split(":")[0], rc),
                     sample=short[:400] if (j in (len(CORPUS_XF) * 3 + 1, len(CORPUS_XF) * 3 + 2)) else None)
            if d.get("esc", "none") != "none" and not (line.startswith("xe ") and d["esc"] in ("XSLException", "XalanDOMException", "xerces_SAXException", "xerces_XMLException")):
                ctx.fail("fuzz.escapes[%s]: %s %s" % (d["esc"], line.split()[0], meta["kind"]),
                         "exception %s left the entry point %s" % (d["esc"], line.split()[0]), {"mode": mode, "line": line})
            if d.get("fu") != "1":
                ctx.fail("fuzz.unusable-after: %s %s" % (line.split()[0], meta["kind"]), "follow-up known-good transformation failed after: " + (rep or ""), {"mode": mode, "line": line})
            if mode == "xslt" and d.get("esc", "none") == "none":
                if rc == 0 and ml != 0 and not line.startswith("pu "):
                    ctx.fail("fuzz.stale-message-after-success: %s" % line.split()[0], "a successful call leaves getLastError() non-empty (the message of an earlier failure): " + (rep or "")[:200],
                             {"mode": mode, "line": line})
                if rc in (7777, 7778, 7779):
                    ctx.fail("fuzz.prebuilt-misbehaves[%d]" % rc, "compiled stylesheet / parsed source not reusable or not destroyable: " + (rep or "")[:200], {"mode": mode, "line": line})
                else:
                    obs.append("obs doTransform %d %d" % (rc, ml))
                    obs_idx.append(i)
            if mode == "xpath" and line.startswith("xp ") and d.get("esc", "none") == "none" and not (0 <= rc <= 13):
                ctx.fail("fuzz.xpath-capi-bad-status: %d" % rc, "XPath C API returned an undocumented status", {"mode": mode, "line": line})
        if obs:
            verdicts = model_lines(model, obs, work, "obs")
            for o, v, i in zip(obs, verdicts, obs_idx):
                if v != "ok":
                    ctx.fail("fuzz.bad-report: %s" % o, "entry point returned %s: a status no handler produces, or a non-zero status with an empty message" % o,
                             {"mode": mode, "line": cases[i][1]})
        for pr in extras:
            # leak / late sanitizer report somewhere in a batch: find the case
            if pr["kind"] == "leak" and "xalanc" not in pr["detail"] and "Xalan" not in pr["detail"]:
                # allocated and lost inside Xerces-C / ICU (no Xalan frame in the allocation stack): dependency, reported as information
                ctx.extra.setdefault("external_leaks", []).append(pr["detail"][:300])
                continue
            a, b = pr["range"]
            culprit = bisect_report(runner, mode, lines[a:b]) if ctx.thorough or True else None
            cl = "unclassified"
            if culprit is not None:
                meta = cases[idx[a + culprit]][2]
                cl = classify(pr["kind"], meta["sty"], meta["src"], meta["params"], pr["detail"])
                ctx.fail("fuzz.%s[%s]: %s" % (pr["kind"], cl, lines[a + culprit][:120]), "%s: %s" % (pr["kind"], pr["detail"]), {"mode": mode, "line": lines[a + culprit]})
            else:
                ctx.oblige("harness batch exits cleanly (%s, lines %d..%d)" % (mode, a, b), "correspondence", False, pr["detail"])
    ctx.exhaustive = False


def bisect_report(runner, mode, lines):
    """find one line whose single-process run reproduces a leak / late report"""
    lo, hi = 0, len(lines)
    tries = 0
    while hi - lo > 1 and tries < 14:
        mid = (lo + hi) // 2
        rr = runner.run(mode, lines[lo:mid], "bis")
        bad = len(rr) > (mid - lo) or any(p for _, p in rr[:mid - lo])
        if bad:
            hi = mid
        else:
            lo = mid
        tries += 1
    rr = runner.run(mode, lines[lo:hi], "bis")
    bad = len(rr) > (hi - lo) or any(p for _, p in rr[:hi - lo])
    return lo if bad else None


def replay(ctx, path):
    d = json.load(open(path))
    first = d.get("first", {})
    inp = first.get("input")
    ctx.build("hooks")
    flavor = "asan" if os.path.exists(os.path.join(common.build_dir("asan"), "src", "xalanc", "libxalan-c.so")) else "hooks"
    if flavor == "asan":
        ctx.build("asan")       # an existing sanitizer build may be older than the working tree
    harness = common.build_harness("c03_fuzz", ["c03_fuzz.cpp"], flavor=flavor, sanitize=(flavor == "asan"))
    if isinstance(inp, dict):
        mode, line = inp.get("mode", "xslt"), inp["line"]
    elif isinstance(inp, str):
        mode, line = ("xpath" if inp.startswith(("xp ", "xe ")) else "xslt"), inp
    else:
        print("replay file names broken obligations only:", json.dumps(d.get("broken_obligations"), indent=1)[:3000])
        return 1
    mem_mb = inp.get("as_limit_mb") if isinstance(inp, dict) else None
    asan_opts = "detect_leaks=1" + (":allocator_may_return_null=1:hard_rss_limit_mb=%d" % (3 * mem_mb) if mem_mb else "")
    runner = Runner(harness, {"ASAN_OPTIONS": asan_opts, "UBSAN_OPTIONS": "print_stacktrace=1:halt_on_error=1"}, 900 if mem_mb else 240,
                    as_limit_mb=(mem_mb if flavor != "asan" else None))
    rr = runner.run(mode, [line], "replay")
    print("request:", line[:2000])
    for a in line.split()[1:3]:
        try:
            print("  decoded:", bytes.fromhex(a)[:1500])
        except ValueError:
            pass
    print("implementation (%s build):" % flavor, rr)
    bad = any(p for _, p in rr)
    if mem_mb and not bad:
        d0 = parse_reply(rr[0][0] or "")
        err = bytes.fromhex(d0["err"]).decode("utf-8", "replace") if d0.get("err", "-") != "-" else ""
        print("  status %s, message %r (memory budget of the request: %d MB)" % (d0.get("rc"), err[:200], mem_mb))
        bad = d0.get("rc") == "0" or "memory" in err.lower() or d0.get("rc") == "-5"
    return 1 if bad else 0
