"""C07 — compiled stylesheets and parsed sources can be shared by concurrent threads (DESIGN.md §5 C07; design/C07.md).

proof:          lean/XalanModel/Props/C07.lean — non-interference and race freedom for every machine / thread count / program /
                schedule (induction on the schedule); discharged by `decide` for the machine whose shared cells are the write
                channels of the current source and for the process-wide variables reachable from the per-thread objects.
translator:     translate/c07_share.py (+ translate/c07_allow.tsv, the hand-kept classification) -> Generated/C07_Share.lean;
                translate/_c07_ast.py = clang AST cross-check (thorough tier).
correspondence: harness/c07_threads.cpp built against a ThreadSanitizer build of the working tree and against the normal build:
                N threads, own XalanTransformer each (privately configured in `+cfg` runs), cold shared compiled stylesheets /
                parsed sources; outputs byte-compared with a sequential run on private objects; any TSan report in a checked
                mode is a concrete violation; the modes the model calls racy are negative controls.
setup():        pre-builds the TSan tree, the normal tree and both harness binaries (for `./check --setup`).
"""
import json
import os
import re
import shutil
import subprocess

from vlib import common
from vlib.common import Rng

import importlib.util
_spec = importlib.util.spec_from_file_location("c07_gen", os.path.join(common.ROOT, "gen", "c07_gen.py"))
gen = importlib.util.module_from_spec(_spec)
_spec.loader.exec_module(gen)

CLAIMED = True
LEVEL = "proof"
TECHNIQUE = ("Lean 4: (i) theorems for every machine/thread count/program/schedule (induction on the schedule): read-only or "
             "observationally transparent sharing => each thread's result equals its solo/sequential result; writes only to "
             "synchronised locations => no race; (ii) `decide` over an access table regenerated from the source on every run "
             "(write channels of const execution + process-wide state reachable from the per-thread objects) under a hand-kept "
             "classification. ThreadSanitizer enumeration (N threads, cold shared objects, private per-transformer configuration, "
             "outputs vs sequential run, negative controls) validates the classification and the real library")
LEVEL_TEXT = ("Carried by Lean theorems (Props/C07.lean): for any machine, N, programs and schedule, if no step changes observable "
              "shared state every thread ends with its sequential private state and output (noninterference, "
              "interleaving_eq_sequential, sequential_is_solo), and if steps write only synchronised shared locations no trace has "
              "a race (race_free). Carried by `decide` over the table regenerated from the current tree (execution_readonly_partial, "
              "guards_imply_mapping_phase_partial, transform_touches_no_process_table_partial, table_race_free_partial): every construct "
              "through which const execution "
              "could write a shared object (mutable members, const_casts, non-const calls through pointer members, local statics, "
              "lazily headed containers; for the Xerces wrapper the guard condition of every const call into its mutators is extracted and "
              "shown to imply the mapping phase) or through which the per-thread objects (XalanTransformer, XSLTEngineImpl, the execution "
              "contexts, the env-support classes, StylesheetRoot::process) reach a process-wide variable is listed and classified as "
              "no unsynchronised shared write. Carried by ThreadSanitizer enumeration only: that each classification is true of the "
              "C++, that the inventory misses nothing, and the behaviour of the built library (generated stylesheets over keys, "
              "xsl:number, document(), format-number, sort, id(), extension functions... x native / thread-safe Xerces / "
              "thread-safe Xerces with setIdAttribute IDs / parseSource-Xerces sources x sharing kinds x private configuration; "
              "byte-equal outputs; any TSan report, and any allocation inside a shared object while the threads run (counting "
              "MemoryManager, string-pool mutex excepted) = violation with replay).")
LEVEL_NOTE = ("Partial proof. Trusted: Lean kernel; axioms propext/Classical.choice/Quot.sound only; translate/c07_share.py "
              "(regular-expression inventory and call graph; cross-checked class by class and edge by edge against clang's typed "
              "AST in the thorough tier; not a completeness proof: writes through pointer members are tracked one call deep, the call "
              "graph stops at the interpreter, Xerces/ICU are opaque); translate/c07_allow.tsv (one hand-kept C++ fact per table "
              "entry: per-thread instance, construction only, guarded by m_mappingMode, mutex, init/terminate only, ...), validated "
              "only by the TSan runs and so bounded by generator coverage; ThreadSanitizer (gcc 12) as race oracle; the C++ memory "
              "model and the compiler are modelled-not-verified; libxerces-c/ICU are not instrumented (races wholly inside them are "
              "invisible). A guard broken without a new channel (e.g. a lock removed) is detected by TSan alone. Two genuine defects "
              "were found and repaired in /repo (fix: d0cd23c, fix: 8b7d92c); lazy_listhead_interference_counterexample keeps the "
              "first as a proved counterexample of the pre-fix code; both witnesses are replayed on every run.")
DESIGN_REF = "DESIGN.md section 5, C07; design/C07.md"

P = "XalanModel.Props.C07."
THEOREMS = [P + t for t in (
    "noninterference", "noninterference_readonly", "interleaving_eq_sequential", "sequential_is_solo", "race_free",
    "execution_readonly_partial", "guards_imply_mapping_phase_partial", "transform_touches_no_process_table_partial", "tableMachine_writesOnlySync", "table_race_free_partial",
    "table_outputs_schedule_independent", "lazy_listhead_interference_counterexample",
    "forced_listhead_schedule_independent", "nullhead_schedule_independent", "nopool_counterexample", "mapping_mode_counterexample")]

# inside the property's quantifier: native source tree; a caller's Xerces DOM wrapped in thread-safe mode
# (XercesDOMWrapperParsedSource); and what XalanTransformer::parseSource(.., useXercesDOM=true) builds (XercesDOMParsedSource:
# the documentation promises that parsed sources can be shared, so it has to be thread-safe mode too)
# xerces-ts-setid: as xerces-ts, on a DOM whose ID attributes were marked with DOMElement::setIdAttribute (no DTD needed): id() then
# reaches XercesDocumentWrapper::mapNode for elements the pre-built wrapper did not put into its node map
SAFE_MODES = ["default", "xerces-ts", "xerces-ts-setid", "xerces-default"]
# outside it (XercesParserLiaison used directly with setThreadSafe(false) / setBuildWrapperNodes(false)): the model predicts races
CONTROL_MODES = ["xerces-nopool", "xerces-mapping"]
TIMEOUT = 300
HARNESS_EXTRA = ["-ldl"]       # the allocation probe resolves its stack with dladdr


def setup():
    """Pre-build what the quick tier needs and what is expensive the first time: the ThreadSanitizer build of the working
    tree (~5 min cold, incremental afterwards), the normal build, both harness binaries.  Called by `./check --setup`."""
    common.build_repo("tsan")
    common.build_repo("hooks")
    common.build_harness("c07_threads", ["c07_threads.cpp"], flavor="tsan", extra=HARNESS_EXTRA)
    common.build_harness("c07_threads", ["c07_threads.cpp"], flavor="hooks", sanitize=False, extra=HARNESS_EXTRA)
    return 0


# ---------------------------------------------------------------------------------------------- TSan report parsing

FRAME = re.compile(r"^\s+#(\d+) (.*?) (/\S+?|<null>)(?::(\d+))?(?::\d+)? \((\S+?)\+0x[0-9a-f]+\)\s*$")


def clean_fn(sym):
    """xalanc_1_12::XalanMap<...>::find(...) const  ->  XalanMap::find"""
    s = sym
    # drop argument list (last top-level parenthesis group) and trailing qualifiers
    depth = 0
    cut = None
    for i, ch in enumerate(s):
        if ch in "<":
            depth += 1
        elif ch == ">":
            depth -= 1
        elif ch == "(" and depth == 0:
            cut = i
            break
    if cut is not None:
        s = s[:cut]
    # drop template arguments
    out = []
    depth = 0
    for ch in s:
        if ch == "<":
            depth += 1
        elif ch == ">":
            depth -= 1
        elif depth == 0:
            out.append(ch)
    s = "".join(out)
    s = re.sub(r"\bxalanc_\d+_\d+::", "", s)
    s = s.strip()
    if " " in s:            # return type in front (templates)
        s = s.split(" ")[-1]
    return s


def parse_reports(text):
    """-> list of reports: {kind, stacks: [{header, frames:[(fn, file, line, module)]}], raw}"""
    reps = []
    blocks = text.split("==================")
    for b in blocks:
        if "WARNING: ThreadSanitizer" not in b:
            continue
        m = re.search(r"WARNING: ThreadSanitizer: ([^\n(]+)", b)
        kind = m.group(1).strip() if m else "?"
        stacks = []
        cur = None
        for line in b.split("\n"):
            fm = FRAME.match(line)
            if fm and cur is not None:
                cur["frames"].append((clean_fn(fm.group(2)), fm.group(3), fm.group(4) or "", fm.group(5)))
            elif re.match(r"^  \S", line) and line.rstrip().endswith(":"):
                cur = {"header": line.strip(), "frames": []}
                stacks.append(cur)
        reps.append({"kind": kind, "stacks": stacks, "raw": b.strip()[:6000]})
    return reps


def report_key(rep):
    """race:<first frame outside the container headers> via <innermost library frame>"""
    accs = [s for s in rep["stacks"] if re.match(r"(Previous )?(atomic )?(read|write)", s["header"], re.I)]
    if not accs:
        accs = rep["stacks"][:1]
    pick = None
    for s in accs:
        if "rite" in s["header"][:16]:
            pick = s
            break
    pick = pick or (accs[0] if accs else {"frames": []})
    if not any("libxalan-c" in f[3] for f in pick["frames"]):
        # "[failed to restore the stack]" for the older access: use the access whose stack TSan still has
        for s in accs:
            if any("libxalan-c" in f[3] for f in s["frames"]):
                pick = s
                break
    lib = [f for f in pick["frames"] if "libxalan-c" in f[3]]
    if not lib:
        inner = pick["frames"][0][0] if pick["frames"] else "?"
        return "%s:outside-libxalan via %s" % (rep["kind"].replace(" ", "-"), inner), []
    inner = lib[0][0]
    site = None
    for f in lib:
        if "/Include/" not in f[1] and "/PlatformSupport/XalanDOMStringHashTable" not in f[1]:
            site = f[0]
            break
    site = site or inner
    fns = []
    for s in accs:
        for f in s["frames"]:
            if "libxalan-c" in f[3] and f[0] not in fns:
                fns.append(f[0])
    return "%s:%s via %s" % (rep["kind"].replace(" ", "-"), site, inner), fns


def entirely_outside(rep):
    """no frame of any access stack is in instrumented code (libxalan-c or the harness)"""
    for s in rep["stacks"]:
        if re.match(r"(Previous )?(atomic )?(read|write)", s["header"], re.I):
            for f in s["frames"]:
                if "libxalan-c" in f[3] or "c07_threads" in f[3]:
                    return False
    return True


# ---------------------------------------------------------------------------------------------- running the harness

def run_harness(exe, lines, workdir, tsan, tag):
    env = dict(os.environ)
    if tsan:
        opts = "halt_on_error=0 exitcode=0 report_signal_unsafe=0 history_size=7 second_deadlock_stack=1"
        supp = os.path.join(common.ROOT, "harness", "c07_tsan.supp")
        if os.path.exists(supp):
            opts += " suppressions=" + supp
        env["TSAN_OPTIONS"] = opts
    req = os.path.join(workdir, "req_%s.txt" % tag)
    with open(req, "w") as f:
        f.write("\n".join(lines) + "\n")
    try:
        p = subprocess.run([exe, workdir], stdin=open(req), stdout=subprocess.PIPE, stderr=subprocess.PIPE, env=env,
                           timeout=TIMEOUT, cwd=workdir)
        out, err, rc = p.stdout.decode("utf-8", "replace"), p.stderr.decode("utf-8", "replace"), p.returncode
    except subprocess.TimeoutExpired as e:
        out = (e.stdout or b"").decode("utf-8", "replace")
        err = (e.stderr or b"").decode("utf-8", "replace") + "\nTIMEOUT"
        rc = -999
    return out.split("\n"), err, rc


def run_control(exe, lines, workdir, tag):
    """negative control: stop at the first report (a real race may corrupt the structure and hang)"""
    env = dict(os.environ)
    env["TSAN_OPTIONS"] = "halt_on_error=1 exitcode=66 report_signal_unsafe=0 history_size=5"
    req = os.path.join(workdir, "req_%s.txt" % tag)
    with open(req, "w") as f:
        f.write("\n".join(lines) + "\n")
    try:
        p = subprocess.run([exe, workdir], stdin=open(req), stdout=subprocess.PIPE, stderr=subprocess.PIPE, env=env,
                           timeout=120, cwd=workdir)
        return p.stderr.decode("utf-8", "replace"), p.returncode
    except subprocess.TimeoutExpired as e:
        return (e.stderr or b"").decode("utf-8", "replace") + "\nTIMEOUT", -999


def model_lines(ctx, exe, lines):
    p = subprocess.run([exe], input=("\n".join(lines) + "\n").encode(), stdout=subprocess.PIPE, stderr=subprocess.PIPE, timeout=120)
    return p.stdout.decode("utf-8", "replace").split("\n")


RUN_JOB = re.compile(r"^(\S+?)=(-?\d+):([0-9a-f]+):(\d+):(\d+)/(\d+)$")


def parse_run(line):
    """run <label> jobs=<n> <job>=rc:hash:len:eq/total ... [DIFF ...]"""
    t = line.split(" ")
    if len(t) < 3 or t[0] != "run" or not t[2].startswith("jobs="):
        return None
    jobs = []
    diff = ""
    probe = None
    if "PROBE" in t:
        k = t.index("PROBE")
        kv = dict(x.split("=", 1) for x in t[k + 1:] if "=" in x)
        probe = {"allowed": int(kv.get("allowed", "0")), "bad": int(kv.get("bad", "0")), "first": kv.get("first", "")}
        t = t[:k]
    for i, w in enumerate(t[3:]):
        if w == "DIFF":
            diff = " ".join(t[3 + i:])
            break
        m = RUN_JOB.match(w)
        if m:
            jobs.append({"job": m.group(1), "rc": int(m.group(2)), "hash": m.group(3), "len": int(m.group(4)),
                         "equal": int(m.group(5)), "total": int(m.group(6))})
    return {"label": t[1], "jobs": jobs, "diff": diff, "probe": probe}


# ---------------------------------------------------------------------------------------------- the cases

def write_case_files(workdir, r, nsheets, nsources):
    """-> (sheets: {id: {facilities, path}}, sources: {id: {mode, path, flavour}})"""
    os.makedirs(workdir, exist_ok=True)
    open(os.path.join(workdir, "aux.xml"), "w", encoding="utf-8").write(gen.AUX)
    open(os.path.join(workdir, "imported.xsl"), "w", encoding="utf-8").write(gen.IMPORTED)
    sheets, sources = {}, {}
    for i, c in enumerate(gen.CORPUS):
        sid = "c%d" % i
        p = os.path.join(workdir, "%s.xsl" % sid)
        open(p, "w", encoding="utf-8").write(c["sheet"])
        sheets[sid] = {"facilities": ["corpus:" + c["name"]], "path": p, "corpus": c}
    for i in range(nsheets):
        fac = gen.pick_facilities(r)
        sid = "s%d" % i
        p = os.path.join(workdir, "%s.xsl" % sid)
        open(p, "w", encoding="utf-8").write(gen.stylesheet(r, fac))
        sheets[sid] = {"facilities": fac, "path": p}
    # every facility alone (systematic part: each is met cold, by itself, on every kind of source, in every run)
    for i, f in enumerate(gen.FACILITIES + gen.ERROR_FACILITIES):
        sid = "f%d" % i
        p = os.path.join(workdir, "%s.xsl" % sid)
        open(p, "w", encoding="utf-8").write(gen.stylesheet(r, [f]))
        sheets[sid] = {"facilities": [f], "path": p, "single": True}
    flavours = {}
    p = os.path.join(workdir, "bare0.xml")
    open(p, "w", encoding="utf-8").write(gen.BARE)
    flavours["bare0"] = ("bare", p)
    for i in range(nsources):
        for fl in ("ids", "plain"):
            name = "%s%d" % (fl, i)
            p = os.path.join(workdir, name + ".xml")
            txt = gen.source_with_ids(r, r.range(3, 7)) if fl == "ids" else gen.source_plain(r, r.range(3, 7))
            open(p, "w", encoding="utf-8").write(txt)
            flavours[name] = (fl, p)
    for name, (fl, p) in flavours.items():
        for mode in SAFE_MODES + CONTROL_MODES:
            sources["%s.%s" % (name, mode)] = {"mode": mode, "path": p, "flavour": fl}
    return sheets, sources


def decl_lines(sheets, sources, used_sheets, used_sources):
    ls = []
    for s in sorted(used_sheets):
        ls.append("sheet %s %s" % (s, sheets[s]["path"]))
    for s in sorted(used_sources):
        ls.append("source %s %s %s" % (s, sources[s]["mode"], sources[s]["path"]))
    return ls


def read_text(p):
    try:
        return open(p, encoding="utf-8").read()
    except OSError:
        return ""


def case_input(sheets, sources, run_line, jobs, workdir):
    """everything needed to replay a run: the files' text and the request line"""
    files = {"aux.xml": gen.AUX, "imported.xsl": gen.IMPORTED}
    decl = []
    for j in jobs:
        s, d, _ = j.split(":")
        files[os.path.basename(sheets[s]["path"])] = read_text(sheets[s]["path"])
        files[os.path.basename(sources[d]["path"])] = read_text(sources[d]["path"])
        decl.append("sheet %s %s" % (s, os.path.basename(sheets[s]["path"])))
        decl.append("source %s %s %s" % (d, sources[d]["mode"], os.path.basename(sources[d]["path"])))
    return {"files": files, "requests": sorted(set(decl)) + [run_line],
            "facilities": {j: sheets[j.split(":")[0]]["facilities"] for j in jobs}}


def run(ctx):
    ctx.rule = ("a case = one (stylesheet, source, sharing kind) job executed by N threads in one `run` over cold shared "
                "objects; non-trivial = the job's stylesheet uses at least one lazily initialised facility (keys, xsl:number, "
                "document(), format-number, sort, id(), variables/RTF, imports, attribute sets) and all threads completed it; "
                "distinct = distinct (facility set, stylesheet text hash, source flavour, mode, kind)")
    ctx.trusted += [
        "translate/c07_share.py (regex inventory of write channels; completeness not proved)",
        "XalanModel/C07/Guards.lean classification of every channel (C++ facts, validated by the TSan runs)",
        "harness/c07_threads.cpp + checks/c07.py + gen/c07_gen.py; ThreadSanitizer (gcc 12 libtsan) as race oracle",
        "modelled, not verified: the C++ memory model; Xerces-C and ICU internals (not instrumented: races wholly inside "
        "them are invisible; reports with no frame in instrumented code are counted, not failed)",
    ]
    ctx.assumptions += [
        "initialize()/terminate() and the global install*/uninstall* calls are not made while transformations run (documented)",
        "each thread uses its own XalanTransformer (documented)",
        "Xerces-backed parsed sources are wrapped in thread-safe mode (XercesDOMWrapperParsedSource) — the property's quantifier",
    ]
    tsan_bd = ctx.build("tsan")
    ctx.build("hooks")
    ctx.translate("c07_share")
    if ctx.thorough:
        # AST-level cross-check of the regex inventory (clang++-14 JSON AST of every reachable class: mutable fields,
        # const_cast expressions and static locals in its member functions)
        rc, out = common.sh([os.sys.executable, os.path.join(common.ROOT, "translate", "_c07_ast.py")], cwd=common.ROOT, timeout=3000)
        ctx.oblige("translator cross-check: clang AST agrees with the regex table on mutable members, const_casts and static "
                   "locals of every reachable class", "translator", rc == 0, out[-3000:])
        ctx.extra["ast_crosscheck"] = out.strip().split("\n")[0][:200]
        ctx.checker_cmds.append("python3 translate/_c07_ast.py")
    ctx.lean("XalanModel.Props.C07", THEOREMS, extra_targets=["xm_c07"])
    model = ctx.exe("xm_c07")
    h_tsan = common.build_harness("c07_threads", ["c07_threads.cpp"], flavor="tsan", extra=HARNESS_EXTRA)
    h_plain = common.build_harness("c07_threads", ["c07_threads.cpp"], flavor="hooks", sanitize=False, extra=HARNESS_EXTRA)
    work = os.path.join(common.CACHE, "work", "c07_%s_%d" % (ctx.tier, ctx.seed))
    shutil.rmtree(work, ignore_errors=True)
    os.makedirs(work, exist_ok=True)
    if model is None:
        return

    # ---- model side: self test, predictions
    ml = model_lines(ctx, model, ["selftest"] + ["predict " + m for m in SAFE_MODES + ["as-is"] + CONTROL_MODES])
    ctx.oblige("model selftest: every table key is the encoding of its kind|scope|name, no unlisted entry", "correspondence",
               ml[0].startswith("selftest ok") and ml[0].endswith("unlisted=0"), ml[0])
    pred = {}
    for m, l in zip(SAFE_MODES + ["as-is"] + CONTROL_MODES, ml[1:]):
        t = l.split(" ")
        pred[m] = {"safe": len(t) > 2 and t[2] == "safe", "funcs": t[4:] if len(t) > 3 and t[2] == "racy" else []}
    ctx.extra["model_predictions"] = {m: ("safe" if p["safe"] else "racy in " + ",".join(p["funcs"][:6])) for m, p in pred.items()}
    for m in SAFE_MODES:
        ctx.oblige("model predicts no unsynchronised shared write in mode %s" % m, "correspondence", pred[m]["safe"], str(pred[m]))

    r = Rng(ctx.seed)
    # executable model: random interleavings of the read-only demo machine give every thread its sequential output
    sims = []
    for _ in range(25):
        n = r.range(2, 5)
        sims.append("sim %d %d %s" % (n, r.range(3, 9), " ".join(str(r.below(n)) for _ in range(r.range(4, 30)))))
    sl = model_lines(ctx, model, sims)
    oksim = all(l.startswith("sim ") and l[4:].split(" | ")[0] == l[4:].split(" | ")[-1] and " | " in l for l in sl[:len(sims)])
    ctx.oblige("model executable: interleaved run = sequential run on generated schedules (xm_c07 sim)", "correspondence", oksim, str(sl[:2]))
    if ctx.thorough:
        nsheets, nsources, nthreads, rounds, nruns = 400, 4, 12, 2, 1100
    else:
        nsheets, nsources, nthreads, rounds, nruns = 60, 2, 8, 2, 90
    sheets, sources = write_case_files(work, r, nsheets, nsources)

    # ---- check that every stylesheet compiles and every source parses (in the plain build)
    safe_sources = [s for s in sources if sources[s]["mode"] in SAFE_MODES]
    out, err, rc = run_harness(h_plain, decl_lines(sheets, sources, sheets.keys(), safe_sources), work, False, "decl")
    bad = [l for l in out if l and not l.endswith(" ok")]
    ctx.oblige("generator: every generated stylesheet compiles and every source parses", "machinery", not bad and rc == 0,
               "\n".join(bad[:5]) + err[-500:])

    # ---- the runs
    runs = []      # (label, jobs)
    # corpus first: each corpus stylesheet with its own source/mode/kind
    for sid, sh in sheets.items():
        c = sh.get("corpus")
        if c:
            src = "%s0.%s" % (c["source"], c["mode"])
            runs.append(("k_" + sid, ["%s:%s:%s" % (sid, src, c["kind"])]))
    for sid, sh in sheets.items():
        if sh.get("single"):
            runs.append(("f_" + sid, ["%s:%s0.%s:b" % (sid, fl, m) for fl in ("ids", "plain", "bare") for m in SAFE_MODES
                                      if not (fl == "ids" and m == "xerces-ts-setid")]))
            runs.append(("Cf_" + sid, ["%s:ids0.default:b" % sid, "%s:bare0.xerces-default:b" % sid, "%s:plain0.xerces-ts:b" % sid]))
    gsheets = [s for s in sheets if s.startswith("s")]
    for i in range(nruns):
        nj = r.range(1, 4)
        jobs = []
        for _ in range(nj):
            s = r.choice(gsheets)
            d = r.choice(safe_sources)
            k = r.weighted([("b", 6), ("s", 2), ("d", 2)])
            jobs.append("%s:%s:%s" % (s, d, k))
        runs.append((("Cr%d" if i % 2 else "r%d") % i, jobs))

    def run_line(label, jobs, nt, rd):
        # labels starting with "C": every transformer gets a private configuration (own extension function, parameter,
        # listeners, resolver, error handler) -- see the harness
        return "run %s %d %d %d %s%s" % (label, nt, rd, ctx.seed, "+cfg " if label.startswith("C") else "", " ".join(jobs))

    def xl(label):
        return "Cx" if label.startswith("C") else "x"

    def exec_runs(exe, tsan, runs, nt, rd, tag):
        """one harness process per chunk of runs (so that a TSan report can be attributed to a chunk cheaply)"""
        chunk = 6

        def one(a):
            part = runs[a:a + chunk]
            us = set(j.split(":")[0] for _, js in part for j in js)
            ud = set(j.split(":")[1] for _, js in part for j in js)
            lines = decl_lines(sheets, sources, us, ud) + [run_line(l, js, nt, rd) for l, js in part]
            out, err, rc = run_harness(exe, lines, work, tsan, "%s_%d" % (tag, a))
            parsed = {}
            for l in out:
                pr = parse_run(l) if l.startswith("run ") else None
                if pr:
                    parsed[pr["label"]] = pr
                elif l.startswith("run "):
                    parsed[l.split(" ")[1]] = {"label": l.split(" ")[1], "jobs": [], "diff": l}
            return {"runs": part, "parsed": parsed, "err": err, "rc": rc}
        # the chunks are independent processes: run a few at a time (each uses `nt` threads; more contention = more interleavings)
        from concurrent.futures import ThreadPoolExecutor
        with ThreadPoolExecutor(max_workers=max(1, min(4, common.NPROC // max(1, nt) + 1))) as ex:
            return list(ex.map(one, range(0, len(runs), chunk)))

    def single_job_reports(job, nt, rd, tag, label="x"):
        s, d, _ = job.split(":")
        lines = decl_lines(sheets, sources, [s], [d]) + [run_line(xl(label), [job], nt, rd)]
        out, err, rc = run_harness(h_tsan, lines, work, True, tag)
        return parse_reports(err), out, err, rc

    seen_keys = {}
    outside = 0
    ok_outputs = True

    def judge(chunks, tsan, nt, rd, tag):
        nonlocal outside, ok_outputs
        for ch in chunks:
            reps = parse_reports(ch["err"]) if tsan else []
            crashed = ch["rc"] != 0
            for label, jobs in ch["runs"]:
                pr = ch["parsed"].get(label)
                for j in jobs:
                    s, d, k = j.split(":")
                    fac = sheets[s]["facilities"]
                    jr = None
                    if pr:
                        for x in pr["jobs"]:
                            if x["job"] == j:
                                jr = x
                    done = jr is not None and jr["equal"] == jr["total"] and jr["total"] > 0
                    nontriv = done and any(not f.startswith("message") and f != "misc" for f in fac)
                    keyt = (",".join(sorted(fac)), hash(read_text(sheets[s]["path"])), sources[d]["flavour"], sources[d]["mode"], k, label.startswith("C"))
                    ctx.case(nontrivial_key=str(keyt) if nontriv else None,
                             sample={"facilities": fac, "source": sources[d]["flavour"], "mode": sources[d]["mode"], "kind": k,
                                     "threads": nt, "sequential": "rc=%s len=%s" % (jr["rc"], jr["len"]) if jr else None} if len(ctx.samples) < 6 else None,
                             cls="%s/%s/%s%s" % (sources[d]["mode"], k, "tsan" if tsan else "plain", "/private-config" if label.startswith("C") else ""))
                    for f in fac:
                        ctx.hist["facility:" + f] = ctx.hist.get("facility:" + f, 0) + 1
                    if jr is not None and jr["rc"] != 0:
                        ctx.hist["sequential-error-result"] = ctx.hist.get("sequential-error-result", 0) + 1
                    if jr is not None and jr["equal"] != jr["total"]:
                        ok_outputs = False
                        inp = case_input(sheets, sources, run_line(label, [j], nt, rd), [j], work)
                        seq = read_text(os.path.join(work, label + ".seq.out"))[:1500]
                        thr = read_text(os.path.join(work, label + ".thr.out"))[:1500]
                        ctx.fail("diff:%s:%s:%s facilities=%s" % (sources[d]["mode"], sources[d]["flavour"], k, ",".join(sorted(fac))),
                                 "a thread's output differs from the sequential output (%d/%d equal): %s\n--- sequential\n%s\n--- thread\n%s" % (
                                     jr["equal"], jr["total"], pr["diff"], seq, thr), inp, build="tsan" if tsan else "plain")
                if pr and pr.get("probe"):
                    ctx.hist["probe:allocations-under-pool-mutex"] = ctx.hist.get("probe:allocations-under-pool-mutex", 0) + pr["probe"]["allowed"]
                    ctx.hist["probe:runs"] = ctx.hist.get("probe:runs", 0) + 1
                if pr and pr.get("probe") and pr["probe"]["bad"] > 0:
                    # something allocated inside a shared object while the threads ran: find one job that does it
                    first = pr["probe"]["first"]
                    site = first.split(":", 1)[-1].split(";")
                    inner = site[0] if site else "?"
                    outer = next((x for x in site if not re.match(r"(Xalan(MemMgr|Allocat|Construct)|ArenaAllocator|ArenaBlock|ReusableArena|Xalan(Vector|List|Map|Deque)|MemoryManaged)", x.split("::")[0])), inner)
                    culpritj = None
                    for j in jobs:
                        s, d, _ = j.split(":")
                        lines = decl_lines(sheets, sources, [s], [d]) + [run_line(xl(label), [j], nt, rd)]
                        o2, e2, rc2 = run_harness(h_plain, lines, work, False, tag + "_probe")
                        p2 = next((parse_run(l) for l in o2 if l.startswith("run ")), None)
                        if p2 and p2.get("probe") and p2["probe"]["bad"] > 0:
                            culpritj = (j, p2["probe"])
                            break
                    js = [culpritj[0]] if culpritj else jobs
                    modes = sorted(set(sources[j.split(":")[1]]["mode"] for j in js))
                    key = "alloc-in-shared:%s via %s mode=%s" % (outer, inner, "+".join(modes))
                    if key not in seen_keys:
                        seen_keys[key] = {"count": 1}
                        ctx.fail(key, "allocation probe: %d allocation(s)/deallocation(s) inside a SHARED object (compiled stylesheet / parsed source, "
                                      "built on the probe MemoryManager) while the threads were transforming, not under the string-pool mutex; "
                                      "first stack (library frames, innermost first): %s" % (pr["probe"]["bad"], first),
                                 case_input(sheets, sources, run_line(xl(label), js, nt, rd), js, work), build="tsan" if tsan else "plain")
                if pr is None or (pr and not pr["jobs"]):
                    if not crashed:
                        ctx.oblige("harness completed run %s" % label, "machinery", False, str(pr) + ch["err"][-800:])
            if crashed:
                # crash / timeout / sanitizer abort: find a single job that reproduces it
                culprit = None
                for label, jobs in ch["runs"]:
                    for j in jobs:
                        s, d, _ = j.split(":")
                        lines = decl_lines(sheets, sources, [s], [d]) + [run_line(xl(label), [j], nt, rd)]
                        o2, e2, rc2 = run_harness(h_tsan if tsan else h_plain, lines, work, tsan, tag + "_crash")
                        if rc2 != 0:
                            culprit = (j, e2, rc2, label)
                            break
                    if culprit:
                        break
                if culprit:
                    j, e2, rc2, _lab = culprit
                    s, d, k = j.split(":")
                    ctx.fail("crash:%s:%s:%s facilities=%s" % (sources[d]["mode"], sources[d]["flavour"], k, ",".join(sorted(sheets[s]["facilities"]))),
                             "harness died (rc=%s) while %d threads shared the objects: %s" % (rc2, nt, e2[-1500:]),
                             case_input(sheets, sources, run_line(xl(culprit[3]), [j], nt, rd), [j], work), build="tsan" if tsan else "plain")
                else:
                    ctx.oblige("harness exits cleanly (chunk %s)" % ch["runs"][0][0], "machinery", False, "rc=%s %s" % (ch["rc"], ch["err"][-1500:]))
            if not reps:
                continue
            # attribute every distinct report key to a single job if possible (shrink), else to the chunk
            keys = {}
            for rep in reps:
                if entirely_outside(rep):
                    outside += 1
                    continue
                k, fns = report_key(rep)
                keys.setdefault(k, (rep, fns))
            for k, (rep, fns) in keys.items():
                if k in seen_keys:
                    seen_keys[k]["count"] += 1
                    continue
                found = None
                # shrinking costs one harness run per job: do it for the first few distinct reports only
                for label, jobs in (ch["runs"] if len(seen_keys) < 3 else []):
                    for j in jobs:
                        reps2, o2, e2, rc2 = single_job_reports(j, nt, rd, tag + "_shrink", label)
                        for r2 in reps2:
                            if report_key(r2)[0] == k:
                                found = (label, j, r2)
                                break
                        if found:
                            break
                    if found:
                        break
                modes = sorted(set(sources[j.split(":")[1]]["mode"] for _, js in ch["runs"] for j in js))
                if found:
                    label, j, r2 = found
                    inp = case_input(sheets, sources, run_line(xl(label), [j], nt, rd), [j], work)
                    rep = r2
                    modes = [sources[j.split(":")[1]]["mode"]]
                else:
                    alljobs = [j for _, js in ch["runs"] for j in js]
                    inp = case_input(sheets, sources, "\n".join(run_line(l, js, nt, rd) for l, js in ch["runs"]), alljobs, work)
                # what does the model say about the functions on the stacks?
                tl = model_lines(ctx, model, ["touch " + f for f in fns[:12]])
                known_to_model = [l for l in tl if l.startswith("touch ") and not l.startswith("touch 0")]
                seen_keys[k] = {"count": 1}
                ctx.fail(k + " mode=" + "+".join(modes), "ThreadSanitizer: %s while threads shared a compiled stylesheet / parsed source in a mode the model "
                            "calls safe. model on the stack's functions: %s\n%s" % (rep["kind"], "; ".join(known_to_model)[:600] or "no table entry mentions them", rep["raw"][:3500]),
                         inp, build="tsan", report=rep["raw"][:6000])

    import time as _time
    _t0 = _time.time()
    chunks = exec_runs(h_tsan, True, runs, nthreads, rounds, "tsan")
    judge(chunks, True, nthreads, rounds, "tsan")
    ctx.extra["seconds_tsan_runs"] = round(_time.time() - _t0, 1)
    _t0 = _time.time()
    # the same runs against the normal build, more threads and rounds, outputs only
    chunks2 = exec_runs(h_plain, False, runs, nthreads * 2, rounds * (4 if ctx.thorough else 2), "plain")
    judge(chunks2, False, nthreads * 2, rounds * (4 if ctx.thorough else 2), "plain")
    ctx.extra["seconds_plain_runs"] = round(_time.time() - _t0, 1)
    ctx.extra["seconds_before_runs"] = round(_t0 - ctx.t0 - ctx.extra["seconds_tsan_runs"], 1)
    ctx.extra["tsan_reports_outside_instrumented_code"] = outside
    ctx.extra["tsan_distinct_report_keys"] = sorted(seen_keys)

    # ---- negative controls: the model says these modes race; the detector must say so too, in the predicted functions
    ctl_sheet = os.path.join(work, "ctl.xsl")
    open(ctl_sheet, "w").write('<xsl:stylesheet version="1.0" %s><xsl:template match="/"><o><xsl:for-each select="//item">'
                               '<xsl:value-of select="@k"/><xsl:value-of select="name(..)"/></xsl:for-each></o></xsl:template></xsl:stylesheet>\n' % gen.XSL)
    some_ids = [s for s in sources if sources[s]["flavour"] == "ids"][0].split(".")[0]
    for mode in CONTROL_MODES:
        hit = None
        reports_seen = 0
        for attempt in range(4):
            lines = ["sheet ctl %s" % ctl_sheet, "source n %s %s" % (mode, sources[some_ids + "." + mode]["path"]),
                     "run ctl 8 2 %d ctl:n:b" % (ctx.seed + attempt)]
            err, rc = run_control(h_tsan, lines, work, "ctl_" + mode)
            reps = parse_reports(err)
            reports_seen += len(reps)
            for rep in reps:
                k, fns = report_key(rep)
                if set(fns) & set(pred[mode]["funcs"]):
                    hit = k
                    break
            if hit:
                break
        ctx.case(nontrivial_key="control:" + mode if hit else None, cls="control/" + mode)
        ctx.oblige("negative control %s: model predicts a race, ThreadSanitizer reports one in a predicted function" % mode,
                   "correspondence", (not pred[mode]["safe"]) and hit is not None,
                   "model=%s reports=%d hit=%s" % (pred[mode], reports_seen, hit))
        ctx.extra.setdefault("controls", {})[mode] = hit

    ctx.oblige("correspondence: every thread's output equals the sequential output on every run (TSan build and normal build)",
               "correspondence", ok_outputs, "")
    ctx.exhaustive = False


def replay(ctx, path):
    d = json.load(open(path))
    first = d.get("first")
    if not first:
        print("replay file names broken obligations only:", [o["name"] for o in d.get("broken_obligations", [])])
        return 1
    inp = first["input"]
    ctx.build("tsan")
    h_tsan = common.build_harness("c07_threads", ["c07_threads.cpp"], flavor="tsan", extra=HARNESS_EXTRA)
    work = os.path.join(common.CACHE, "work", "c07_replay")
    shutil.rmtree(work, ignore_errors=True)
    os.makedirs(work, exist_ok=True)
    for name, txt in inp["files"].items():
        open(os.path.join(work, name), "w", encoding="utf-8").write(txt)
    lines = []
    for l in inp["requests"]:
        t = l.split(" ")
        if t[0] in ("sheet", "source"):
            t[-1] = os.path.join(work, os.path.basename(t[-1]))
        lines.append(" ".join(t))
    out, err, rc = run_harness(h_tsan, lines, work, True, "replay")
    reps = parse_reports(err)
    print("\n".join(l for l in out if l))
    print("ThreadSanitizer reports: %d" % len(reps))
    for rep in reps[:3]:
        print(report_key(rep)[0])
        print(rep["raw"][:2500])
    bad = bool(reps) or rc != 0 or any(" DIFF " in l for l in out)
    print("replay:", "property violated" if bad else "no violation reproduced")
    return 1 if bad else 0
