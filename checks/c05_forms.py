"""C05 real-API product run (used by checks/c05.py): the same (document, stylesheet) through every supported
combination of source form x stylesheet form x result target x API layer, results compared pairwise.

harness/c05_forms.cpp does the C++ and C API combinations in-process; this module adds the command-line program
(`Xalan`) and decides.  Comparison rule per case:
  * return codes: all combinations succeed or all fail (CLI exit status normalised to ok/fail);
  * byte targets (file, FILE*, ostream, callback, callback behind a Writer with buffer 1 / 7, C-API file / data /
    handler, CLI -o / stdout): identical bytes;
  * tree targets (FormatterToXercesDOM, FormatterToSourceTree): canonical dump identical to the canonical dump of the
    re-parsed bytes (method xml, no indent);
  * documents with CDATA sections / entity references are not given as a DOM (quantifier of C05).
"""
import hashlib
import json
import os
import shutil
import subprocess
import threading

from vlib import common

FNV_OFF, FNV_P = 1469598103934665603, 1099511628211


def fnv(b):
    h = FNV_OFF
    for c in b:
        h = ((h ^ c) * FNV_P) & 0xFFFFFFFFFFFFFFFF
    return "%x" % h


def workdir(seed):
    d = os.path.join(common.CACHE, "work", "c05_forms_%d" % seed)
    shutil.rmtree(d, ignore_errors=True)
    os.makedirs(d)
    return d


def write_case(d, c):
    os.makedirs(d, exist_ok=True)
    with open(os.path.join(d, "src.xml"), "w", encoding="utf-8") as f:
        f.write(c["xml"])
    with open(os.path.join(d, "style.xsl"), "w", encoding="utf-8") as f:
        f.write(c["xsl"])
    if c.get("other_xsl"):
        with open(os.path.join(d, "other.xsl"), "w", encoding="utf-8") as f:
            f.write(c["other_xsl"])
    if c.get("rel_xml"):
        with open(os.path.join(d, "rel.xml"), "w", encoding="utf-8") as f:
            f.write(c["rel_xml"])
    op = os.path.join(d, "opts.txt")
    if c.get("opts"):
        with open(op, "w") as f:
            f.write("".join("%s %s\n" % (k, v) for k, v in c["opts"]))
    elif os.path.exists(op):
        os.unlink(op)
    pp = os.path.join(d, "params.txt")
    if c.get("params"):
        with open(pp, "w") as f:
            f.write("".join("%s %s\n" % (k, v) for k, v in c["params"]))
    elif os.path.exists(pp):
        os.unlink(pp)


def harness_line(d, c, lazy=True):
    # text output with a non-BMP character behind a 1- or 7-unit stream buffer hits known finding C05-text-surrogate-split
    # (runaway allocation): exercise it once per case, not in every combination
    once = " once=cb1 once=cb7" if "method=text" in c.get("out", "") and "\U0001f600" in c["xml"] else ""
    return "case %s %s%s%s%s" % (d, "xml" if c["mode"] in ("xml", "xml16") and not c.get("notree") else "bytes", " lazy" if lazy and not c.get("nodom") else "",
                                 " nodom" if c.get("nodom") else "", once)


def _limits():
    import resource
    # a runaway allocation must fail fast instead of eating the machine
    resource.setrlimit(resource.RLIMIT_AS, (1 << 30, 1 << 30))


def run_harness(harness, lines, verbose=False, timeout=900):
    """returns (blocks, rc, stderr tail).  A crash/timeout ends the block list early."""
    env = dict(os.environ)
    if verbose:
        env["C05_VERBOSE"] = "1"
    try:
        p = subprocess.run([harness], input=("\n".join(lines) + "\n").encode(), stdout=subprocess.PIPE, stderr=subprocess.PIPE,
                           timeout=timeout, env=env, preexec_fn=_limits)
        so, se, rc = p.stdout, p.stderr, p.returncode
    except subprocess.TimeoutExpired as e:
        so, se, rc = e.stdout or b"", e.stderr or b"", -999
    out = so.decode("utf-8", "replace").split("\n")
    blocks, cur = [], []
    for ln in out:
        if ln == "end":
            blocks.append(cur)
            cur = []
        elif ln:
            cur.append(ln)
    err = se.decode("utf-8", "replace")
    last = [ln for ln in err.split("\n") if ln.startswith("@ ")]
    return blocks, rc, (last[-1] if last else "") + " | " + err[-300:].replace("\n", " ")


def run_cases_robust(harness, items, crashes):
    """items: list of (dir, case).  Runs them in one process; when the process dies on a case, records the crash
    (combination from the harness' stderr), re-runs that case without the crashing target (up to 4 times) and continues.
    Returns {dir: block}."""
    res = {}
    todo = list(items)
    skips = {}
    guard = 0
    while todo and guard < 200:
        guard += 1
        lines = [harness_line(d, c) + "".join(" skip=" + t for t in skips.get(d, [])) for d, c in todo]
        blocks, rc, err = run_harness(harness, lines, timeout=120 + 20 * len(todo))
        for (d, c), b in zip(todo, blocks):
            res[d] = b
        if len(blocks) >= len(todo):
            break
        d, c = todo[len(blocks)]
        where = err.split(" | ")[0].split(" ")
        target = where[-1] if len(where) >= 5 else "?"
        combo = "/".join(where[2:]) if len(where) >= 5 else "?"
        crashes.setdefault(d, []).append((combo, rc, err[-200:]))
        if target != "?" and len(skips.get(d, [])) < 4:
            skips.setdefault(d, []).append(target)
            todo = todo[len(blocks):]
        else:
            res[d] = []
            todo = todo[len(blocks) + 1:]
    return res


CLI_OPT = {"indent": lambda v: ["-i", str(v)], "encoding": lambda v: ["-e", str(v)], "noescape": lambda v: ["-u"],
           "omitmeta": lambda v: ["-m"], "validate": lambda v: ["-v"]}


def run_cli(xalan, d, params=(), opts=()):
    """the command-line program: file/stdin source x file/stdin/PI stylesheet x -o file / stdout"""
    res = []
    crashed = []
    src, xsl, out = os.path.join(d, "src.xml"), os.path.join(d, "style.xsl"), os.path.join(d, "cli.out")

    def go(tag, args, stdin=None, outfile=None, want_tree=False):
        if outfile and os.path.exists(outfile):
            os.unlink(outfile)
        try:
            pargs = []
            for k, v in opts:
                pargs += CLI_OPT[k](v)      # the command line's own way of setting the option
            for k, v in params:
                pargs += ["-p", k, v]
            p = subprocess.run([xalan] + pargs + args, stdin=open(stdin, "rb") if stdin else subprocess.DEVNULL,
                               stdout=subprocess.PIPE, stderr=subprocess.PIPE, timeout=120, preexec_fn=_limits)
            rc = p.returncode
            data = p.stdout
            if outfile:
                data = open(outfile, "rb").read() if os.path.exists(outfile) else b""
        except subprocess.TimeoutExpired:
            rc, data = -999, b""
        if rc < 0 or rc in (134, 139):
            crashed.append(("cli/" + "/".join(tag), rc, ""))
            return
        res.append(("cli", tag[0], tag[1], tag[2], 0 if rc == 0 else -1, "B:%d:%s" % (len(data), fnv(data)), data))
    go(("file", "is", "file"), ["-o", out, src, xsl], outfile=out)
    go(("file", "is", "stdout"), [src, xsl])
    go(("stdin", "is", "stdout"), ["-", xsl], stdin=src)
    go(("file", "stdin", "stdout"), [src, "-"], stdin=xsl)
    go(("file", "pi", "stdout"), ["-a", src])
    go(("file", "pi", "file"), ["-a", "-o", out, src], outfile=out)
    go(("file", "is-timing", "stdout"), ["-t", src, xsl])
    return res, crashed


def parse_block(block):
    rows, tdig, notes = [], None, []
    for ln in block:
        t = ln.split(" ")
        if t[0] == "r" and len(t) >= 7:
            rows.append((t[1], t[2], t[3], t[4], int(t[5]), t[6], None))
        elif t[0] == "t":
            tdig = t[1] if len(t) == 2 else "unparsable"
            if len(t) > 2:
                notes.append(ln)
        elif not ln.startswith("  "):
            notes.append(ln)
    return rows, tdig, notes


def decide(rows, tdig, mode, notree=False, needbase=False):
    if needbase:
        # the case observes the document's base URI (relative system identifiers of unparsed entities, document('x', /)):
        # forms that cannot carry one (C API XalanParseSourceFromStream, CLI reading the source from stdin) are left out
        rows = [x for x in rows if x[1] not in ("psstream", "stdin")]
    return _decide(rows, tdig, mode, notree)


def _decide(rows, tdig, mode, notree=False):
    """returns list of (kind, description, forms) problems.  rows: (api, source, ss, target, rc, digest, data)"""
    probs = []
    escaped = [x for x in rows if x[4] == -99]
    if escaped:
        probs.append(("crash", "an exception escaped from XalanTransformer::transform (not mapped to a status)",
                      sorted(set("/".join(x[:4]) for x in escaped))[:12]))
    rows = [x for x in rows if x[4] != -99]
    # `lazy` (non-indexed XercesDocumentWrapper, structural document order) is compared like every other DOM-backed form
    # since /repo commit a4f779f repaired DOMServices::isNodeAfter (DESIGN.md section 6 item 6)
    main = rows
    lazy = []
    oks = [x for x in main if x[4] == 0]
    bad = [x for x in main if x[4] != 0]
    if oks and bad:
        minority = bad if len(bad) <= len(oks) else oks
        probs.append(("rc", "return codes differ: %d succeed, %d fail" % (len(oks), len(bad)),
                      sorted(set("/".join(x[:4]) + "=%d" % x[4] for x in minority))[:12]))
    if not oks:
        return probs, None
    # byte targets.  Sources backed by a Xerces DOM deliver attribute nodes in the DOM's (name-sorted) order, the native
    # tree in document order; the XPath data model leaves that order to the implementation, so across the two families
    # the *canonical trees* of the byte results are compared (attributes sorted), inside a family the raw bytes.
    def fam(x):
        return "dom" if x[1] in ("psx", "wrap", "lazy") else "native"

    def raw(x):
        return ":".join(x[5].split(":")[:3])

    def can(x):
        t = x[5].split(":")
        return t[3] if len(t) > 3 else None
    ref = None
    refcan = None
    for f in ("native", "dom"):
        by = {}
        for x in oks:
            if x[5].startswith("B:") and fam(x) == f:
                if mode == "xml16" and x[3] == "data":
                    continue    # decided separately below
                by.setdefault(raw(x), []).append(x)
        if not by:
            continue
        fref = max(by.items(), key=lambda kv: len(kv[1]))
        if f == "native":
            ref = fref[0]
            refcan = can(fref[1][0])
        for dig, xs in by.items():
            if dig != fref[0]:
                probs.append(("bytes", "byte result differs from the majority of its source family (%s vs %s)" % (dig, fref[0]),
                              sorted(set("/".join(x[:4]) for x in xs))[:12]))
        if f == "dom" and ref is not None:
            if mode in ("xml", "xml16") and not notree:
                if can(fref[1][0]) != refcan:
                    probs.append(("bytes-canonical", "result of DOM-backed sources differs from the native ones after canonicalisation "
                                  "(%s vs %s)" % (can(fref[1][0]), refcan), sorted(set("/".join(x[:4]) for x in fref[1]))[:12]))
            elif fref[0] != ref:
                probs.append(("bytes", "byte result of DOM-backed sources differs from the native ones (%s vs %s)" % (fref[0], ref),
                              sorted(set("/".join(x[:4]) for x in fref[1]))[:12]))
    if mode == "xml16":
        for x in oks:
            if x[3] == "data" and raw(x) != ref:
                probs.append(("capi-data-nul", "XalanTransformToData result read back as a C string is truncated at the first zero byte "
                              "of the UTF-16 output (%s vs %s)" % (raw(x), ref), ["/".join(x[:4])]))
    # tree targets
    tr = {}
    for x in oks:
        if x[5].startswith("T:"):
            tr.setdefault(x[5][2:], []).append(x)
    if tr:
        if tdig is None or tdig == "unparsable":
            probs.append(("tree", "reference bytes could not be re-parsed for the tree comparison", []))
        else:
            for dig, xs in tr.items():
                if dig != tdig:
                    probs.append(("tree", "result tree differs from the re-parsed byte result (%s vs %s)" % (dig, tdig),
                                  sorted(set("/".join(x[:4]) for x in xs))[:12]))
    # the extra form: non-indexed Xerces wrapper
    for x in lazy:
        if x[4] != 0 or (x[5].startswith("B:") and refcan and can(x) != refcan and not (mode == "xml16" and x[3] == "data")) \
                or (x[5].startswith("B:") and not refcan and ref and raw(x) != ref) or (x[5].startswith("T:") and tdig and x[5][2:] != tdig):
            probs.append(("lazy", "non-indexed XercesDocumentWrapper source gives a different result", ["/".join(x[:4])]))
            break
    return probs, ref


def problems_of(harness, xalan, d, c):
    write_case(d, c)
    crashes = {}
    blocks = run_cases_robust(harness, [(d, c)], crashes)
    rows, tdig, notes = parse_block(blocks.get(d, []))
    crows, ccr = run_cli(xalan, d, c.get("params") or (), c.get("opts") or ())
    probs, _ = decide(rows + crows, tdig, c["mode"], c.get("notree", False), c.get("needbase", False))
    for combo, crc, err in crashes.get(d, []) + ccr:
        probs.append(("crash", "died", [combo]))
    return probs


def shrink_case(harness, xalan, d, c, kind, budget=40):
    """delete nodes of the source document (deepest/last first) while a problem of the same kind persists"""
    if "<!DOCTYPE" in c["xml"]:
        return c
    from xml.dom import minidom
    try:
        doc = minidom.parseString(c["xml"].encode("utf-8"))
    except Exception:
        return c
    best = dict(c)

    def nodes(n, acc):
        for ch in list(n.childNodes):
            if ch.nodeType == ch.ELEMENT_NODE:
                nodes(ch, acc)
            acc.append(ch)
        return acc
    root = doc.documentElement
    progress = True
    while progress and budget > 0:
        progress = False
        for nd in nodes(root, []):
            if budget <= 0:
                break
            parent = nd.parentNode
            if parent is None:
                continue
            nxt = nd.nextSibling
            parent.removeChild(nd)
            cand = dict(best)
            cand["xml"] = doc.toxml()
            budget -= 1
            if any(p[0] == kind for p in problems_of(harness, xalan, d, cand)):
                best = cand
                progress = True
            else:
                parent.insertBefore(nd, nxt)
    write_case(d, best)
    return best


def probe_order_sensitive(c):
    return any(p in ("union-order", "union-attr-ns", "preceding", "number-any", "keys", "sort", "last-first", "apply", "text-nodes")
               for p in c.get("probes", []))


CORPUS = [
    # §6 item 6 (cf. C12): union of an ancestor and its descendant on the non-indexed wrapper; UTF-16 through the C API
    {"xml": '<?xml version="1.0"?>\n<?xml-stylesheet type="text/xsl" href="file://@DIR@/style.xsl"?>\n'
            '<doc a="1"><x id="p">one<!--c--> two</x><y><x id="q">thrée</x></y><z/></doc>',
     "xsl": '<?xml version="1.0"?>\n<xsl:stylesheet version="1.0" xmlns:xsl="http://www.w3.org/1999/XSL/Transform">\n'
            '<xsl:key name="k" match="x" use="@id"/>\n<xsl:template match="/"><out><xsl:for-each select="//x | //z | //y">'
            '<n name="{name()}" p="{count(preceding::*)}"><xsl:number level="any" count="*"/><xsl:value-of select="."/></n>'
            '</xsl:for-each><k><xsl:value-of select="key(\'k\',\'q\')"/></k><xsl:comment>hi</xsl:comment></out></xsl:template>\n</xsl:stylesheet>\n',
     "mode": "xml", "cls": "corpus-order", "probes": ["union-order"], "nodom": False},
    {"xml": '<?xml version="1.0"?>\n<?xml-stylesheet type="text/xsl" href="file://@DIR@/style.xsl"?>\n<a>x</a>',
     "xsl": '<?xml version="1.0"?>\n<xsl:stylesheet version="1.0" xmlns:xsl="http://www.w3.org/1999/XSL/Transform">'
            '<xsl:output encoding="UTF-16"/><xsl:template match="/"><a/></xsl:template></xsl:stylesheet>\n',
     "mode": "xml16", "cls": "corpus-utf16", "probes": [], "nodom": False},
    # a document with a DOCTYPE given as a Xerces DOM: the DocumentType node is visible to node()
    {"xml": '<?xml version="1.0"?>\n<!DOCTYPE a [<!ATTLIST a x ID #IMPLIED>]>\n<?xml-stylesheet type="text/xsl" href="file://@DIR@/style.xsl"?>\n<a x="i">t</a>',
     "xsl": '<?xml version="1.0"?>\n<xsl:stylesheet version="1.0" xmlns:xsl="http://www.w3.org/1999/XSL/Transform">'
            '<xsl:template match="/"><c n="{count(/node())}" p="{count(/*/preceding-sibling::node())}" i="{name(id(\'i\'))}"/></xsl:template></xsl:stylesheet>\n',
     "mode": "xml", "cls": "corpus-doctype-node", "probes": [], "nodom": False},
    # DTD-declared ID / IDREF / IDREFS with forward references: id() must use ID attributes only, on every tree implementation
    {"xml": '<?xml version="1.0"?>\n<!DOCTYPE r [<!ATTLIST n x ID #IMPLIED ref IDREF #IMPLIED refs IDREFS #IMPLIED>]>\n'
            '<?xml-stylesheet type="text/xsl" href="file://@DIR@/style.xsl"?>\n<r><n ref="n1" refs="n2 n1">a</n><n x="n2">b</n><n x="n1" ref="n2">c</n></r>',
     "xsl": '<?xml version="1.0"?>\n<xsl:stylesheet version="1.0" xmlns:xsl="http://www.w3.org/1999/XSL/Transform">'
            '<xsl:template match="/"><o a="{id(\'n1\')}" b="{id(\'n2\')}" c="{count(id(\'n1 n2\'))}"><xsl:for-each select="id(//@refs)"><i><xsl:value-of select="."/></i></xsl:for-each></o>'
            '</xsl:template></xsl:stylesheet>\n',
     "mode": "xml", "cls": "corpus-idref", "probes": ["id-fn"], "nodom": False},
    # namespace axis: the implicit xml namespace node and in-scope declarations, on every tree implementation
    {"xml": '<?xml version="1.0"?>\n<?xml-stylesheet type="text/xsl" href="file://@DIR@/style.xsl"?>\n<a xmlns:p="urn:p"><b xmlns="urn:d"><p:c/></b><d/></a>',
     "xsl": '<?xml version="1.0"?>\n<xsl:stylesheet version="1.0" xmlns:xsl="http://www.w3.org/1999/XSL/Transform">'
            '<xsl:template match="/"><o x="{count(/*/namespace::xml)}" all="{count(//namespace::*)}"><xsl:for-each select="//*"><n t="{name()}" c="{count(namespace::*)}">'
            '<xsl:for-each select="namespace::*"><xsl:sort select="name()"/><ns p="{name()}" u="{.}"/></xsl:for-each></n></xsl:for-each></o></xsl:template></xsl:stylesheet>\n',
     "mode": "xml", "cls": "corpus-ns-axis", "probes": ["ns-axis"], "nodom": False},
    # xsl:output cdata-section-elements (and other lexical choices) must come out byte-identical for every stylesheet form
    {"xml": '<?xml version="1.0"?>\n<?xml-stylesheet type="text/xsl" href="file://@DIR@/style.xsl"?>\n<a><b>x &lt; y</b><b>]]&gt;</b></a>',
     "xsl": '<?xml version="1.0"?>\n<xsl:stylesheet version="1.0" xmlns:xsl="http://www.w3.org/1999/XSL/Transform">'
            '<xsl:output method="xml" cdata-section-elements="c" doctype-public="-//C05//DTD o//EN" doctype-system="o.dtd" standalone="no" '
            'media-type="text/xml" version="1.0" indent="no" omit-xml-declaration="no" encoding="ISO-8859-1"/>'
            '<xsl:template match="/"><o><xsl:for-each select="//b"><c>one &lt; two <xsl:value-of select="."/></c><d><xsl:value-of select="."/></d>'
            '</xsl:for-each></o></xsl:template></xsl:stylesheet>\n',
     "mode": "bytes", "cls": "corpus-output-lexical", "probes": [], "nodom": False, "out": "cdata-section-elements=c,doctype,standalone"},
    # white-space-only runs of 1, 63, 64, 65, 200 and 5000 characters under strip-space / preserve-space, epilog comment + PI
    {"xml": '<?xml version="1.0"?>\n<?xml-stylesheet type="text/xsl" href="file://@DIR@/style.xsl"?>\n<r>' +
            "".join("<a>\n%s<x/>%s</a><b>\n%s<x/></b>" % (" " * (n - 1), "\t" * n, " " * (n - 1)) for n in (1, 63, 64, 65, 200, 5000)) +
            '</r>\n<!--after--><?end pi?>',
     "xsl": '<?xml version="1.0"?>\n<xsl:stylesheet version="1.0" xmlns:xsl="http://www.w3.org/1999/XSL/Transform">'
            '<xsl:strip-space elements="*"/><xsl:preserve-space elements="b"/>'
            '<xsl:template match="/"><o l="{name(/node()[last()])}" c="{count(/node())}" fs="{count(/*/following-sibling::node())}" '
            'pc="{count(/node()[last()]/preceding-sibling::node())}"><xsl:for-each select="//a | //b"><n t="{name()}" c="{count(text())}" '
            'l="{string-length(text()[1])}" k="{count(node())}"/></xsl:for-each>'
            '<xsl:for-each select="/comment() | /processing-instruction() | /*"><k t="{name()}"><xsl:number level="any" count="comment()|processing-instruction()|*"/>:'
            '<xsl:number level="any" count="node()"/></k></xsl:for-each></o></xsl:template></xsl:stylesheet>\n',
     "mode": "xml", "cls": "corpus-ws-runs", "probes": ["ws-count", "doc-level"], "nodom": False},
    # UTF-16 output (wide writes through XalanOutputStream): ordinary text, then one raw run longer than the 512-unit
    # buffer of the ostream/callback streams but shorter than the 8192-unit buffer of the file streams
    {"xml": '<?xml version="1.0"?>\n<?xml-stylesheet type="text/xsl" href="file://@DIR@/style.xsl"?>\n<a>0123456789abcdefghijklmnopqrstuvwxyzABCDEFGHIJKLMNOPQRSTUVWXYZ-+</a>',
     "xsl": '<?xml version="1.0"?>\n<xsl:stylesheet version="1.0" xmlns:xsl="http://www.w3.org/1999/XSL/Transform">'
            '<xsl:output encoding="UTF-16"/><xsl:variable name="L" select="concat(/a,/a,/a,/a,/a,/a,/a,/a,/a,/a)"/>'
            '<xsl:template match="/"><o>head<xsl:value-of disable-output-escaping="yes" select="$L"/>mid'
            '<xsl:value-of disable-output-escaping="yes" select="concat($L,$L,$L)"/>tail</o></xsl:template></xsl:stylesheet>\n',
     "mode": "xml16", "cls": "corpus-utf16-raw-run", "probes": ["doe-long"], "nodom": False, "notree": True},
]


def pi_corpus(g):
    """one small case per lexical variant of the xml-stylesheet PI (runs first, at every seed)"""
    from vlib.common import Rng
    out = []
    for v in g.PI_VARIANTS:
        if v == "base":
            continue
        out.append({"xml": '<?xml version="1.0"?>\n@PI@<doc><a>1</a><b>2</b></doc>', "pivar": v,
                    "xsl": '<?xml version="1.0"?>\n<xsl:stylesheet version="1.0" xmlns:xsl="http://www.w3.org/1999/XSL/Transform">'
                           '<xsl:template match="/"><o n="{count(//*)}"><xsl:value-of select="//b"/></o></xsl:template></xsl:stylesheet>\n',
                    "mode": "xml", "cls": "corpus-pi", "probes": [], "nodom": False, "pi": v, "other_xsl": g.OTHER_XSL})
    return out


def src_info_corpus(g, d, which="src-info"):
    """a fixed document with everything a source form carries beyond the element tree (NDATA entities with relative and
    absolute system identifiers, notations, default / #FIXED / ID / ENTITY attributes, internal entities, xml:lang, xml:space)
    and the `src-info` probe; runs at every seed"""
    from vlib.common import Rng
    doctype, body, ra = g.dtd_rich(Rng(3))
    probe = dict((p[0], p) for p in g.PROBES)[which]
    xml = ('<?xml version="1.0"?>\n' + doctype + g.stylesheet_pi("base", Rng(1), d) + "<r%s>%s<m>tail</m></r>" % (ra, body))
    xsl = ('<?xml version="1.0"?>\n<xsl:stylesheet version="1.0" xmlns:xsl="http://www.w3.org/1999/XSL/Transform">'
           '<xsl:template match="/"><out>%s</out></xsl:template></xsl:stylesheet>\n' % probe[1])
    return {"xml": xml, "xsl": xsl, "mode": "xml", "cls": "corpus-" + which, "probes": [which], "nodom": False,
            "needbase": True, "rel_xml": '<?xml version="1.0"?>\n<rel>R-corpus</rel>\n', "pi": "base"}


def opts_corpus(g, d_of):
    """per-call options at their boundary values, through the C++ setters and the command line's flags (every seed)"""
    from vlib.common import Rng
    xsl_plain = ('<?xml version="1.0"?>\n<xsl:stylesheet version="1.0" xmlns:xsl="http://www.w3.org/1999/XSL/Transform">'
                 '<xsl:template match="/"><o><p><q a="1">t\u00e9</q><q/></p><xsl:copy-of select="/*/*[1]"/></o></xsl:template></xsl:stylesheet>\n')
    xsl_html = ('<?xml version="1.0"?>\n<xsl:stylesheet version="1.0" xmlns:xsl="http://www.w3.org/1999/XSL/Transform"><xsl:output method="html"/>'
                '<xsl:template match="/"><html><head><title>t</title></head><body><a href="x y\u00e9.html?a=b c">l</a></body></html></xsl:template></xsl:stylesheet>\n')
    out = []
    for k, (opts, xsl) in enumerate([([("indent", 0)], xsl_plain), ([("indent", 1)], xsl_plain), ([("indent", 2)], xsl_plain),
                                     ([("encoding", "ISO-8859-1")], xsl_plain), ([("encoding", "US-ASCII"), ("indent", 0)], xsl_plain),
                                     ([("noescape", "")], xsl_html), ([("omitmeta", "")], xsl_html),
                                     ([("noescape", ""), ("omitmeta", ""), ("indent", 0)], xsl_html)]):
        d = d_of("o%d" % k)
        out.append((d, {"xml": '<?xml version="1.0"?>\n' + g.stylesheet_pi("base", Rng(1), d) + "<doc><a>1<b>2</b></a><c/></doc>",
                        "xsl": xsl, "mode": "bytes", "cls": "corpus-opts", "probes": [], "nodom": False, "opts": opts, "pi": "base"}))
    # validation on: a valid document whose indentation is ignorable white space, observed with node counts
    d = d_of("v0")
    xml = g.dtd_valid_doc(Rng(5), d, g.stylesheet_pi("base", Rng(1), d))
    xslv = ('<?xml version="1.0"?>\n<xsl:stylesheet version="1.0" xmlns:xsl="http://www.w3.org/1999/XSL/Transform">'
            '<xsl:template match="/"><o t="{count(//text())}" w="{count(//text()[not(normalize-space())])}" n="{count(//node())}" k="{count(//@k)}">'
            '<xsl:for-each select="//*"><n t="{name()}" c="{count(text())}" p="{count(preceding-sibling::node())}" s="{string-length(.)}"/></xsl:for-each>'
            '</o></xsl:template></xsl:stylesheet>\n')
    out.append((d, {"xml": xml, "xsl": xslv, "mode": "xml", "cls": "corpus-validate", "probes": ["ws-count"], "nodom": False,
                    "opts": [("validate", "")], "pi": "base"}))
    return out


def run_forms(ctx, g, r):
    ctx.build("hooks")
    harness = common.build_harness("c05_forms", ["c05_forms.cpp"], flavor="hooks")
    xalan = os.path.join(common.build_dir("hooks"), "src", "xalanc", "Xalan")
    wd = workdir(ctx.seed)
    ncases = 36 if not ctx.thorough else 600
    cases = []
    for k, c in enumerate(CORPUS):
        d = os.path.join(wd, "k%d" % k)
        c = dict(c)
        c["xml"] = c["xml"].replace("@DIR@", d)
        cases.append((d, c))
    from vlib.common import Rng
    for k, c in enumerate(pi_corpus(g)):
        d = os.path.join(wd, "p%d" % k)
        c = dict(c)
        c["xml"] = c["xml"].replace("@PI@", g.stylesheet_pi(c["pivar"], Rng(k + 1), d))
        cases.append((d, c))
    cases.extend(opts_corpus(g, lambda n: os.path.join(wd, n)))
    d = os.path.join(wd, "s0")
    cases.append((d, src_info_corpus(g, d)))
    d = os.path.join(wd, "s1")
    cases.append((d, src_info_corpus(g, d, "unparsed")))
    for i in range(ncases):
        d = os.path.join(wd, "g%d" % i)
        cases.append((d, g.gen_case(r, i, d)))
    for d, c in cases:
        write_case(d, c)
    # in-process product, split over worker processes
    nw = min(common.NPROC, 8, max(1, len(cases) // 4))
    parts = [cases[i::nw] for i in range(nw)]
    results = [None] * nw
    crashes = {}

    def work(i):
        results[i] = run_cases_robust(harness, parts[i], crashes)
    th = [threading.Thread(target=work, args=(i,)) for i in range(nw)]
    [t.start() for t in th]
    # CLI runs meanwhile
    cli = {}
    cli_crashes = {}
    for d, c in cases:
        cli[d], cli_crashes[d] = run_cli(xalan, d, c.get("params") or (), c.get("opts") or ())
    [t.join() for t in th]
    for d, cs in cli_crashes.items():
        if cs:
            crashes.setdefault(d, []).extend(cs)
    blocks = {}
    for i in range(nw):
        blocks.update(results[i] or {})
    ctx.oblige("forms harness produced a result block for every case", "correspondence",
               all(d in blocks for d, _ in cases), str([d for d, _ in cases if d not in blocks][:5]))
    combos = 0
    agree_cases = 0
    for d, c in cases:
        rows, tdig, notes = parse_block(blocks.get(d, []))
        rows = rows + cli[d]
        combos += len(rows)
        probs, ref = decide(rows, tdig, c["mode"], c.get("notree", False), c.get("needbase", False))
        hard_notes = [n for n in notes if n.startswith(("parsefail", "harness-exception", "cprebuilt-unavailable", "bad"))]
        exc_notes = [n for n in hard_notes if n.startswith("harness-exception")]
        hard_notes = [n for n in hard_notes if not n.startswith("harness-exception")]
        if exc_notes:
            probs.append(("crash", "an exception escaped inside the harness (C API / parse section): " + "; ".join(exc_notes)[:200], ["harness"]))
        if hard_notes and c["cls"] != "error":
            probs.append(("forms-unavailable", "; ".join(hard_notes)[:300], []))
        nontriv = probe_order_sensitive(c) and any(x[4] == 0 for x in rows)
        ctx.case(nontrivial_key=hashlib.sha1((c["xml"] + c["xsl"]).encode()).hexdigest() if nontriv else None,
                 sample={"cls": c["cls"], "mode": c["mode"], "probes": c.get("probes"), "combinations": len(rows)} if len(ctx.samples) < 8 else None,
                 cls="forms:%s/%s" % (c["cls"], c["mode"]))
        for p in c.get("probes", []):
            ctx.hist["probe:" + p] = ctx.hist.get("probe:" + p, 0) + 1
        for combo, crc, err in crashes.get(d, []):
            probs.append(("crash", "the harness process died (rc=%s) in combination %s: %s" % (crc, combo, err[-160:]), [combo]))
        if not probs:
            agree_cases += 1
        shrunk = {}
        for kind, desc, forms in probs:
            key = "forms.%s[%s]: cls=%s mode=%s out=%s nonbmp=%d pi=%s opts=%s probes=%s" % (
                kind, ",".join(forms)[:400], c["cls"], c["mode"], c.get("out", "-"), 1 if "\U0001f600" in c["xml"] else 0,
                c.get("pi", "base"), ",".join("%s%s" % (k, v) for k, v in (c.get("opts") or [])) or "-", "+".join(c.get("probes", [])))
            if ctx.fail(key, desc + " -- forms: " + ", ".join(forms)[:600], {"xml": c["xml"], "xsl": c["xsl"], "mode": c["mode"], "nodom": c.get("nodom", False), "dir": d, "out": c.get("out", "-"),
                                                                  "params": c.get("params"), "notree": c.get("notree", False),
                                                                  "pi": c.get("pi"), "other_xsl": c.get("other_xsl"),
                                                                  "needbase": c.get("needbase", False), "rel_xml": c.get("rel_xml"), "opts": c.get("opts")}) == "new" and len(shrunk) < 1 and len(ctx.failures) <= 3:
                # an unlisted failure: shrink the source document first (same kind of disagreement must persist)
                small = shrink_case(harness, xalan, d, c, kind)
                shrunk[kind] = small
                ctx.failures[-1]["input"]["xml"] = small["xml"]
                ctx.failures[-1]["input"]["unshrunk_xml"] = c["xml"]
    ctx.extra["forms"] = {"cases": len(cases), "combinations_run": combos, "cases_all_forms_agree": agree_cases}
    ctx.hist["forms:combinations"] = combos
    if not os.environ.get("C05_KEEP"):
        shutil.rmtree(wd, ignore_errors=True)


def replay_forms(ctx, inp):
    harness = common.build_harness("c05_forms", ["c05_forms.cpp"], flavor="hooks")
    xalan = os.path.join(common.build_dir("hooks"), "src", "xalanc", "Xalan")
    d = os.path.join(common.CACHE, "work", "c05_replay")
    shutil.rmtree(d, ignore_errors=True)
    c = dict(inp)
    if inp.get("dir"):
        c["xml"] = c["xml"].replace(inp["dir"], d)
    write_case(d, c)
    bl, rc, err = run_harness(harness, [harness_line(d, c)], verbose=True)
    rows, tdig, notes = parse_block(bl[0] if bl else [])
    crows, ccr = run_cli(xalan, d, c.get("params") or (), c.get("opts") or ())
    rows += crows
    probs, ref = decide(rows, tdig, c["mode"], c.get("notree", False), c.get("needbase", False))
    for x in ccr:
        probs.append(("crash", "CLI died rc=%s" % x[1], [x[0]]))
    if rc != 0:
        probs.append(("crash", "harness died rc=%s at %s" % (rc, err[:200]), []))
    print("document:\n" + c["xml"])
    print("stylesheet:\n" + c["xsl"])
    groups = {}
    for x in rows:
        groups.setdefault((x[4], x[5]), []).append("/".join(x[:4]))
    for (rc_, dig), forms in sorted(groups.items(), key=lambda kv: -len(kv[1])):
        print("rc=%s %s  <- %d combinations, e.g. %s" % (rc_, dig, len(forms), ", ".join(forms[:6])))
    if bl:
        shown = set()
        it = iter(bl[0])
        prev = None
        for ln in bl[0]:
            if ln.startswith("  | ") and prev is not None:
                dig = prev.split(" ")[-1]
                if dig not in shown:
                    shown.add(dig)
                    print(prev + "\n" + ln[:1500])
            prev = ln
    print("re-parsed reference tree:", tdig)
    for kind, desc, forms in probs:
        print("PROBLEM", kind, desc, forms)
    shutil.rmtree(d, ignore_errors=True)
    return 1 if probs else 0
