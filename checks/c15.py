"""C15 — key() returns exactly the nodes its xsl:key declaration defines (DESIGN.md §5 C15, design/C15.md).

proof:          lean/XalanModel/Props/C15.lean — the KeyTable constructor's iterative walk visits exactly
                docOrder; lookup on the built table = docOrder filtered by the declarations; merged imports;
                every history of key() calls over several documents answers like fresh tables.
translator:     translate/c15_functionkey.py regenerates the one data-dependent fact of FunctionKey::execute
                (is an empty string value skipped in the nRefs>1 loop) into Generated/C15_FunctionKey.lean.
correspondence: harness/c15_keys.cpp runs generated stylesheets through XalanTransformer in-process; each key(k,v)
                is compared, inside the same transformation, with the brute-force defining expression
                (count(K|B)=count(K)=count(B), and node by node through generate-id()), and with the answer of the
                compiled Lean model xm_c15 (document-order node numbers).
"""
import concurrent.futures
import importlib.util
import json
import os
import re
import shutil

from vlib import common
from vlib.common import Rng

CLAIMED = True
LEVEL = "proof"
TECHNIQUE = ("Lean 4 proof over a hand transcription of KeyTable / StylesheetRoot::getNodeSetByKey / FunctionKey / "
             "Stylesheet::postConstruction / addNodeInDocOrder (zipper invariant for the iterative walk, loop invariant for the "
             "binary insertion-point search, table invariant over document-order prefixes, cache transparency by induction "
             "over call sequences), instantiated for concrete documents and the generated pattern/use fragment; three "
             "translators regenerate the source-dependent facts (FunctionKey guard, the two getNodeSetByKey overloads, the "
             "context list of `use`); three-way correspondence run (real key() / in-transformation brute force / compiled "
             "Lean model), also on the ASan+UBSan build in the thorough tier")
LEVEL_TEXT = ("Machine-checked for all inputs (Props/C15.lean, 30 theorems, and key_spec_c09 in C15/C09Instance.lean): the transcribed KeyTable constructor walk tests every "
              "node and attribute exactly once in document order; the table it builds answers getNodeSetByKey(name, value) with "
              "the document-order list of the nodes that match a declaration of that name and have the value among their use "
              "values (XSLT 1.0 12.2), null exactly for undeclared names; with strip-aware matching the answer is the "
              "specification on the stripped tree, the values of use (., *, text(), @*; strip-aware string-value as in C13) "
              "included; declarations of all imported modules are merged; the binary insertion-point "
              "search equals the linear one on ordered lists; getKeyNode reaches the top of the context node's tree (document or "
              "result tree fragment); every sequence of key() calls over any documents answers, call by call, what fresh tables "
              "answer for the document of the XPath context node (independent of history, of the XSLT current node and of a "
              "name prefix), a sub-list of that document's document order, which is the specified union over the argument's "
              "string values; context nodes from several documents in one expression get their own documents' answers. "
              "key_spec is also proved without hypotheses for the concrete documents and the concrete pattern/use evaluators "
              "of the generated fragment, and over C09's transcription of XPath::getMatchScore with C09's pattern "
              "specification as the characterisation (key_spec_c09, for well-formed documents and valid patterns). The "
              "model is tied to the working tree by three translators (a changed fact flips a generated flag the model follows, "
              "or stops generated_overloads_use_context from compiling) and by generated multi-document, multi-module "
              "stylesheets run through the real library and the compiled model (quick 6003 cases, thorough 40813 plus 4003 on "
              "the ASan build); every key() answer is also compared inside the same transformation with the brute-force "
              "defining expression.")
LEVEL_NOTE = ("Trusted: Lean kernel; axioms propext/Classical.choice/Quot.sound only; the hand transcription of KeyTable.cpp, "
              "StylesheetRoot::getNodeSetByKey/getKeyNode, StylesheetExecutionContextDefault::getNodeSetByKey, "
              "FunctionKey::execute, Stylesheet::postConstruction and the single-document path of "
              "MutableNodeRefList::addNodeInDocOrder (validated by the correspondence run, bounded by generator coverage); "
              "translate/c15_functionkey.py, c15_execcontext.py, c15_keytable.py, c15_objectnames.py (regex over the named "
              "functions / every createXalanQName call; an "
              "unrecognised shape is a broken obligation); harness, generator/renderer and the decoding of generate-id(). "
              "Modelled, not verified: XalanMap as an association list; XalanSourceTree as an inductive tree with a zipper "
              "cursor, node indices increasing in document order with the document node first (proved for the driver's "
              "documents, assumed of XalanSourceTree); Xalan's XPath engine for match and use (abstract parameters in the general "
              "theorems; the concrete theorem is about the specification-style evaluators of Concrete.lean for the generated "
              "fragment, which the run compares with Xalan's brute-force answers); the strip-awareness of pattern matching is a "
              "hypothesis of key_spec_strip / key_spec_strip_values (C13); the use evaluator is this property's own "
              "(C02's evaluator is not imported); generate-id() injective. Covered by the correspondence run only: positional "
              "predicates, namespace nodes as use values, rejection of key() inside match/use, sort-key / with-param / AVT call "
              "sites, namespace nodes as context nodes, node-set arguments and predicates spanning documents. Not modelled: node lists spanning several documents in addNodeInDocOrder (C12), template-level evaluation "
              "order. Four defects found by this check were repaired in /repo (44426a2, 64b58da, 4c14898, 381eb10); a fifth, the "
              "prefixed key name held by reference in the shared scratch QName, by 025acf6. Object names are resolved per "
              "XSLT 2.4 in the model and the fUseDefault argument of every createXalanQName call is a generated table "
              "(object_names_ignore_default_namespace). No known finding is open.")
DESIGN_REF = "DESIGN.md section 5, C15; design/C15.md"

THEOREMS = [
    "XalanModel.Props.C15.walk_visits_all_once",
    "XalanModel.Props.C15.walk_action_in_doc_order",
    "XalanModel.Props.C15.key_spec",
    "XalanModel.Props.C15.key_lookup_total",
    "XalanModel.Props.C15.key_spec_strip",
    "XalanModel.Props.C15.key_spec_strip_values",
    "XalanModel.Props.C15.key_node_is_tree_top",
    "XalanModel.Props.C15.imports_merged",
    "XalanModel.Props.C15.key_spec_stylesheet",
    "XalanModel.Props.C15.key_context_document",
    "XalanModel.Props.C15.generated_overloads_use_context",
    "XalanModel.Props.C15.key_context_document_spec",
    "XalanModel.Props.C15.key_context_document_counterexample",
    "XalanModel.Props.C15.key_result_of_context_document",
    "XalanModel.Props.C15.key_multi_context_spec",
    "XalanModel.Props.C15.key_call_spec",
    "XalanModel.Props.C15.key_name_independent_of_use_evaluation",
    "XalanModel.Props.C15.key_name_independent_of_use_evaluation_partial",
    "XalanModel.Props.C15.key_name_overwritten_counterexample",
    "XalanModel.Props.C15.key_nodeset_union",
    "XalanModel.Props.C15.key_nodeset_union_partial",
    "XalanModel.Props.C15.key_nodeset_union_counterexample",
    "XalanModel.Props.C15.insertion_point_binary_eq_linear",
    "XalanModel.Props.C15.key_history_independent",
    "XalanModel.Props.C15.key_answer_same_after_any_history",
    "XalanModel.Props.C15.key_calls_spec",
    "XalanModel.Props.C15.object_names_ignore_default_namespace",
    "XalanModel.Props.C15.unprefixed_object_name_ignores_default",
    "XalanModel.Props.C15.key_spec_concrete",
    "XalanModel.Props.C15.concrete_env_indexed",
]

HERE = os.path.dirname(os.path.abspath(__file__))


def _gen():
    spec = importlib.util.spec_from_file_location("c15_gen", os.path.join(common.ROOT, "gen", "c15_gen.py"))
    m = importlib.util.module_from_spec(spec)
    spec.loader.exec_module(m)
    return m


G = _gen()


# ---------------------------------------------------------------------------------------------------------------------
def run_impl(cmd, req_path, env, stall):
    """run the harness on a request file; -> (reply lines, hung?, stderr tail).  The harness answers every line at once,
    so no output for `stall` seconds means it hangs on the current case: it is killed."""
    import select
    import subprocess
    import tempfile
    e = dict(os.environ)
    if env:
        e.update(env)
    errf = tempfile.TemporaryFile()
    with open(req_path, "rb") as inp:
        p = subprocess.Popen(cmd, stdin=inp, stdout=subprocess.PIPE, stderr=errf, env=e)
    fd = p.stdout.fileno()
    buf = b""
    hung = False
    while True:
        r, _, _ = select.select([fd], [], [], stall)
        if not r:
            hung = True
            p.kill()
            break
        data = os.read(fd, 1 << 16)
        if not data:
            break
        buf += data
    p.wait()
    errf.seek(0)
    err = errf.read().decode("utf-8", "replace")[-1500:]
    errf.close()
    lines = buf.decode("utf-8", "replace").split("\n")
    if lines and lines[-1] == "":
        lines.pop()
    elif lines:
        lines.pop()          # incomplete last line of a killed process
    return lines, hung, err


def run_chunk(harness, model, cases, workdir, env=None, stall=40):
    """-> list of (impl_reply_of_run, model_reply_of_run, model_doc_sizes) per case.
    A harness that dies or hangs on a case yields "CRASH ..." for that case only; the cases after it are re-run in a
    fresh harness process (after 4 such restarts the rest of the chunk is reported as not run)."""
    import subprocess
    os.makedirs(workdir, exist_ok=True)
    res = []
    todo = list(cases)
    restarts = 0
    while todo:
        lines, marks = [], []
        for c in todo:
            ls = G.request_lines(c)
            start = len(lines)
            lines.extend(ls)
            marks.append((start, len(lines) - 1, [start + 1 + k for k in range(len(c["docs"]))]))
        req = os.path.join(workdir, "req.txt")
        with open(req, "w") as f:
            f.write("\n".join(lines) + "\n")
        with open(req, "rb") as inp:
            mp = subprocess.run([model], stdin=inp, stdout=subprocess.PIPE, stderr=subprocess.PIPE, timeout=1500)
        ml = mp.stdout.decode("utf-8", "replace").split("\n")
        merr = mp.stderr.decode("utf-8", "replace")
        if restarts > 3:
            il, hung, ierr = [], False, "not run: too many crashes/hangs in this chunk"
        else:
            il, hung, ierr = run_impl([harness, workdir], req, env, stall)
        done = 0
        for (start, runidx, docidx) in marks:
            mv = ml[runidx] if runidx < len(ml) else "MODELSTOP " + merr[-300:].replace("\n", " | ")
            sizes = []
            for di in docidx:
                t = ml[di].split() if di < len(ml) else []
                sizes.append(int(t[1]) if len(t) == 2 and t[0] == "ok" else -1)
            done += 1
            if runidx < len(il):
                res.append((il[runidx], mv, sizes))
            elif restarts > 3:
                res.append(("NOTRUN", mv, sizes))
            else:
                res.append(("CRASH " + ("(hang: no reply for %d s) " % stall if hung else "") + ierr[-400:].replace("\n", " | "),
                            mv, sizes))
                restarts += 1
                break
        todo = todo[done:]
    return res


def run_cases(harness, model, cases, tag, workers=None, env=None, stall=40):
    workers = workers or min(12, max(1, common.NPROC - 2))
    base = os.path.join(common.CACHE, "work", "c15-%s-%d" % (tag, os.getpid()))
    if len(cases) < 4 * workers:
        workers = max(1, len(cases) // 4) if len(cases) >= 4 else 1
    chunks = [cases[i::workers] for i in range(workers)]
    out = [None] * len(cases)
    try:
        with concurrent.futures.ThreadPoolExecutor(max_workers=workers) as ex:
            futs = {ex.submit(run_chunk, harness, model, ch, os.path.join(base, "w%d" % i), env, stall): i
                    for i, ch in enumerate(chunks) if ch}
            for fu in concurrent.futures.as_completed(futs):
                i = futs[fu]
                for j, r in enumerate(fu.result()):
                    out[i + j * workers] = r
    finally:
        shutil.rmtree(base, ignore_errors=True)
    return out


def unhex(h):
    return "" if h == "-" else bytes.fromhex(h).decode("utf-8", "replace")


def parse_ids(s):
    if s == "ERR":
        return None
    return [] if s == "-" else [int(x) for x in s.split(",")]


def judge(case, res):
    """-> list of problems: (cls, key, what) with cls in
         'violation'  : the real key() differs from its defining expression (property fails on the implementation)
         'corr'       : implementation fine w.r.t. the specification but model / renderer / evaluators disagree
    """
    iv, mv, sizes = res
    probs = []
    if iv == "NOTRUN":
        return []
    if case.get("expect_compile_error"):
        msg = unhex(iv.split(" ", 1)[1]) if iv.startswith("ERR") and " " in iv else ""
        if iv.startswith("ERR") and ("key() function" in msg or "axes are allowed in match patterns" in msg):
            return []
        return [("violation", "key.key-call-inside-use-or-match-accepted",
                 "an xsl:key whose use/match calls key(), or whose match uses the namespace axis, must be rejected when the "
                 "stylesheet is compiled; got: " + (msg or iv)[:200])]
    if mv.startswith("MODELSTOP") or mv.startswith("bad"):
        return [("corr", "model-rejected", "model driver: " + mv[:200])]
    toks = mv.split()
    mk = [t[2:] for t in toks if t.startswith("K=")]
    ms = [t[2:] for t in toks if t.startswith("S=")]
    mf = [t[2:] for t in toks if t.startswith("F=")]
    calls = case["calls"]
    # one model call per context document of a call (G.call_docs); regroup the model's answers per call
    mdocs = [G.call_docs(c) for c in calls]
    nm = sum(len(x) for x in mdocs)
    if len(mk) != nm or len(ms) != nm or len(mf) != nm:
        return [("corr", "model-reply-shape", mv[:200])]
    mk0, ms0, mf0 = mk, ms, mf
    mk, ms, mf, pos = [], [], [], 0
    for ds in mdocs:
        part_k, part_s = mk0[pos:pos + len(ds)], ms0[pos:pos + len(ds)]
        mk.append("ERR" if "ERR" in part_k else list(zip(ds, part_k)))
        ms.append("ERR" if "ERR" in part_s else list(zip(ds, part_s)))
        mf.append("".join(sorted(set("".join(f for f in mf0[pos:pos + len(ds)] if f != "-")))) or "-")
        pos += len(ds)
    expect_err = "ERR" in mk
    if iv == "NOTRUN":
        return []
    if iv.startswith("CRASH"):
        return [("violation", "key.hang" if "(hang:" in iv else "key.crash", "harness died or hung on this case: " + iv[:300])]
    if iv.startswith("ERR"):
        msg = unhex(iv.split(" ", 1)[1]) if " " in iv else ""
        if not expect_err:
            m = re.search(r"There is no xsl:key instruction with the expanded name '([^']*)'", msg)
            names = set(c["name"] for c in calls)
            if (m and m.group(1) not in names and any(n.startswith("{") for n in names)
                    and any(G.resolves_qname(d[2]) or G.resolves_qname(d[3]) for d in case["decls"])):
                # the UnknownKey error names a QName no key() call asked for: a prefixed key name was resolved into the
                # execution context's shared scratch QName, kept by reference, and overwritten while the key table was built
                # by a use/match expression that resolves another QName (format-number's decimal-format name,
                # function-available / element-available)
                return [("violation", "key.prefixed-name-overwritten-during-table-build[%s]" % m.group(1),
                         "key() with a prefixed name failed: " + msg[:200])]
            return [("violation", "key.unexpected-error", "transformation failed: " + msg[:200])]
        if "xsl:key" not in msg:
            probs.append(("corr", "error-text", "expected the unknown-key error, got: " + msg[:200]))
        return probs
    if expect_err:
        i = mk.index("ERR")
        return [("violation" if ms[i] != "ERR" else "corr", "key.missing-error[call %d]" % i,
                 "model predicts the UnknownKey error at call %d (%r) but the transformation succeeded" % (i, calls[i]))]
    out = unhex(iv.split(" ", 1)[1])
    gid = {}      # generate-id -> (doc, idx)
    seen = {}
    for line in out.split("\n"):
        t = line.split()
        if not t:
            continue
        if t[0] == "L":
            k = int(t[1])
            ids = t[2:]
            if len(ids) != sizes[k]:
                probs.append(("corr", "listing-size[doc %d]" % k,
                              "document %d: XPath sees %d nodes, the model %d" % (k, len(ids), sizes[k])))
            if len(set(ids)) != len(ids):
                probs.append(("corr", "generate-id-not-injective", line[:200]))
            for j, g in enumerate(ids):
                gid[g] = (k, j)
        elif t[0] == "Q":
            i = int(t[1])
            ck, cb, cu = int(t[2]), int(t[3]), int(t[4])
            kpos = t.index("K"); bpos = t.index("B", kpos); rpos = t.index("R", bpos)
            xpos = t.index("X", rpos) if "X" in t[rpos:] else len(t)
            seen[i] = (ck, cb, cu, t[kpos + 1:bpos], t[bpos + 1:rpos], t[rpos + 1:xpos], t[xpos + 1:])
    for i, c in enumerate(calls):
        if i not in seen:
            probs.append(("corr", "no-output[call %d]" % i, "no Q line for call %d (context node not found?)" % i))
            continue
        ck, cb, cu, kg, bg, rg, xg = seen[i]
        try:
            K = [gid[g] for g in kg]; B = [gid[g] for g in bg]; R = [gid[g] for g in rg]
        except KeyError as e:
            probs.append(("violation", "key.foreign-node[call %d]" % i, "key()/brute force returned a node of no listed document: %s" % e))
            continue
        desc = "call %d %s" % (i, json.dumps(c, sort_keys=True))
        cdocs = mdocs[i]
        # model answers as (document, number) pairs, the documents in the order of the model calls
        modelK = None if mk[i] == "ERR" else [(d, j) for (d, ids) in mk[i] for j in parse_ids(ids)]
        specS = None if ms[i] == "ERR" else sorted((d, j) for (d, ids) in ms[i] for j in parse_ids(ids))
        # in-transformation comparison count(K|B)=count(K)=count(B) (properties.jsonl observe_at); only meaningful when the
        # document node is not involved (it is kept out of every union, see gen/c15_gen.py brute)
        roots = [(d, 0) for d in cdocs]
        trust_counts = not R and not any(x in K for x in roots)
        if len(set(B)) != len(B) or any(x not in roots for x in R):
            probs.append(("corr", "oracle[call %d]" % i, "%s: brute-force node-set malformed: B=%s R=%s" % (desc, B, R)))
            continue
        Bset = set(B) | set(R)
        Bidx = sorted(Bset)
        Kidx = K

        def part(l, d):
            return [j for (dd, j) in l if dd == d]
        # --- the same call from a second call site (with-param select / attribute value template / sort key), evaluated
        # while the XSLT current node is elsewhere: must agree with the variable-select site
        if xg:
            site, rest = xg[0], xg[1:]
            other = None
            if site == "param":
                other = [gid.get(g) for g in rest]
                okx = other == K
            elif site == "avt":
                other = rest
                okx = rest == [str(len(K))]
            else:   # sort by the boolean "is in its own key() result": the nodes outside K in document order, then K
                allnodes = sorted(v for v in gid.values() if v[0] == c["doc"])
                expect = [v for v in allnodes if v not in K] + [v for v in allnodes if v in K]
                other = [gid.get(g) for g in rest]
                okx = other == expect
            if not okx:
                probs.append(("violation", "key.differs-by-call-site[%s]: %s" % (site, desc),
                              "key() evaluated in a %s gives %s, in the variable select %s" % (site, other, K)))
        # --- the property evaluated on the implementation, independent of the model
        bad = None
        if (trust_counts and not (ck == cb == cu and ck == len(K))) or set(K) != Bset:
            bad = "key() = %s but the defining expression selects %s (count K/B/K|B = %d/%d/%d)" % (Kidx, Bidx, ck, cb, cu)
        elif any(d not in cdocs for (d, _) in K):
            bad = "key() returned nodes of a document no context node lies in: %s" % K
        elif len(set(K)) != len(K) or any(part(K, d) != sorted(part(K, d)) for d in cdocs):
            bad = "key() result not a duplicate-free document-ordered node-set: %s" % Kidx
        # the model answers per context document; within one document the order must be the model's
        same_as_model = modelK is not None and set(K) == set(modelK) and all(part(K, d) == part(modelK, d) for d in cdocs) \
            and (len(cdocs) > 1 or K == modelK)
        if bad:
            # a violation is attributed to the documented deviations only when the as-written model (which carries
            # exactly those deviations) predicts the implementation's answer exactly; F names the deviations that
            # shape the model's answer for this call
            if same_as_model and mf[i] != "-":
                for f in mf[i]:
                    probs.append(("violation", "key.%s: %s" % (DEVIATIONS[f], desc), bad))
            else:
                probs.append(("violation", "key.mismatch: %s" % desc, bad + "; as-written model: %s" % modelK))
        elif not same_as_model:
            # --- correspondence with the Lean model
            probs.append(("corr", "model-K[call %d]" % i, "%s: implementation %s, model %s" % (desc, Kidx, modelK)))
        if specS is not None and Bidx != specS:
            probs.append(("corr", "model-S[call %d]" % i, "%s: brute force (Xalan) %s, Lean specification %s" % (desc, Bidx, specS)))
    return probs


DEVIATIONS = {
    "E": "nodeset-arg.empty-string-value-skipped",   # FunctionKey.cpp nRefs>1 guard (Generated.C15_FunctionKey.skipEmptyRefs)
    "P": "use-position-last-is-zero",                 # KeyTable.cpp evaluates `use` with an empty context node list
}


# ---------------------------------------------------------------------------------------------------------------------
def sub_cases(case):
    """one-step reductions of a case (for shrinking)"""
    c = case
    for i in range(len(c["calls"])):
        yield dict(c, calls=c["calls"][:i] + c["calls"][i + 1:])
    for i in range(len(c["decls"]) - (1 if c.get("expect_compile_error") else 0)):   # keep the offending declaration
        yield dict(c, decls=c["decls"][:i] + c["decls"][i + 1:])
    used = set(d[0] for d in c["decls"])
    for (sid, par, kind) in c["sheets"]:
        if sid != 0 and sid not in used and not any(p == sid for (_, p, _) in c["sheets"]):
            yield dict(c, sheets=[s for s in c["sheets"] if s[0] != sid])
    last = len(c["docs"]) - 1
    if last > 0 and not any(last in (x["doc"], x.get("argdoc"), x.get("cur"), x.get("doc2"), x.get("argdoc2")) for x in c["calls"]):
        yield dict(c, docs=c["docs"][:last], rtf=[k for k in c.get("rtf", []) if k != last])
    for k in c.get("rtf", []):
        yield dict(c, rtf=[j for j in c["rtf"] if j != k])
    if c.get("preserve"):
        yield dict(c, preserve=None)
    o = c.get("nsopt") or {}
    for k in ("sheet_default", "key_default", "call_default", "key_mode", "call_mode"):
        if o.get(k):
            yield dict(c, nsopt=dict(o, **{k: []}))
    if o.get("tmpl_default"):
        yield dict(c, nsopt=dict(o, tmpl_default=False))
    for k, d in enumerate(c["docs"]):
        for nd in shrink_tree(d):
            yield dict(c, docs=c["docs"][:k] + [nd] + c["docs"][k + 1:], calls=[dict(x, ctx=(0 if x["ctx"] != "ns" else "ns"), **({"curctx": 0} if "curctx" in x else {})) for x in c["calls"]])


def shrink_tree(t):
    def kids_of(n):
        return n[1] if n[0] == "R" else n[3] if n[0] == "E" else []

    def with_kids(n, ks):
        return ("R", ks) if n[0] == "R" else (n[0], n[1], n[2], ks, False)

    def go(n):
        ks = kids_of(n)
        for i, k in enumerate(ks):
            if not (n[0] == "R" and k[0] == "E"):
                rest = ks[:i] + ks[i + 1:]
                # never leave two text nodes adjacent
                if not any(rest[j][0] == "T" and rest[j + 1][0] == "T" for j in range(len(rest) - 1)):
                    yield with_kids(n, rest)
            if k[0] == "E":
                for a in range(len(k[2])):
                    yield with_kids(n, ks[:i] + [(k[0], k[1], k[2][:a] + k[2][a + 1:], k[3], False)] + ks[i + 1:])
                for nk in go(k):
                    yield with_kids(n, ks[:i] + [nk] + ks[i + 1:])
    return go(t)


def shrink(harness, model, case, want_cls, want_keyclass, budget=120):
    import time
    hang = want_keyclass in ("key.hang", "key.crash")
    if hang:
        budget = min(budget, 25)      # every candidate that still hangs costs the stall time
    cur = case
    improved = True
    while improved and budget > 0:
        improved = False
        for cand in sub_cases(cur):
            if budget <= 0 or time.time() > SHRINK_DEADLINE[0]:
                budget = 0
                break
            if not cand["calls"]:
                continue
            budget -= 1
            r = run_cases(harness, model, [cand], "shrink", workers=1, stall=12)[0]
            ps = judge(cand, r)
            if any(p[0] == want_cls and keyclass(p[1]) == want_keyclass for p in ps):
                cur = cand
                improved = True
                break
    return cur


# all shrinking of one run shares a wall-clock budget (a tree whose harness hangs makes every candidate slow)
SHRINK_DEADLINE = [float("inf")]


def keyclass(key):
    return re.sub(r"\[.*?\]", "", key.split(":")[0])


def describe(case):
    return {"docs": [G.doc_xml(d, G.strip_pred(case)) for d in case["docs"]],
            "sheets": [list(s) for s in case["sheets"]],
            "decls": [list(d) for d in case["decls"]],
            "calls": case["calls"], "rtf": case.get("rtf", []), "strip": case.get("strip"), "preserve": case.get("preserve"), "nsopt": case.get("nsopt"),
            "case": case}


def from_json(c):
    def tup(n):
        if n[0] == "R":
            return ("R", [tup(k) for k in n[1]])
        if n[0] == "E":
            return ("E", n[1], [tuple(a) for a in n[2]], [tup(k) for k in n[3]], bool(n[4]) if len(n) > 4 else False)
        return tuple(n)
    return {"id": c.get("id", "replay"), "docs": [tup(d) for d in c["docs"]], "sheets": [tuple(s) for s in c["sheets"]],
            "decls": [tuple(d) for d in c["decls"]], "calls": c["calls"], "rtf": c.get("rtf", []), "strip": c.get("strip"), "preserve": c.get("preserve"), "nsopt": c.get("nsopt"),
            "expect_compile_error": c.get("expect_compile_error", False)}


def corpus():
    d = os.path.join(common.ROOT, "gen", "corpus", "c15")
    res = []
    if os.path.isdir(d):
        for f in sorted(os.listdir(d)):
            if f.endswith(".json"):
                c = from_json(json.load(open(os.path.join(d, f))))
                c["id"] = "corpus-" + f[:-5]
                res.append(c)
    return res


def exhaustive_cases():
    """small-scope: every document shape over a tiny alphabet (<= 4 non-root nodes) x a fixed set of declarations and
    lookups that exercise element, attribute and text matches, string and node-set `use`"""
    import itertools
    leaves = [("T", "u"), ("E", "a", [], [], False), ("E", "a", [("x", "u")], [], False), ("E", "b", [("x", "")], [], False)]

    def trees(n):
        # element "a" with children sequences of total size n-1
        if n == 1:
            for at in ([], [("x", "u")], [("x", "v"), ("y", "u")]):
                yield ("E", "a", at, [], False)
            return
        for parts in compositions(n - 1):
            for combo in itertools.product(*[list(sub(p)) for p in parts]):
                ok = all(not (combo[i][0] == "T" and combo[i + 1][0] == "T") for i in range(len(combo) - 1))
                if ok:
                    yield ("E", "a", [("x", "u")], list(combo), False)

    def sub(p):
        if p == 1:
            for l in leaves:
                yield l
        else:
            for t in trees(p):
                yield t

    def compositions(n):
        if n == 0:
            yield []
            return
        for first in range(1, n + 1):
            for rest in compositions(n - first):
                yield [first] + rest
    decls = [(0, "k", "a|b", "@x"), (0, "k", "a/@x|text()", "."), (1, "m", "*", "*/@x"), (1, "k", "a[a]", "string(a/@x)")]
    calls = [{"doc": 0, "ctx": 0, "name": "k", "kind": "str", "value": "u"},
             {"doc": 0, "ctx": 0, "name": "m", "kind": "ns", "argdoc": 0, "pat": "@x"},
             {"doc": 0, "ctx": 0, "name": "k", "kind": "str", "value": ""},
             {"doc": 0, "ctx": 0, "name": "k", "kind": "ns", "argdoc": 0, "pat": "a"},
             {"doc": 0, "ctx": 0, "name": "m", "kind": "str", "value": "v"}]
    n = 0
    for size in range(1, 6):
        for t in trees(size):
            n += 1
            yield {"id": "ex%d" % n, "docs": [("R", [t])], "sheets": [(0, None, "root"), (1, 0, "import")],
                   "decls": decls, "calls": calls}


# ---------------------------------------------------------------------------------------------------------------------
def run(ctx):
    ctx.rule = ("a case = one transformation: 1-3 generated documents (main + document() loads), 1-4 stylesheet modules "
                "(imports/includes) with 1-5 xsl:key declarations (duplicate names, attribute/text/root matches, node-set and "
                "scalar `use`), 2-16 shuffled key() calls (string and node-set arguments, contexts in any document); "
                "non-trivial = a case where at least one key() call returns a non-empty node-set; distinct = distinct request text")
    ctx.trusted += [
        "translate/c15_functionkey.py, c15_execcontext.py, c15_keytable.py (regex over FunctionKey::execute, the two "
        "StylesheetExecutionContextDefault::getNodeSetByKey overloads, KeyTable::processKeyDeclaration)",
        "harness/c15_keys.cpp + gen/c15_gen.py + checks/c15.py (generator, renderer of documents/stylesheets, decoding of generate-id())",
        "modelled, not verified: XalanMap as association list; XalanSourceTree as an inductive tree with a zipper cursor; the "
        "single-document path of addNodeInDocOrder (multi-document lists: C12); Xalan's match/use evaluation (abstract in the "
        "general theorems; the concrete theorem is about Concrete.lean's specification-style evaluators, compared with Xalan's "
        "brute-force answers by the run); strip-aware matching is a hypothesis of key_spec_strip; generate-id() injective",
        "correspondence only: positional predicates, namespace nodes as use values, rejection of key() inside match/use, "
        "sort-key / with-param / AVT call sites",
    ]
    ctx.build("hooks")
    ctx.translate("c15_functionkey")
    ctx.translate("c15_execcontext")
    ctx.translate("c15_keytable")
    ctx.translate("c15_objectnames")
    ctx.lean("XalanModel.Props.C15", THEOREMS, extra_targets=["xm_c15"])
    model = ctx.exe("xm_c15")
    c09_instance(ctx)
    harness = common.build_harness("c15_keys", ["c15_keys.cpp"], flavor="hooks", sanitize=False)
    if model is None:
        return
    # common.Rng(s+1) is Rng(s) advanced by one step: spread the seeds far apart along the splitmix64 sequence
    r = Rng(ctx.seed * 1000000007 + 7)
    cases = corpus()
    ncorpus = len(cases)
    n = 6000 if not ctx.thorough else 40000
    for i in range(n):
        cases.append(G.gen_case(r, "g%d" % i, big=(ctx.thorough and i % 4 == 0)))
    if ctx.thorough:
        cases.extend(exhaustive_cases())
        ctx.exhaustive = False
    results = run_cases(harness, model, cases, "main")
    import time
    SHRINK_DEADLINE[0] = time.time() + (600 if ctx.thorough else 150)
    agree = True
    corr_details = []
    nshrunk = 0
    for ci, (case, res) in enumerate(zip(cases, results)):
        probs = judge(case, res)
        nontriv = " K=" in (" " + res[1]) and any(t.startswith("K=") and t not in ("K=-", "K=ERR") for t in res[1].split())
        text = "\n".join(G.request_lines(case)[1:]) if nontriv else None
        ctx.case(nontrivial_key=text, sample=describe(case)["decls"] + [c for c in case["calls"][:2]] if ci in (ncorpus, ncorpus + 1) else None,
                 cls="docs=%d" % len(case["docs"]))
        if case.get("expect_compile_error"):
            ctx.hist["key() inside use/match (compile error expected)"] = ctx.hist.get("key() inside use/match (compile error expected)", 0) + 1
        o = case.get("nsopt") or {}
        if o.get("sheet_default") or o.get("key_default") or o.get("tmpl_default") or o.get("call_default"):
            ctx.hist["default namespace in scope of a key name / key() call"] = ctx.hist.get("default namespace in scope of a key name / key() call", 0) + 1
        if o.get("key_mode") or o.get("call_mode"):
            ctx.hist["prefix declared or re-declared at the point of use"] = ctx.hist.get("prefix declared or re-declared at the point of use", 0) + 1
        if case.get("preserve"):
            ctx.hist["with xsl:preserve-space"] = ctx.hist.get("with xsl:preserve-space", 0) + 1
        if case.get("strip"):
            ctx.hist["with xsl:strip-space"] = ctx.hist.get("with xsl:strip-space", 0) + 1
        if case.get("rtf"):
            ctx.hist["with result-tree-fragment document"] = ctx.hist.get("with result-tree-fragment document", 0) + 1
        for c in case["calls"]:
            ctx.hist["call:" + c["kind"]] = ctx.hist.get("call:" + c["kind"], 0) + 1
            if c.get("doc2") is not None:
                ctx.hist["context nodes from two documents in one expression"] = ctx.hist.get("context nodes from two documents in one expression", 0) + 1
            if c.get("argdoc2") is not None:
                ctx.hist["node-set argument spanning two documents"] = ctx.hist.get("node-set argument spanning two documents", 0) + 1
            if c["ctx"] == "ns":
                ctx.hist["namespace node as context node"] = ctx.hist.get("namespace node as context node", 0) + 1
            if c.get("form"):
                kk = "call in predicate, current node in %s document, %s name" % (
                    "another" if c.get("cur") != c["doc"] else "the same", "prefixed" if c["name"].startswith("{") else "plain")
                ctx.hist[kk] = ctx.hist.get(kk, 0) + 1
        ctx.hist["modules=%d" % len(case["sheets"])] = ctx.hist.get("modules=%d" % len(case["sheets"]), 0) + 1
        ctx.hist["decls=%d" % len(case["decls"])] = ctx.hist.get("decls=%d" % len(case["decls"]), 0) + 1
        if res[0].startswith("ERR"):
            ctx.hist["unknown-key error"] = ctx.hist.get("unknown-key error", 0) + 1
        if not probs:
            continue
        viol = [p for p in probs if p[0] == "violation"]
        if viol:
            shrunk_here = False
            for p in viol:
                known = any(f.get("match") and re.search(f["match"], p[1]) for f in ctx.findings)
                small = case
                if not known and nshrunk < 6 and not shrunk_here:
                    nshrunk += 1
                    shrunk_here = True
                    small = shrink(harness, model, case, "violation", keyclass(p[1]))
                    ps = [q for q in judge(small, run_cases(harness, model, [small], "re", workers=1)[0])
                          if q[0] == "violation" and keyclass(q[1]) == keyclass(p[1])]
                    p = ps[0] if ps else p
                ctx.fail(p[1], p[2], describe(small))
        if any(p[0] == "corr" for p in probs):
            agree = False
            probs = [p for p in probs if p[0] == "corr"]
            if len(corr_details) < 3:
                small = shrink(harness, model, case, "corr", keyclass(probs[0][1]), budget=60)
                ps = [q for q in judge(small, run_cases(harness, model, [small], "re", workers=1)[0]) if q[0] == "corr"] or probs
                corr_details.append({"problem": ps[0][1] + " — " + ps[0][2], "input": describe(small)})
    if ctx.thorough:
        # the same scenarios against the ASan+UBSan build of the working tree (library and harness): a sanitizer report
        # aborts the harness -> "CRASH" -> violation with the case as replay; answers are judged as above
        # (detect_leaks=0: the build tool MsgCreator and Xerces' scanner leak by design; LeakSanitizer would fail the build)
        os.environ.setdefault("ASAN_OPTIONS", "detect_leaks=0")
        ctx.build("asan")
        h_asan = common.build_harness("c15_keys", ["c15_keys.cpp"], flavor="asan")
        sub = cases[:ncorpus] + cases[ncorpus:ncorpus + 4000]
        env = {"ASAN_OPTIONS": "detect_leaks=0:abort_on_error=0", "UBSAN_OPTIONS": "print_stacktrace=1"}
        res2 = run_cases(h_asan, model, sub, "asan", env=env, stall=180)
        nbad = 0
        for case, res in zip(sub, res2):
            ps = judge(case, res)
            ctx.hist["asan cases"] = ctx.hist.get("asan cases", 0) + 1
            for p in ps:
                if p[0] == "violation":
                    if ctx.fail(p[1] + " [asan build]", p[2], describe(case)) != "known":
                        nbad += 1
                else:
                    nbad += 1
                    agree = False
                    if len(corr_details) < 3:
                        corr_details.append({"problem": "[asan build] " + p[1] + " — " + p[2], "input": describe(case)})
        ctx.oblige("sanitizer run: no ASan/UBSan report and the same answers on %d cases (asan build of the working tree)" % len(sub),
                   "correspondence", nbad == 0, "%d problem(s)" % nbad)
    ctx.extra["correspondence_disagreements"] = corr_details
    ctx.oblige("correspondence: real key() = Lean model (as-written) and Xalan brute force = Lean specification on every generated case",
               "correspondence", agree, json.dumps(corr_details[:1], default=str)[:1800])
    skipflag = None
    try:
        skipflag = json.load(open(os.path.join(common.GEN, "C15_FunctionKey.json")))["skipEmptyRefs"]
    except Exception:
        pass
    ctx.extra["generated_skipEmptyRefs"] = skipflag


C09_THEOREMS = ["XalanModel.C15.Concrete.key_spec_c09"]


def c09_instance(ctx):
    """key_spec over C09's transcription of XPath::getMatchScore (lean/XalanModel/C15/C09Instance.lean).  It imports C09's
    modules, which depend on C09's / C10's generated files: they are regenerated here (without registering obligations of
    another property), and when C09's own property module does not build on this tree the instance is skipped with a
    note — that is C09's alarm to raise, not C15's."""
    import sys
    with common.Lock("lake"):
        for t in ("c09_keytable", "c10_priority"):
            common.sh([sys.executable, os.path.join(common.ROOT, "translate", t + ".py")], cwd=common.ROOT)
    rc, out = common.lake_build(["XalanModel.Props.C09"])
    if rc != 0:
        common.log("  note: XalanModel.Props.C09 does not build on this tree; key_spec_c09 (C15 over C09's matcher) not checked")
        ctx.extra["c09_instance"] = "skipped: XalanModel.Props.C09 does not build (reported by check C09)"
        return
    ctx.lean("XalanModel.C15.C09Instance", C09_THEOREMS)
    ctx.extra["c09_instance"] = "checked"


def replay(ctx, path):
    d = json.load(open(path))
    inp = d["first"]["input"] if "first" in d else None
    if inp is None:
        print("replay file names broken obligations only:", [o["name"] for o in d.get("broken_obligations", [])])
        return 1
    case = from_json(inp["case"])
    ctx.build("hooks")
    ctx.translate("c15_functionkey")
    ctx.translate("c15_execcontext")
    ctx.translate("c15_keytable")
    ctx.translate("c15_objectnames")
    common.lake_build(["xm_c15"])
    model = ctx.exe("xm_c15")
    harness = common.build_harness("c15_keys", ["c15_keys.cpp"], flavor="hooks", sanitize=False)
    res = run_cases(harness, model, [case], "replay", workers=1)[0]
    print("documents:", [G.doc_xml(x) for x in case["docs"]])
    print("stylesheet:", G.render_sheet(case, 0))
    print("implementation:", res[0][:60], unhex(res[0].split(" ", 1)[1]) if " " in res[0] else "")
    print("model:", res[1])
    ps = judge(case, res)
    print("verdict:", ps or "ok")
    return 1 if ps else 0
