"""C04 — XML output is well-formed and parses back to exactly the result tree (DESIGN.md §5 C04, design/C04.md).

proof:          lean/XalanModel/Props/C04.lean over lean/XalanModel/C04/*.lean and the generated
                lean/XalanModel/Generated/C04_Tables.lean (translate/c04_tables.py)
correspondence: harness/c04_serializer.cpp (real serializers, ASan+UBSan, Xerces re-parse)  vs  lean/Driver/C04.lean
"""
import hashlib
import importlib.util
import json
import os
import re
import subprocess

from vlib import common
from vlib.common import Rng

_spec = importlib.util.spec_from_file_location("c04_docs", os.path.join(common.ROOT, "gen", "c04_docs.py"))
G = importlib.util.module_from_spec(_spec)
_spec.loader.exec_module(G)

_spec2 = importlib.util.spec_from_file_location("c04_multibyte", os.path.join(common.ROOT, "gen", "c04_multibyte.py"))
MB = importlib.util.module_from_spec(_spec2)
_spec2.loader.exec_module(MB)

CLAIMED = True
LEVEL = "proof"
TECHNIQUE = ("Lean 4 proofs over a hand transcription of FormatterToXMLUnicode (escaping, CDATA, comments/PIs, element stack, "
             "XML declaration, DOCTYPE, XalanIndentWriter) + the three writers + both 512-entry buffer layers, and over an "
             "independent specification side (strict decoders, character reader, document reader with prolog); character "
             "tables, entity / prolog strings, buffer sizes, the flush-before-direct-write shape of every bulk write, transcode "
             "factor, CDATA guard, repair flags, the raw-text marker and the reset of m_nextIsRaw, the table of "
             "getMaximumCharacterValue and which transcoder object answers canTranscodeTo regenerated from "
             "the source on every run; correspondence run of the real serializers (bytes, writeData chunk sizes, error kinds) "
             "against the compiled model; Xerces SAX2 re-parse of the real output as the independent specification "
             "predicate; the Lean document reader against Xerces on the real output; the Lean indentation filter replayed "
             "through the real plain serializer against the real indenting serializer; ten transcoder-backed multi-byte / "
             "stateful encodings and 23 single-byte encodings (both serializers) through the real code, judged by independent decoders (Python codecs, own SCSU decoder) "
             "and an expat re-parse")
LEVEL_TEXT = ("Machine-checked (56 theorems, all proved): UTF-8/UTF-16 encode-decode round trips for every scalar sequence; "
              "transparency and bounds of both buffer layers for every write sequence (no chunk splits an item), and with the "
              "bulk-write shape read from the source (flushBuffer() before a direct write of a run longer than the buffer, in "
              "XalanUTF8Writer, XalanUTF16Writer and XalanOutputStream::write) the units handed to the transcoder are the units "
              "of all write calls in call order, for every sequence of calls and every length "
              "(output_is_concatenation_of_writes; kernel-checked counterexample without the flush); XalanOutputStream's buffer "
              "with the hold-back of half a surrogate pair (it may hold size+1 units) is transparent, and for every sequence of "
              "runs that cut well-formed UTF-16 anywhere no transcoder call ends with a leading or starts with a trailing "
              "surrogate (stream_no_split_pair; counterexample for a hold-back that depends on the fill level); for every converter "
              "modelled as a shift-state machine, chunked transcoding with canTranscodeTo probes in between equals one-shot "
              "transcoding when the probes do not touch the converter (transcoding_chunked_eq_oneshot; counterexample for "
              "the shared, reset-on-probe converter); the transcoding writer's bulk write in its pair-aware form writes every "
              "scalar as itself or as one reference (other_bulk_pair_aware; kernel-checked counterexample for the unit-wise form: "
              "two surrogate references, rejected by the reader); with throwIfNotCharacters in front of the bulk writes a name, "
              "PI target or unescaped text that is written at all was well-formed UTF-16 without U+0000/U+FFFE/U+FFFF "
              "(bulk_output_implies_wellformed; counterexample without it); the raw-text marker PI makes exactly the next non-empty text event "
              "unescaped and is then cleared, so every text event not preceded by it is escaped (raw_marker_used_once; "
              "counterexample without the reset); getMaximumCharacterValue(encoding) of the legacy serializer stays below the "
              "first unrepresentable scalar of every listed single-byte / UTF encoding (max_char_within_repertoire; Shift_JIS "
              "is the kernel-checked exception); text and "
              "attribute-value escaping read back to the same string for every sequence of XML Chars, every writer family, both "
              "XML versions, every representability predicate covering ASCII; forbidden characters, and with the committed "
              "repairs unpaired surrogates and U+FFFE/U+FFFF, end in an error, never output; CDATA round trip for every string "
              "(']]>' splitting, references outside the section); comment / PI data written as itself, ElemComment/ElemPI repair "
              "post-conditions; for every result tree the event-driven serializer equals a recursive function of the tree "
              "(document_structure, prolog included); for every document element whose strings are XML characters "
              "(TreeOk, RTreeOk) everything written from startDocument to endDocument - XML declaration with standalone or "
              "omitted, DOCTYPE PUBLIC/SYSTEM, root element - decodes strictly and the document reader returns exactly the tree "
              "(document_roundtrip_prolog); with indent=yes the serializer fails exactly when the plain one does, only inserts "
              "LF/space, is unit for unit the plain serializer behind a SAX filter that adds whitespace characters events "
              "(indent_is_whitespace_text), and the reader returns the tree plus whitespace-only text children none of which "
              "has a text or CDATA neighbour (indent_tree_roundtrip); the regenerated character tables agree with the "
              "Recommendations entry by entry; kernel-checked counterexamples for the CDATA code as it was before dc2c5a1. Tied "
              "to the working tree by the translator and by replaying generated SAX scripts (5 encodings x 2 versions x prolog "
              "options x indent amounts, directed buffer-boundary cases, one run of 511..2049 units as element / attribute name, "
              "raw text, PI target, comment, DOCTYPE identifier at varying buffer fill levels, exhaustive short strings) through the real "
              "serializers and the model.")
LEVEL_NOTE = ("Trusted: Lean kernel; axioms propext/Classical.choice/Quot.sound only; translate/c04_tables.py (regex over the "
              "source); the hand transcription of FormatterToXMLUnicode.hpp / XalanUTF8Writer.hpp / XalanUTF16Writer.hpp / "
              "XalanOtherEncodingWriter.hpp / XalanIndentWriter.hpp / XalanOutputStream::write+transcode sizing (checked by the "
              "correspondence run, bounded by generator coverage); ICU transcoders and canTranscodeTo are parameters "
              "(instantiated for ISO-8859-1, US-ASCII, UTF-32BE; the converters of ISO-2022-JP/KR, Shift_JIS, EUC-JP/KR, GB2312, GBK, Big5, "
              "UTF-7, SCSU are not modelled beyond the abstract shift-state machine - their real output is judged by "
              "independent decoders only); the document reader Spec.readDocument is a restriction of a "
              "conforming parser (no DTD subset, no namespaces, decimal references only; compared with Xerces on the real output "
              "wherever it returns a tree); Xerces-C is the re-parser. Hypotheses of the document theorems: strings are XML "
              "characters and names/comment/PI data literally writable (TreeOk); no empty or adjacent character-data children, "
              "PI data not starting with white space (RTreeOk); encoding name, standalone value, DOCTYPE identifiers printable "
              "ASCII without quote, '>' and '?'; ASCII root name when a DOCTYPE is written; a single document element (top-level "
              "comments/PIs are covered by document_structure, the event-level indentation theorems and the Xerces predicate "
              "only). Not modelled: the legacy FormatterToXML (reachable only by direct construction and as base of "
              "FormatterToHTML; run by the harness against the Xerces predicate; two known findings, one with a proposed "
              "repair r6); CR/NEL/LSEP in a comment or PI is read back as LF (known finding, XML has no escape there).")
DESIGN_REF = "DESIGN.md section 5, C04; design/C04.md"

THEOREMS = [
    "XalanModel.Props.C04.buffer_transparent",
    "XalanModel.Props.C04.buffer_in_bounds",
    "XalanModel.Props.C04.generated_stream_holdback",
    "XalanModel.Props.C04.stream_concat",
    "XalanModel.Props.C04.stream_no_split_pair",
    "XalanModel.Props.C04.generated_stream_is_intended",
    "XalanModel.Props.C04.stream_holdback_counterexample",
    "XalanModel.Props.C04.generated_bulk_flushes",
    "XalanModel.Props.C04.output_is_concatenation_of_writes",
    "XalanModel.Props.C04.bulk_without_flush_counterexample",
    "XalanModel.Props.C04.transcoding_chunked_eq_oneshot",
    "XalanModel.Props.C04.generated_probe_isolation",
    "XalanModel.Props.C04.probe_shared_converter_counterexample",
    "XalanModel.Props.C04.other_bulk_pair_aware",
    "XalanModel.Props.C04.other_bulk_unitwise_counterexample",
    "XalanModel.Props.C04.bulk_output_implies_wellformed",
    "XalanModel.Props.C04.bulk_check_accepts_legal",
    "XalanModel.Props.C04.bulk_unchecked_counterexample",
    "XalanModel.Props.C04.generated_raw_resets",
    "XalanModel.Props.C04.raw_only_after_marker",
    "XalanModel.Props.C04.raw_marker_used_once",
    "XalanModel.Props.C04.raw_flag_not_reset_counterexample",
    "XalanModel.Props.C04.max_char_within_repertoire",
    "XalanModel.Props.C04.max_char_shift_jis_counterexample",
    "XalanModel.Props.C04.utf8_roundtrip",
    "XalanModel.Props.C04.utf16_roundtrip",
    "XalanModel.Props.C04.content_roundtrip",
    "XalanModel.Props.C04.attr_roundtrip",
    "XalanModel.Props.C04.content_forbidden_is_error",
    "XalanModel.Props.C04.attr_forbidden_is_error",
    "XalanModel.Props.C04.content_output_implies_wellformed",
    "XalanModel.Props.C04.content_nonchar_counterexample",
    "XalanModel.Props.C04.generated_fixes_consistent",
    "XalanModel.Props.C04.repairs_on_witnesses",
    "XalanModel.Props.C04.generated_cdata_current",
    "XalanModel.Props.C04.cdata_roundtrip",
    "XalanModel.Props.C04.document_structure",
    "XalanModel.Props.C04.document_encoding",
    "XalanModel.Props.C04.document_roundtrip",
    "XalanModel.Props.C04.document_roundtrip_prolog",
    "XalanModel.Props.C04.generated_doc_hyp",
    "XalanModel.Props.C04.indent_off_same",
    "XalanModel.Props.C04.indent_only_inserts_whitespace",
    "XalanModel.Props.C04.indent_never_after_text",
    "XalanModel.Props.C04.indent_is_whitespace_text",
    "XalanModel.Props.C04.indent_tree_decoration",
    "XalanModel.Props.C04.indent_tree_roundtrip",
    "XalanModel.Props.C04.comment_roundtrip",
    "XalanModel.Props.C04.comment_repair_wellformed",
    "XalanModel.Props.C04.pi_repair_wellformed",
    "XalanModel.Props.C04.generated_tables_sound",
    "XalanModel.Props.C04.generated_cdata_is_known_variant",
    "XalanModel.Props.C04.cdata_unbalanced_counterexample",
    "XalanModel.Props.C04.cdata_close_outside_counterexample",
    "XalanModel.Props.C04.cdata_overread_counterexample",
    "XalanModel.Props.C04.cdata_fixed_on_witnesses",
]

ENCODINGS = ["UTF-8", "UTF-16", "ISO-8859-1", "US-ASCII", "UTF-32BE"]
VERSIONS = ["1.0", "1.1"]


def request_line(kind, enc, ver, doc):
    """`ver` may carry the header options after a bar: "1.0|decl=0,sa=-,sys=<hex>,pub=<hex>" (-> docx request)"""
    if "|" in ver:
        v, o = ver.split("|", 1)
        return "docx %s %s %s %s %s" % (kind, enc, v, o, " ".join(G.events(doc)))
    return "doc %s %s %s %s" % (kind, enc, ver, " ".join(G.events(doc)))


def gen_opts(r, enc, ver="1.0"):
    decl = 0 if (enc in ("UTF-8", "UTF-16", "US-ASCII") and r.chance(1, 2)) else 1
    if ver == "1.1":
        # without a declaration a parser reads the document as XML 1.0, where the references XML 1.1 needs for
        # restricted characters (&#8;) are not well-formed: omit-xml-declaration is only generated for version 1.0
        decl = 1
    sa = r.choice(["-", "-", G.hx(G.u("yes")), G.hx(G.u("no"))])
    sys_ = r.choice(["-", G.hx(G.u("a.dtd")), G.hx(G.u("http://x/y.dtd"))])
    pub = r.choice(["-", "-", G.hx(G.u("-//W3C//DTD XHTML 1.0 Strict//EN")), G.hx(G.u("-//X//DTD y//EN"))])
    ind = ",ind=%d" % r.range(0, 3) if r.chance(1, 2) else ""
    return "decl=%d,sa=%s,sys=%s,pub=%s%s" % (decl, sa, sys_, pub, ind)


def equal_modulo_indent(got, exp):
    """with indent="yes": the re-parse may contain additional text nodes made of line feeds and spaces only, and only at
    places where the tree has no text node (no text neighbour is touched); everything else must be identical"""
    i = j = 0
    ws = lambda tok: tok.startswith("t:") and all(u in (10, 32) for u in G.unhx(tok[2:]))
    while i < len(got) or j < len(exp):
        if i < len(got) and j < len(exp) and got[i] == exp[j]:
            i += 1; j += 1
        elif i < len(got) and ws(got[i]) and not (j < len(exp) and exp[j].startswith("t:")):
            i += 1
        else:
            return False, (i, j)
    return True, None


def judge(kind, enc, ver, doc, reply):
    """The property, evaluated on the implementation's own reply, independent of the model.
    Returns None (holds) or (key, what)."""
    indenting = "|" in ver and ",ind=" in ver
    ver = ver.split("|")[0]
    unrep, feats = G.features(doc, enc, ver)
    tag = "%s/%s/%s" % ("unicode" if kind == "U" else "legacy", "other-encoding" if enc in ("ISO-8859-1", "US-ASCII", "UTF-32BE") else enc, ver)
    allf = feats | unrep
    # "+supplementary" only says that a surrogate pair is present; it is kept in the key only when nothing else is
    core = set(f for f in allf if not f.endswith("+supplementary"))
    fl = ",".join(sorted(core or allf)) or "plain"
    if indenting:
        fl += "} {indent"
    if reply.startswith("err"):
        if unrep:
            return None
        return ("spurious-error[%s] %s {%s}" % (reply.split()[1] if len(reply.split()) > 1 else "?", tag, fl),
                "serializer raised an error on a tree that is representable: " + reply[:200])
    if not reply.startswith("ok "):
        return ("crash %s {%s}" % (tag, fl), "no reply / harness died: " + reply[:300])
    if enc == "UTF-32BE":
        sizes = reply.split()[2] if len(reply.split()) > 2 else "-"
        if sizes != "-" and any(int(x) % 4 for x in sizes.split(",")):
            return ("truncated-character %s {writeData-size-not-multiple-of-4}" % tag,
                    "UTF-32BE output contains half a character: writeData sizes " + sizes[-60:])
    parse = reply.split(" | ", 1)[1] if " | " in reply else "notwf <no parse>"
    if parse.startswith("notwf"):
        return ("not-well-formed %s {%s}" % (tag, fl), "output is not well-formed XML: " + parse[:200])
    got = parse.split()[1:]
    exp = G.expected(doc)
    if indenting and equal_modulo_indent(got, exp)[0]:
        return None
    if got != exp:
        k = 0
        while k < min(len(got), len(exp)) and got[k] == exp[k]:
            k += 1
        return ("parse-differs %s {%s}" % (tag, fl),
                "re-parse differs from the tree at event %d: got %s expected %s" % (
                    k, got[k] if k < len(got) else "<end>", exp[k] if k < len(exp) else "<end>"))
    if unrep:
        # cannot happen for a correct parser: the tree was classified unrepresentable yet came back intact
        return None
    return None


def strip_parse(reply):
    return reply.split(" | ", 1)[0]


def run_batch(harness, model, lines, work, tag):
    req = os.path.join(work, "c04_%s.req" % tag)
    with open(req, "w") as f:
        f.write("\n".join(lines) + "\n")
    il, ml, irc, mrc, ierr, merr = common.run_pair(
        [harness], [model], req,
        impl_env={"ASAN_OPTIONS": "detect_leaks=0:abort_on_error=0", "UBSAN_OPTIONS": "print_stacktrace=1"})
    return il, ml, irc, ierr, merr


def run_one(harness, model, line, work):
    il, ml, irc, ierr, merr = run_batch(harness, model, [line], work, "one")
    i = il[0] if il else "crash " + ierr[-400:].replace("\n", " ")
    m = ml[0] if ml else "nomodel"
    return i, m


# ---- shrinking ---------------------------------------------------------------------------------------
def leaves(n):
    if n[0] == "el":
        for ch in n[3]:
            for x in leaves(ch):
                yield x
    else:
        yield n


def shrink_candidates(doc):
    """smaller variants of a document tree: first every single leaf / single attribute alone under a bare root
    (most failures are caused by one node), then local deletions"""
    if doc[0] == "el" and (len(doc[3]) > 1 or doc[2] or any(k[0] == "el" for k in doc[3])):
        for lf in leaves(doc):
            if not (lf[0] in ("t", "m") and len(lf[1]) > 300):      # not the pad
                yield ("el", G.u("r"), [], [lf])

        def attrs_of(n):
            if n[0] == "el":
                for a in n[2]:
                    yield a
                for ch in n[3]:
                    for x in attrs_of(ch):
                        yield x
        for a in attrs_of(doc):
            yield ("el", G.u("r"), [a], [])
    for c in _local_candidates(doc):
        yield c


def _local_candidates(doc):
    def rec(n):
        k = n[0]
        if k == "el":
            kids = n[3]
            for i in range(len(kids)):
                yield (k, n[1], n[2], kids[:i] + kids[i + 1:])
            for i in range(len(n[2])):
                yield (k, n[1], n[2][:i] + n[2][i + 1:], kids)
            for i, (a, v) in enumerate(n[2]):
                for v2 in shorter(v):
                    yield (k, n[1], n[2][:i] + [(a, v2)] + n[2][i + 1:], kids)
            for i in range(len(kids)):
                for sub in rec(kids[i]):
                    yield (k, n[1], n[2], kids[:i] + [sub] + kids[i + 1:])
        elif k in ("t", "c"):
            for s in shorter(n[1]):
                yield (k, s, n[2])
            if n[2] is not None:
                yield (k, n[1], None)
        elif k in ("m", "r", "rt", "rc"):
            for s in shorter(n[1]):
                # a shrunk string must still be something ElemComment hands over (no "--", no trailing "-")
                if k != "m" or G.strip_for_comment(s) == s:
                    yield (k, s)
        elif k == "p":
            for s in shorter(n[2]):
                if G.strip_for_pi(s) == s:             # ... and ElemPI: deleting the middle of "?x>" must not make "?>"
                    yield (k, n[1], s)
    return rec(doc)


def shorter(s):
    if len(s) > 8:
        yield s[:len(s) // 2]
        yield s[len(s) // 2:]
    if len(s) > 64:
        return
    for i in range(len(s)):
        yield s[:i] + s[i + 1:]
    for i in range(len(s) - 1):
        if 0xD800 <= s[i] <= 0xDBFF:          # a surrogate pair goes as a whole
            yield s[:i] + s[i + 2:]


def key_class(key):
    return key.split(" ")[0]


CRASHES = []


def run_impl(harness, lines, work, tag):
    """implementation replies for the request lines; a line on which the harness dies (sanitizer abort, signal)
    gets the reply "crash ..." and the rest is re-run"""
    out = []
    start = 0
    env = dict(os.environ)
    env.update({"ASAN_OPTIONS": "detect_leaks=0:abort_on_error=0", "UBSAN_OPTIONS": "print_stacktrace=1"})
    while start < len(lines):
        req = os.path.join(work, "c04_%s.req" % tag)
        with open(req, "w") as f:
            f.write("\n".join(lines[start:]) + "\n")
        with open(req, "rb") as f:
            p = subprocess.run([harness], stdin=f, stdout=subprocess.PIPE, stderr=subprocess.PIPE, env=env, timeout=1800)
        got = p.stdout.decode("utf-8", "replace").split("\n")
        if got and got[-1] == "":
            got.pop()
        got = got[:len(lines) - start]
        out += got
        start += len(got)
        if start < len(lines):
            err = p.stderr.decode("utf-8", "replace")
            m = re.search(r"(ERROR: AddressSanitizer: [^\n]*|runtime error: [^\n]*|terminate called[^\n]*)", err)
            what = m.group(1) if m else "exit status %s" % p.returncode
            out.append("crash " + what[:200].replace("\n", " "))
            if len(CRASHES) < 20:
                CRASHES.append((lines[start][:400], what[:300]))
            start += 1
    return out


def shrink_many(harness, model, work, fails, mode, rounds=150, width=60):
    """fails: list of (kind, enc, ver, doc, cls).  Greedy shrinking of all of them together, one harness
    invocation per round: for each still-active tree take its first `width` smaller variants, keep the first
    that still fails the same way (mode 'judge': same violation class on the implementation's reply;
    mode 'model': implementation != model)."""
    cur = [f[3] for f in fails]
    active = set(range(len(fails)))
    for _ in range(rounds):
        if not active:
            break
        lines, owner = [], []
        for fi in sorted(active):
            k, e, v, _, cls = fails[fi]
            n = 0
            for c in shrink_candidates(cur[fi]):
                if c == cur[fi]:
                    continue
                lines.append(request_line(k, e, v, c))
                owner.append((fi, c))
                n += 1
                if n >= width:
                    break
        if not lines:
            break
        if mode == "judge":
            il = run_impl(harness, lines, work, "shrink")
            ml = [None] * len(lines)
        else:
            il, ml, irc, ierr, merr = run_batch(harness, model, lines, work, "shrink")
        picked = {}
        for n, (fi, cand) in enumerate(owner):
            if fi in picked:
                continue
            k, e, v, _, cls = fails[fi]
            i = il[n] if n < len(il) else "crash"
            if mode == "judge":
                j = judge(k, e, v, cand, i)
                ok = j is not None and key_class(j[0]) == cls
            else:
                m = ml[n] if n < len(ml) else "nomodel"
                ok = not same_reply(i, m) and m not in ("skip", "bad", "nomodel")
            if ok:
                picked[fi] = cand
        for fi in list(active):
            if fi in picked:
                cur[fi] = picked[fi]
            else:
                active.discard(fi)
    return cur


def shrink(harness, model, work, kind, enc, ver, doc, cls, mode):
    return shrink_many(harness, model, work, [(kind, enc, ver, doc, cls)], mode)[0]


def same_reply(i, m):
    if strip_parse(i) == strip_parse(m):
        return True
    return i.startswith("err") and m.startswith("err") and i.split()[1:2] == m.split()[1:2]


# ---- corpus (minimised past failures / DESIGN §6 items 17, 18 and what the harness found) -------------
def _el(*kids, name="r", attrs=()):
    return ("el", G.u(name), list(attrs), list(kids))


CORPUS = [
    ("U", "US-ASCII", "1.0", _el(("c", G.u("é"), None))),                       # §6 item 18: unbalanced section
    ("U", "US-ASCII", "1.0", _el(("c", G.u("é]]>"), None))),                    # §6 item 18: "]]>" outside a section
    ("U", "UTF-8", "1.0", _el(("c", G.u("a]]"), G.u(">") + [0]))),              # §6 item 17: look-ahead past length
    ("U", "UTF-8", "1.0", _el(("c", G.u("a]]>b"), None))),
    ("U", "ISO-8859-1", "1.0", _el(("c", G.u("é]]>Ω]]>x"), None))),
    ("U", "US-ASCII", "1.0", _el(("m", G.u("é")))),
    ("U", "US-ASCII", "1.0", _el(("p", G.u("pi"), G.u("é")))),
    ("U", "UTF-8", "1.1", _el(("m", [9]))),
    ("U", "UTF-8", "1.0", _el(("t", [0xDC00], None))),
    ("U", "UTF-16", "1.0", _el(("t", [0xD800], None))),
    ("U", "UTF-8", "1.0", _el(("t", [0xFFFF], None))),
    ("U", "UTF-8", "1.0", _el(("t", [97] * 470, None), ("t", G.u("𝒳€é"), None))),
    ("U", "US-ASCII", "1.0", _el(("t", [97] * 466, None), ("t", G.u("𝒳€é"), None))),
    ("U", "UTF-16", "1.1", _el(("t", G.u("a\r\n\t\u0085 <&>\""), None), attrs=[(G.u("k"), G.u("a\r\n\t\"<&>'"))])),
    ("L", "US-ASCII", "1.0", _el(("c", G.u("é]]>"), None), ("m", G.u("ok")))),
]


def run(ctx):
    ctx.rule = ("a case = one result tree (SAX event script) x serializer (factory product / legacy FormatterToXML) x encoding "
                "x XML version, replayed on the real code; non-trivial = the tree contains at least one character needing "
                "escaping, a multi-unit character, a CDATA section, a comment/PI or lands text across a 512 boundary "
                "(output > 512 bytes); distinct = distinct request text")
    ctx.trusted += [
        "translate/c04_tables.py (regex over XalanXMLSerializerBase.{hpp,cpp}, FormatterToXMLUnicode.hpp, writers, XalanUnicode.hpp)",
        "harness/c04_serializer.cpp + gen/c04_docs.py + checks/c04.py (generator, expectation, comparison)",
        "Xerces-C SAX2 parser as the independent reader of the real output",
        "modelled, not verified: ICU transcoders / canTranscodeTo (parameter canEnc; ISO-8859-1 and US-ASCII instantiated), "
        "indenting variants (XalanIndentWriter), doctype/standalone header variants, FormatterToXML (spec predicate only)",
    ]
    ctx.build("hooks")
    ctx.translate("c04_tables")
    if not ctx.lean("XalanModel.Props.C04", THEOREMS, extra_targets=["xm_c04"]):
        # a theorem over the regenerated definitions no longer checks: lake may have stopped before the driver; the
        # model must still follow the working tree (a stale binary would blur the correspondence obligations)
        common.lake_build(["xm_c04"])
    model = ctx.exe("xm_c04")
    harness = common.build_harness("c04_serializer", ["c04_serializer.cpp"], flavor="hooks", sanitize=True)
    work = os.path.join(common.CACHE, "work")
    os.makedirs(work, exist_ok=True)
    if model is None:
        return

    # vlib's Rng streams of neighbouring seeds are the same stream shifted by one draw; spread the seeds out
    r = Rng(int(hashlib.sha256(b"C04:%d" % ctx.seed).hexdigest()[:15], 16))
    cases = [(k, e, v, d, "corpus") for (k, e, v, d) in CORPUS]
    ndocs = 1200 if not ctx.thorough else 20000
    for n in range(ndocs):
        dirty = r.chance(1, 8)
        doc = G.gen_doc(r, dirty)
        enc = r.choice(ENCODINGS)
        ver = r.weighted([("1.0", 3), ("1.1", 2)])
        if r.chance(1, 4):
            # prolog variants: omit-xml-declaration, standalone, doctype-system / doctype-public (XHTML: " />")
            cases.append(("U", enc, ver + "|" + gen_opts(r, enc, ver), doc, "gen"))
            ctx.hist["prolog-variant"] = ctx.hist.get("prolog-variant", 0) + 1
        else:
            cases.append(("U", enc, ver, doc, "gen"))
        if r.chance(1, 8) and enc != "UTF-32BE":
            # the legacy serializer is run on the four classic encodings only (its maximum-character table does not
            # know UTF-32 and it escapes everything above 0x7F there, also inside comments and names); since 99e2481
            # (XalanOutputStream holds back half a surrogate pair) trees with supplementary characters are sent too
            cases.append(("L", enc, ver.split("|")[0], doc, "gen"))
    repair_correspondence(ctx, model, work, r)
    cases += boundary_cases(ctx.thorough)
    cases += long_run_cases(ctx.thorough)
    cases += raw_marker_cases(ctx.thorough)
    cases += periodic_pair_cases(ctx.thorough)
    cases += raw_supplementary_cases(ctx.thorough)
    cases += bulk_noncharacter_cases(ctx.thorough)
    cases += forbidden_control_cases(ctx.thorough)
    if ctx.thorough:
        cases += exhaustive_cases()

    lines = [request_line(k, e, v, d) for (k, e, v, d, _) in cases]
    il, ml, irc, ierr, merr = run_batch(harness, model, lines, work, "main")
    if len(il) < len(lines):
        # the harness died (sanitizer abort is a result): find the line and report it as a crash
        bad = len(il)
        k, e, v, d, _ = cases[bad]
        small = shrink(harness, model, work, k, e, v, d, "crash", "judge")
        j = judge(k, e, v, small, "crash")
        ctx.fail(j[0], "harness aborted (sanitizer/crash): " + ierr[-800:], request_line(k, e, v, small))
        cases = cases[:bad]
    reader_correspondence(ctx, model, work, cases, il)
    filter_correspondence(ctx, model, harness, work, cases, il)
    agree = True
    disagreements = []
    fails = []
    differ = []
    for idx, (k, e, v, d, src) in enumerate(cases):
        ireply = il[idx]
        mreply = ml[idx] if idx < len(ml) else "nomodel " + merr[-200:]
        unrep, feats = G.features(d, e, v.split("|")[0])
        big = ireply.startswith("ok ") and len(ireply.split()[1]) > 1024
        nontriv = bool(feats) or big or any(ch[0] in ("c", "m", "p") for ch in d[3])
        ctx.case(nontrivial_key=lines[idx] if nontriv else None,
                 sample=lines[idx][:300] if idx in (len(CORPUS), len(CORPUS) + 1, 0, 1) else None,
                 cls="%s/%s/%s" % (k, e, v.split("|")[0]))
        for f in feats:
            ctx.hist["feat:" + f] = ctx.hist.get("feat:" + f, 0) + 1
        if ireply.startswith("err"):
            ctx.hist["reply:err"] = ctx.hist.get("reply:err", 0) + 1
        if ireply.startswith("ok ") and len(ireply.split()) > 2 and "," in ireply.split()[2]:
            ctx.hist["output:multi-chunk"] = ctx.hist.get("output:multi-chunk", 0) + 1
        j = judge(k, e, v, d, ireply)
        if j is not None:
            fails.append((k, e, v, d, key_class(j[0]), j))
        if k == "U" and not same_reply(ireply, mreply):
            agree = False
            if len(differ) < 5:
                differ.append((k, e, v, d, ""))
    # every failing tree is shrunk first, so that its key names only the ingredients that matter; trees with the same
    # serializer/encoding/version, violation class and feature set are shrunk once (the first stands for the group)
    if fails:
        groups = {}
        for f in fails:
            groups.setdefault((f[0], f[1], f[2], f[5][0]), []).append(f)
        reps = [g[0] for g in groups.values()]
        if os.environ.get("C04_DEBUG_FAILS"):
            with open(os.environ["C04_DEBUG_FAILS"], "w") as f:
                for g in reps:
                    f.write(g[5][0] + " || " + request_line(g[0], g[1], g[2], g[3])[:3000] + "\n")
        smalls = shrink_many(harness, model, work, [f[:5] for f in reps], "judge")
        replies = run_impl(harness, [request_line(f[0], f[1], f[2], sm) for f, sm in zip(reps, smalls)], work, "shrunk")
        for f, sm, i2 in zip(reps, smalls, replies + ["crash"] * (len(smalls) - len(replies))):
            j2 = judge(f[0], f[1], f[2], sm, i2) or f[5]
            for _ in groups[(f[0], f[1], f[2], f[5][0])]:
                ctx.fail(j2[0], j2[1] + " ; impl: " + strip_parse(i2)[:300], request_line(f[0], f[1], f[2], sm))
        ctx.extra["failing_trees"] = len(fails)
        ctx.extra["failing_groups_shrunk"] = len(reps)
    if differ:
        smalls = shrink_many(harness, model, work, differ, "model")
        for f, sm in zip(differ, smalls):
            i2, m2 = run_one(harness, model, request_line(f[0], f[1], f[2], sm), work)
            disagreements.append({"request": request_line(f[0], f[1], f[2], sm), "impl": strip_parse(i2)[:600], "model": strip_parse(m2)[:600]})
            # DESIGN §3: does the shrunk disagreeing input violate the property on the implementation?
            j3 = judge(f[0], f[1], f[2], sm, i2)
            if j3 is not None:
                ctx.fail(j3[0], j3[1], request_line(f[0], f[1], f[2], sm))
    multibyte_cases(ctx, harness, work, r)
    stream_cases(ctx, harness, model, work)
    ctx.extra["model_disagreements"] = disagreements
    ctx.extra["harness_crashes_while_shrinking"] = CRASHES[:10]
    ctx.oblige("correspondence: FormatterToXMLUnicode (real code, bytes + writeData chunk sizes + error kind) = Lean model on every generated script",
               "correspondence", agree, json.dumps(disagreements)[:1800])
    ctx.oblige("harness exits cleanly", "correspondence", irc == 0 or len(il) < len(lines), ierr[-1200:])
    ctx.exhaustive = False


def judge_multibyte(enc, doc, reply):
    """None or (class, what): the real bytes are decoded strictly by Python's codec for the declared encoding (SCSU: the
    decoder of gen/c04_multibyte.py), the decoded text is re-parsed by expat, and the events must be the tree"""
    if reply.startswith("err"):
        return ("mb-spurious-error", "serializer raised an error: " + reply[:200])
    if not reply.startswith("ok "):
        return ("mb-crash", "no reply / harness died: " + reply[:300])
    data = bytes.fromhex(reply.split()[1]) if reply.split()[1] != "-" else b""
    try:
        text = MB.decode_sb(enc, data) if enc in MB.SINGLE_BYTE else MB.decode(enc, data)
    except Exception as ex:
        return ("mb-undecodable", "output is not valid %s: %s" % (enc, str(ex)[:160]))
    try:
        got = MB.reparse(text)
    except Exception as ex:
        return ("mb-not-well-formed", "decoded output is not well-formed: %s" % str(ex)[:160])
    exp = G.expected(doc)
    if got != exp:
        k = 0
        while k < min(len(got), len(exp)) and got[k] == exp[k]:
            k += 1
        a, b = (got[k] if k < len(got) else "<end>"), (exp[k] if k < len(exp) else "<end>")
        pos = 0
        if a[:2] == b[:2] == "t:":
            ua, ub = G.unhx(a[2:]), G.unhx(b[2:])
            while pos < min(len(ua), len(ub)) and ua[pos] == ub[pos]:
                pos += 1
            a, b = "t:…" + G.hx(ua[pos:pos + 12]), "t:…" + G.hx(ub[pos:pos + 12])
        return ("mb-parse-differs", "decoded and re-parsed output differs from the tree at event %d, unit %d: got %s expected %s"
                % (k, pos, a[:80], b[:80]))
    return None


def multibyte_cases(ctx, harness, work, r):
    """transcoder-backed multi-byte / stateful encodings (no Lean converter model): real serializer, independent decoder,
    expat re-parse.  Key: "<class> multibyte/<encoding>/<script kind>" """
    todo = []
    for enc in MB.ENCODINGS:
        for name, doc in MB.scripts(r, enc, ctx.thorough):
            todo.append(("U", enc, name, doc))
    # single-byte encodings beside ISO-8859-1: characters just inside / outside each repertoire, BOTH serializers
    # (the legacy one decides by getMaximumCharacterValue(encoding), the factory one asks the transcoder)
    for enc in MB.SINGLE_BYTE:
        for name, doc in MB.scripts_sb(r, enc, ctx.thorough):
            todo.append(("U", enc, name, doc))
            todo.append(("L", enc, name, doc))
    # the legacy serializer with the one multi-byte encoding its table lists
    todo.append(("L", "Shift_JIS", "short", ("el", G.u("r"), [], [("t", G.u("a\u00e9\u30a2b"), None)])))
    lines = [request_line(k, enc, "1.0", doc) for k, enc, name, doc in todo]
    replies = run_impl(harness, lines, work, "multibyte")
    per = {}
    nfail = 0
    agree = {}
    for (k, enc, name, doc), line, reply in zip(todo, lines, replies + ["crash"] * (len(lines) - len(replies))):
        ctx.case(nontrivial_key=line, sample=None, cls="%s/%s/1.0" % (k, enc))
        st = per.setdefault(enc + ("" if k == "U" else " (legacy)"), {"documents": 0, "ok": 0})
        st["documents"] += 1
        j = judge_multibyte(enc, doc, reply)
        if j is None:
            st["ok"] += 1
            continue
        nfail += 1
        ctx.fail("%s %s/%s/%s" % (j[0], "multibyte" if k == "U" else "multibyte-legacy", enc, name.split(":")[0]),
                 j[1] + " ; impl: " + strip_parse(reply)[:200], line[:4000])
    ctx.extra["multibyte"] = per
    ctx.oblige("multi-byte / stateful encodings (%s): %d documents through the real serializer, decoded by an independent decoder"
               % (", ".join(list(MB.ENCODINGS) + list(MB.SINGLE_BYTE)), len(todo)), "correspondence", len(replies) == len(lines), "harness died")


def repair_correspondence(ctx, model, work, r):
    """ElemComment / ElemPI data repair: the real `Xalan` CLI on one generated stylesheet with many xsl:comment and
    xsl:processing-instruction instructions, against `repairComment` / `repairPI` of the model."""
    import itertools
    strings = []
    if ctx.thorough:
        for n in range(0, 6):
            for t in itertools.product("-?>a", repeat=n):
                strings.append("".join(t))
    else:
        for n in range(0, 4):
            for t in itertools.product("-?>a", repeat=n):
                strings.append("".join(t))
        for _ in range(200):
            strings.append("".join(r.choice("--??>>a b") for _ in range(r.range(0, 9))))
    esc = lambda t: t.replace("&", "&amp;").replace("<", "&lt;").replace(">", "&gt;")
    body = "".join('<xsl:comment><xsl:text>%s</xsl:text></xsl:comment><xsl:processing-instruction name="p"><xsl:text>%s</xsl:text>'
                   '</xsl:processing-instruction>\n' % (esc(t), esc(t)) for t in strings)
    xsl = ('<?xml version="1.0"?><xsl:stylesheet version="1.0" xmlns:xsl="http://www.w3.org/1999/XSL/Transform">'
           '<xsl:output method="xml" encoding="UTF-8"/><xsl:template match="/"><r>' + body + '</r></xsl:template></xsl:stylesheet>')
    xp, sp = os.path.join(work, "c04_repair.xml"), os.path.join(work, "c04_repair.xsl")
    open(xp, "w").write("<d/>")
    open(sp, "w").write(xsl)
    cli = os.path.join(common.build_dir("hooks"), "src", "xalanc", "Xalan")
    rc, out = common.sh([cli, xp, sp], timeout=300)
    got_c = re.findall(r"<!--(.*?)-->", out, re.S)
    got_p = re.findall(r"<\?p(.*?)\?>", out, re.S)
    req = os.path.join(work, "c04_repair.req")
    with open(req, "w") as f:
        for t in strings:
            f.write("repairc %s\nrepairp %s\n" % (G.hx(G.u(t)), G.hx(G.u(t))))
    p = subprocess.run([model], stdin=open(req, "rb"), stdout=subprocess.PIPE)
    ml = p.stdout.decode().split("\n")
    bad = []
    ok = rc == 0 and len(got_c) == len(strings) and len(got_p) == len(strings)
    if ok:
        for k, t in enumerate(strings):
            mc = "".join(chr(x) for x in G.unhx(ml[2 * k]))
            mp = "".join(chr(x) for x in G.unhx(ml[2 * k + 1]))
            raw_p = ("" if (not mp or mp[0] in " \t\r\n") else " ") + mp
            ctx.case(nontrivial_key="repair:" + t if ("--" in t or t.endswith("-") or "?>" in t) else None, cls="repair")
            if got_c[k] != mc or got_p[k] != raw_p:
                bad.append({"data": t, "comment": got_c[k], "model_comment": mc, "pi": got_p[k], "model_pi": raw_p})
            # the property itself, on the implementation's output
            if "--" in got_c[k] or got_c[k].endswith("-"):
                ctx.fail("repair.comment-not-wellformed: %r" % t, "xsl:comment data %r written as %r" % (t, got_c[k]), t)
            if got_c[k].replace(" ", "") != t.replace(" ", "") or got_p[k].replace(" ", "") != t.replace(" ", ""):
                ctx.fail("repair.data-changed: %r" % t, "comment %r / PI %r for data %r" % (got_c[k], got_p[k], t), t)
    ctx.oblige("correspondence: ElemComment/ElemPI repair through the Xalan CLI = repairComment/repairPI on %d strings" % len(strings),
               "correspondence", ok and not bad, ("rc=%d comments=%d pis=%d " % (rc, len(got_c), len(got_p))) + json.dumps(bad[:3]) + out[-300:] if not (ok and not bad) else "")


def reader_correspondence(ctx, model, work, cases, il):
    """the specification reader of the proofs (Spec.readDocument = prolog steps + Spec.readDoc) against Xerces on the *real* output: wherever the Lean
    reader returns a tree it must be the tree Xerces reports (it is a restriction of a conforming parser)"""
    codec = {"UTF-8": "utf-8", "UTF-16": "utf-16", "ISO-8859-1": "latin-1", "US-ASCII": "ascii", "UTF-32BE": "utf-32-be"}
    reqs, meta = [], []
    for idx, (k, e, v, d, src) in enumerate(cases):
        if k != "U" or idx >= len(il) or not il[idx].startswith("ok ") or " | wf" not in il[idx]:
            continue
        w = il[idx].split()
        try:
            text = bytes.fromhex(w[1]).decode(codec[e], "surrogatepass")
        except Exception:
            continue
        if text.startswith("\ufeff"):
            text = text[1:]
        text = text.rstrip("\n ")        # the prolog is the Lean reader's business (Spec.readDocument)
        units = G.u(text)
        reqs.append("read %s %s" % (v.split("|")[0], G.hx(units)))
        meta.append((idx, il[idx].split(" | ", 1)[1].split()[1:]))
        if len(reqs) >= (4000 if ctx.thorough else 800):
            break
    if not reqs:
        return
    req = os.path.join(work, "c04_read.req")
    with open(req, "w") as f:
        f.write("\n".join(reqs) + "\n")
    p = subprocess.run([model], stdin=open(req, "rb"), stdout=subprocess.PIPE)
    ml = p.stdout.decode().split("\n")
    bad, trees = [], 0
    for n, (idx, xer) in enumerate(meta):
        r = ml[n] if n < len(ml) else "nomodel"
        if r.startswith("tree"):
            trees += 1
            if r.split()[1:] != xer:
                bad.append({"request": reqs[n][:300], "lean": r[:300], "xerces": " ".join(xer)[:300]})
    ctx.extra["spec_reader"] = {"documents": len(reqs), "read_by_lean_reader": trees, "differ_from_xerces": len(bad)}
    ctx.oblige("correspondence: Spec.readDocument (the reader of document_roundtrip[_prolog]) = Xerces on %d real outputs, prolog included (%d read)" % (len(reqs), trees),
               "correspondence", not bad and trees > 0, json.dumps(bad[:2]))


def filter_correspondence(ctx, model, harness, work, cases, il):
    """indent_is_whitespace_text / indent_tree_roundtrip on the real code: the *real indenting* serializer on the events
    must write what the *real plain* serializer writes on the events behind the Lean filter (`decorEvents`, whitespace
    as explicit characters events), up to the line break after the XML declaration and the one endDocument appends"""
    codec = {"UTF-8": "utf-8", "UTF-16": "utf-16", "ISO-8859-1": "latin-1", "US-ASCII": "ascii", "UTF-32BE": "utf-32-be"}
    reqs, meta = [], []
    for idx, (k, e, v, d, src) in enumerate(cases):
        if k != "U" or "|" not in v or ",ind=" not in v or idx >= len(il) or not il[idx].startswith("ok "):
            continue
        ver, opts = v.split("|", 1)
        amount = opts.rsplit(",ind=", 1)[1]
        reqs.append("filter %s %s" % (amount, " ".join(G.events(d))))
        meta.append((idx, e, ver, opts.rsplit(",ind=", 1)[0]))
        if len(reqs) >= (3000 if ctx.thorough else 600):
            break
    if not reqs:
        return
    req = os.path.join(work, "c04_filter.req")
    with open(req, "w") as f:
        f.write("\n".join(reqs) + "\n")
    p = subprocess.run([model], stdin=open(req, "rb"), stdout=subprocess.PIPE)
    ml = p.stdout.decode().split("\n")
    plain_lines, keep = [], []
    for n, (idx, e, ver, opts) in enumerate(meta):
        r = ml[n] if n < len(ml) else ""
        if r.startswith("events"):
            plain_lines.append("docx U %s %s %s %s" % (e, ver, opts, " ".join(r.split()[1:])))
            keep.append((idx, e, n))
    pl = run_impl(harness, plain_lines, work, "filter")

    def body(reply, e):
        text = bytes.fromhex(reply.split()[1]).decode(codec[e], "surrogatepass")
        if text.startswith("\ufeff"):
            text = text[1:]
        if text.startswith("<?xml"):
            text = text[text.index("?>") + 2:]
        return text.lstrip("\n").rstrip("\n")
    bad, same = [], 0
    for m, (idx, e, n) in enumerate(keep):
        a, b = il[idx], pl[m] if m < len(pl) else "noreply"
        try:
            ok = b.startswith("ok ") and body(a, e) == body(b, e)
        except Exception:
            ok = False
        if ok:
            same += 1
        else:
            bad.append({"request": reqs[n][:300], "indenting": a[:200], "plain_on_filtered": b[:200]})
    ctx.extra["indent_filter"] = {"documents": len(keep), "same_bytes": same, "differ": len(bad)}
    ctx.oblige("correspondence: real indenting serializer = real plain serializer behind the Lean indentation filter "
               "(decorEvents of indent_is_whitespace_text) on %d documents" % len(keep),
               "correspondence", not bad and same > 0, json.dumps(bad[:2]))


def boundary_cases(thorough):
    """directed: every representative of a multi-unit write placed so that it starts at each offset 505..520
    (and 1017..1032) of the writer's 512-entry buffer, as text, attribute value, CDATA and comment"""
    out = []
    reps = [G.u("é"), G.u("€"), G.u("𝒳"), G.u("<"), G.u("\r"), G.u("]]>"), G.u("\u0085")]
    for enc in ENCODINGS:
        for ver in (VERSIONS if thorough else ["1.0"]):
            base = 33 + len(enc) + 3          # <?xml version="1.0" encoding="ENC"?> + <r>
            for target in list(range(505, 521)) + ([1017, 1022, 1023, 1024, 1025, 1030] if not thorough else list(range(1017, 1033))):
                pad = target - base
                for s in reps:
                    out.append(("U", enc, ver, _el(("t", [97] * pad, None), ("t", s * 2 + [98] + s, None)), "boundary"))
                    if thorough or target % 4 == 1:
                        out.append(("U", enc, ver, _el(("m", [98] * (pad - 4)), ("c", s * 3, None)), "boundary"))
                        out.append(("U", enc, ver, ("el", G.u("r"), [(G.u("k"), [97] * (pad - 2) + s * 3)], []), "boundary"))
    return out


PAIR = [0xD835, 0xDCB3]
SPACINGS = [510, 511, 512, 513, 1024]


def periodic_units(first, spacing, count=5, tail=30):
    """'a's with a surrogate pair whose leading half sits at unit `first`, `first + spacing`, ..."""
    out = [97] * (first + spacing * (count - 1) + 2 + tail)
    for k in range(count):
        out[first + spacing * k] = PAIR[0]
        out[first + spacing * k + 1] = PAIR[1]
    return out


def periodic_pair_cases(thorough):
    """directed: supplementary characters at periodic spacings of 510 / 511 / 512 / 513 / 1024 units, the first one at
    every alignment 0..3 around a 512-unit boundary of the output (FormatterToXML cuts its output into runs of exactly 512
    units, wherever that falls, and XalanOutputStream must hold back half a pair again and again), through the legacy and
    the factory serializer"""
    out = []
    for enc, kinds in (("UTF-8", "UL"), ("UTF-16", "UL"), ("ISO-8859-1", "L"), ("US-ASCII", "L"), ("UTF-32BE", "U")):
        hdr = len('<?xml version="1.0" encoding="%s"?><r>' % enc)
        for ver in (VERSIONS if thorough else ["1.0"]):
            for sp in SPACINGS:
                for a in range(4):
                    doc = _el(("t", periodic_units(509 + a - hdr, sp), None))
                    for k in kinds:
                        out.append((k, enc, ver, doc, "periodic"))
                    if thorough or a == 2:
                        doc2 = ("el", G.u("r"), [(G.u("k"), periodic_units(509 + a - hdr - 4, sp))], [])
                        for k in kinds:
                            out.append((k, enc, ver, doc2, "periodic"))
    return out


def other_bulk_pair_aware():
    """the variant of XalanOtherEncodingWriter::write(chars, n) the translator read from the working tree"""
    try:
        return "def otherBulkPairAware : Bool := true" in open(
            os.path.join(common.ROOT, "lean", "XalanModel", "Generated", "C04_Tables.lean")).read()
    except OSError:
        return False


def raw_supplementary_cases(thorough):
    """directed: unescaped text (charactersRaw, and the marker PI + characters / cdata) with supplementary characters and
    with BMP characters the encoding lacks: the writer's bulk write must write ONE reference per character"""
    out = []
    txt = G.u("a\U0001F600b\u20acc\U00010000")
    docs = [_el(("r", txt)), _el(("rt", txt), ("t", G.u("<"), None)), _el(("rc", txt)),
            _el(("t", [120] * 505, None), ("r", txt * 3))]
    # as long as XalanOtherEncodingWriter::write(chars, n) goes unit by unit, UTF-32BE is left out: what ICU answers to
    # canTranscodeTo(half a pair) depends on the converter's pending state, which the unit-wise model does not have
    pair_aware = other_bulk_pair_aware()
    for enc in ENCODINGS:
        if enc == "UTF-32BE" and not pair_aware:
            continue
        for ver in (VERSIONS if thorough else ["1.0"]):
            for d in docs:
                out.append(("U", enc, ver, d, "raw-supplementary"))
    return out


def bulk_noncharacter_cases(thorough):
    """directed: what is handed to the writers' BULK writes - element / attribute names, PI targets, unescaped text
    (charactersRaw and marker + characters / cdata) - with an unpaired surrogate or U+FFFF / U+FFFE: no XML document has
    them, the only right answer is an error"""
    out = []
    bads = [[97, 0xDC00, 98], [97, 0xD800], [0xD800, 98], [97, 0xFFFF]] + ([[97, 0xFFFE, 98], [0xDC00, 0xD800]] if thorough else [])
    for enc in ENCODINGS:
        for b in bads:
            docs = [_el(("el", b, [], [])), ("el", G.u("r"), [(b, G.u("v"))], []), _el(("p", b, G.u("d")))]
            if enc != "UTF-32BE" or other_bulk_pair_aware():      # see raw_supplementary_cases
                docs += [_el(("r", b)), _el(("rt", b)), _el(("rc", b))]
            for d in docs:
                out.append(("U", enc, "1.0", d, "bulk-nonchar"))
    return out


def forbidden_control_cases(thorough):
    """directed: the C0 controls XML 1.0 forbids (and U+0000 / U+FFFE / U+FFFF) in every literal position of a SAX script -
    comment, PI data, CDATA section, text, attribute value: the only right answer is an error, never output"""
    out = []
    bad = [0x01, 0x08, 0x0B, 0x0C, 0x0E, 0x1F] + ([0x02, 0x10, 0x1B, 0xFFFE, 0xFFFF] if thorough else [0xFFFF])
    for enc in ENCODINGS:
        for c in bad:
            for doc in (_el(("m", [97, c, 98])), _el(("p", G.u("t"), [97, c, 98])), _el(("c", [97, c, 98], None)),
                        _el(("t", [97, c, 98], None)), ("el", G.u("r"), [(G.u("k"), [97, c, 98])], [])):
                out.append(("U", enc, "1.0", doc, "forbidden"))
    return out


def stream_cases(ctx, harness, model, work):
    """XalanOutputStream alone (harness command `stream`): runs that cut a text with periodic supplementary characters
    anywhere - exactly at the buffer size, just above, just below, unit by unit - for every transcoder-backed encoding.
    UTF-8 / UTF-16 / UTF-32BE: bytes and writeData sizes against the Lean stream model (`streamRun`, hold-back
    included); every encoding: no error, and where the encoding has the characters the bytes, decoded by an independent
    decoder, are the text"""
    encs = [("UTF-8", "utf_8", True), ("UTF-16", "utf_16", True), ("UTF-32BE", "utf_32_be", True), ("UTF-7", "utf_7", False),
            ("GB18030", "gb18030", False), ("SCSU", None, False), ("UTF-16BE", "utf_16_be", False), ("ISO-8859-1", "", False),
            ("Shift_JIS", "", False), ("ISO-2022-JP", "", False), ("windows-1252", "", False)]
    cuts = [512, 513, 511, 100, 700, 1] if ctx.thorough else [512, 513, 100]
    lines, meta = [], []
    for enc, codec, modelled in encs:
        for sp in SPACINGS:
            for a in range(4):
                units = periodic_units(509 + a, sp, count=4 if not ctx.thorough else 6)
                for cut in cuts:
                    if cut == 1 and (a or sp != 512):
                        continue
                    runs = [units[i:i + cut] for i in range(0, len(units), cut)]
                    lines.append("stream %s %s" % (enc, " ".join(G.hx(x) for x in runs)))
                    meta.append((enc, codec, modelled, units, sp, a, cut))
    il = run_impl(harness, lines, work, "stream")
    req = os.path.join(work, "c04_stream_model.req")
    with open(req, "w") as f:
        f.write("\n".join(lines) + "\n")
    p = subprocess.run([model], stdin=open(req, "rb"), stdout=subprocess.PIPE)
    ml = p.stdout.decode().split("\n")
    differ, n_model = [], 0
    for n, ((enc, codec, modelled, units, sp, a, cut), line) in enumerate(zip(meta, lines)):
        ir = il[n] if n < len(il) else "crash"
        ctx.case(nontrivial_key=line[:200] + str(n), sample=None, cls="stream/%s" % enc)
        key = None
        if not ir.startswith("ok "):
            key, what = "stream-error stream/%s {spacing=%d}" % (enc, sp), "XalanOutputStream raised an error on well-formed UTF-16: " + ir[:120]
        elif codec != "":
            data = bytes.fromhex(ir.split()[1])
            try:
                if codec is None:
                    got = MB.scsu_decode(data)
                else:
                    t = data.decode(codec, "strict")
                    got = G.u(t[1:] if t.startswith("\ufeff") else t)
                if got != units:
                    k = 0
                    while k < min(len(got), len(units)) and got[k] == units[k]:
                        k += 1
                    key, what = "stream-differs stream/%s {spacing=%d}" % (enc, sp), "decoded output differs from the units written at unit %d" % k
            except Exception as ex:
                key, what = "stream-undecodable stream/%s {spacing=%d}" % (enc, sp), "output is not valid %s: %s" % (enc, str(ex)[:120])
        if key:
            ctx.fail(key, what + " (first pair at %d, runs of %d) ; impl: %s" % (509 + a, cut, ir[:120]), line[:6000])
        if modelled:
            n_model += 1
            mr = ml[n] if n < len(ml) else "nomodel"
            same = mr.split()[:2] == ir.split()[:2] if ir.startswith("err") else mr.split()[:3] == ir.split()[:3]
            if not same:
                differ.append({"request": line[:200], "impl": ir[:200], "model": mr[:200]} if len(differ) < 3 else {})
    ctx.extra["stream_layer"] = {"requests": len(lines), "against_model": n_model, "model_differs": len(differ)}
    ctx.oblige("correspondence: XalanOutputStream::write / flushBuffer (real code, bytes + writeData sizes) = Lean stream model "
               "(streamRun with the hold-back) on %d run sequences" % n_model, "correspondence",
               not differ and len(il) == len(lines), json.dumps([d for d in differ if d][:2]))


def raw_marker_cases(thorough):
    """directed: the marker PI that makes the NEXT text node unescaped (m_nextIsRaw) in front of characters and of cdata,
    followed by ordinary text with markup characters - which must be escaped again -, with a comment, a start tag or an
    empty text event in between; both serializers, every encoding"""
    out = []
    sp = G.u("<hr/>&")
    docs = [
        _el(("rt", G.u("ab")), ("t", sp, None)),
        _el(("rc", G.u("ab")), ("t", sp, None)),
        _el(("rc", G.u("ab")), ("m", G.u("c")), ("t", G.u("<"), None), ("el", G.u("e"), [(G.u("k"), G.u("<&"))], [("c", G.u("x>y"), None)])),
        _el(("mk",), ("el", G.u("e"), [], [("t", G.u("plain"), None)]), ("t", G.u("<b>"), None)),
        _el(("mk",), ("t", [], None), ("t", G.u("plain"), None), ("m", G.u("c")), ("t", G.u("&"), None)),
        _el(("rt", G.u("ab")), ("rc", G.u("cd")), ("t", G.u("<"), None), ("c", G.u("]]>&"), None)),
        _el(("t", [120] * 505, None), ("rc", G.u("abcdefghijklmnop")), ("t", sp * 3, None)),
    ]
    for enc in ENCODINGS:
        for ver in (VERSIONS if thorough else ["1.0"]):
            for d in docs:
                out.append(("U", enc, ver, d, "raw-marker"))
                if enc != "UTF-32BE":
                    out.append(("L", enc, ver, d, "raw-marker"))
    return out


LONG_RUNS = [511, 512, 513, 1023, 1024, 1025, 2049]


def long_run_cases(thorough):
    """directed: ONE run of 511 / 512 / 513 / 1023 / 1024 / 1025 / 2049 units on every path that hands a whole string
    to the writer (`write(chars, n)`: fits / flush then fits / longer than the buffer -> flush + direct write) -
    element name, attribute name, charactersRaw (disable-output-escaping) text, PI target, comment, DOCTYPE system and
    public identifier - at varying fill levels of the 512-entry buffer, in every encoding.  A long run that overtakes
    what is still buffered (XML declaration, open tag, earlier text) is not well-formed."""
    out = []
    pads = [0, 1, 60, 300, 470, 511] if thorough else [0, 7, 470]
    for enc in ENCODINGS:
        for ver in (VERSIONS if thorough else ["1.0"]):
            for n in LONG_RUNS:
                run = [97 + (i % 26) for i in range(n)]
                for pad in pads:
                    pre = [("t", [120] * pad, None)] if pad else []
                    post = [("t", G.u("z"), None)]
                    docs = [
                        _el(*(pre + [("el", run, [], [])] + post)),                                  # element name
                        _el(*(pre + [("el", G.u("e"), [(run, G.u("v"))], [("t", G.u("y"), None)])])),   # attribute name
                        _el(*(pre + [("r", run)] + post)),                                           # raw text
                        _el(*(pre + [("p", run, G.u("d"))] + post)),                                 # PI target
                        _el(*(pre + [("m", run)] + post)),                                           # comment
                    ]
                    for d in docs:
                        out.append(("U", enc, ver, d, "long-run"))
                    if n in (513, 2049) and pad in (0, 470) and enc in ("UTF-8", "UTF-16"):
                        out.append(("L", enc, ver, docs[0], "long-run"))
                        out.append(("L", enc, ver, docs[2], "long-run"))
                # DOCTYPE identifiers (the fill level varies with the declaration and the root name)
                for decl in (0, 1):
                    for root in ("r", "root" * 20):
                        if decl == 0 and enc not in ("UTF-8", "UTF-16", "US-ASCII"):
                            continue
                        doc = _el(("t", G.u("z"), None), name=root)
                        out.append(("U", enc, "%s|decl=%d,sa=-,sys=%s,pub=-" % (ver, decl, G.hx(run)), doc, "long-run"))
                        out.append(("U", enc, "%s|decl=%d,sa=-,sys=%s,pub=%s" % (ver, decl, G.hx(G.u("a.dtd")), G.hx(run)), doc, "long-run"))
    return out


def exhaustive_cases():
    """thorough tier: every string of length <= 3 over a compact alphabet as text, CDATA and attribute value,
    and class representatives at every pad 495..520, for every encoding and version"""
    import itertools
    out = []
    alpha = [G.u("]"), G.u(">"), G.u("<"), G.u("&"), G.u("é"), G.u("𝒳"), [13], [10], G.u("a"), G.u("Ω")]
    strings = [[]]
    for n in range(1, 4):
        for combo in itertools.product(alpha, repeat=n):
            strings.append([c for part in combo for c in part])
    for enc in ENCODINGS:
        for ver in VERSIONS:
            for s in strings:
                if not s:
                    continue
                out.append(("U", enc, ver, _el(("c", s, None), ("t", s, None), attrs=[(G.u("k"), s)]), "exh"))
    reps = [G.u("é"), G.u("€"), G.u("𝒳"), G.u("<"), [10], G.u("]]>"), G.u(" ")]
    for enc in ENCODINGS:
        for ver in VERSIONS:
            for pad in range(440, 480):
                for s in reps:
                    out.append(("U", enc, ver, _el(("t", [97] * pad, None), ("t", s * 3, None), ("c", s * 2, None)), "exh"))
    return out


def replay(ctx, path):
    d = json.load(open(path))
    line = d["first"]["input"] if "first" in d else None
    if not line:
        print("replay file names broken obligations only:", [o["name"] for o in d.get("broken_obligations", [])])
        return 1
    ctx.build("hooks")
    common.lake_build(["xm_c04"])
    model = ctx.exe("xm_c04")
    harness = common.build_harness("c04_serializer", ["c04_serializer.cpp"], flavor="hooks", sanitize=True)
    work = os.path.join(common.CACHE, "work")
    os.makedirs(work, exist_ok=True)
    i, m = run_one(harness, model, line, work)
    print("request:", line)
    print("impl:   ", i)
    print("model:  ", m)
    w = line.split()
    doc = parse_request(w[5:] if w[0] == "docx" else w[4:])
    j = judge(w[1], w[2], w[3], doc, i)
    print("specification verdict:", "holds" if j is None else "VIOLATED: %s -- %s" % j)
    return 0 if j is None else 1


def parse_request(evs):
    """inverse of G.events for replay"""
    stack = [("el", [], [], [])]
    for ev in evs:
        f = ev[2:].split(":")
        if ev[0] == "s":
            attrs = []
            for a in f[1:]:
                n, v = a.split("=")
                attrs.append((G.unhx(n), G.unhx(v)))
            stack.append(("el", G.unhx(f[0]), attrs, []))
        elif ev[0] == "e":
            n = stack.pop()
            stack[-1][3].append(n)
        elif ev[0] in ("t", "c"):
            stack[-1][3].append((ev[0], G.unhx(f[0]), G.unhx(f[1]) if len(f) > 1 else None))
        elif ev[0] in ("m", "r"):
            stack[-1][3].append((ev[0], G.unhx(f[0])))
        elif ev[0] == "p":
            if (G.unhx(f[0]), G.unhx(f[1])) == G.RAW_MARKER:
                stack[-1][3].append(("mk",))
            else:
                stack[-1][3].append(("p", G.unhx(f[0]), G.unhx(f[1])))
    return stack[0][3][0]

