"""C18 — number/string conversions follow XPath and round-trip (DESIGN.md §5 C18, design/C18.md).

proof:          lean/XalanModel/Props/C18.lean  (doValidate state machine = Number grammar for all strings; output
                shape of NumberToDOMString for all doubles; buffer bound / overflow witness; round/-0 counterexamples)
translator:     translate/c18_number_consts.py -> Generated/C18_NumberConsts.lean (printf table, buffer sizes, thresholds)
correspondence: harness/c18_number.cpp (real library; and the same sources under ASan+UBSan) vs lean/Driver/C18.lean
                on generated bit patterns and strings; every implementation reply is also judged by an independent
                exact-arithmetic oracle (python Fractions / correctly rounded float()) = the specification predicate.
"""
import json
import math
import os
import re
import subprocess
import sys
from fractions import Fraction

from vlib import common
from vlib.common import Rng

sys.path.insert(0, os.path.join(common.ROOT, "gen"))
import c18_gen as G  # noqa: E402

CLAIMED = True
LEVEL = "proof"
TECHNIQUE = ("Lean 4 proofs over a hand model of DOMStringHelper/DoubleSupport (doubles as exact dyadics, printf/atof as exact "
             "decimal arithmetic) with constants regenerated from the source + correspondence run against the real library "
             "(plain and ASan/UBSan) on bit patterns and strings, judged by an independent exact-arithmetic oracle")
LEVEL_TEXT = ("Machine-checked (Lean 4, 33 audited theorems in Props/C18.lean) over a hand model of DOMStringHelper/DoubleSupport whose "
              "constants and code variants are regenerated from the source on every run: (1) for every string the doValidate state "
              "machine accepts exactly the derivations of ws* '-'? Number ws* (validate_iff_grammar); number(s) = nearest double on "
              "the atof path and, with the repaired fast path, on the integer fast path including the sign of zero "
              "(toDouble_spec_partial, toDouble_fast_path_fixed_spec), NaN for every non-numeral; (2) for every double string(x) is "
              "NaN/Infinity/-Infinity/0 or '-' iff the sign bit is set, digits without superfluous leading zero, optionally '.' and "
              "digits ending in a non-zero digit (toString_format), never overruns theBuffer when it has 347 bytes "
              "(toString_no_overflow_all_doubles, formatSmallNumber_fits), and guarding the int64 cast changes no result "
              "(cast_guard_equiv); (3) round trip: number(string(x)) = x for integral |x| < 10^8 unconditionally "
              "(toString_roundtrip_partial) and for every x whose buffer reads back (readsBack, decidable per value: "
              "toString_roundtrip_printf_partial — zero stripping provably preserves the value), which under the explicitly stated "
              "17-significant-digit lemma Digits17Suffice holds for all |x| >~ 1e-19 (toString_roundtrip_digits17); (4) floor and "
              "ceiling equal XPath 4.4 for every finite double and the repaired round equals it for every double "
              "(floor_spec, ceiling_spec, round_fixed_spec, round_spec_generated). Deviations of the earlier code forms are kept as "
              "counterexample theorems about those forms. Tie: translator + correspondence (library and ASan/UBSan builds vs Lean "
              "driver vs exact-arithmetic oracle), and an engine stream: the same functions evaluated through XSLT in every context "
              "(printed, operand, number() argument, comparison, predicate, variable bound after equal-but-not-identical values "
              "were dropped in the same transformation) against the model; XNumber::set / XString::set proved to assign "
              "unconditionally (recycled_objects_take_the_new_value).")
LEVEL_NOTE = ("Trusted: Lean kernel; axioms propext/Classical.choice/Quot.sound only; translate/c18_number_consts.py (regex recognition "
              "of the transcribed forms: printf table, buffer sizes, thresholds, round variant, fast-path variant, cast guard, "
              "formatSmallNumber); the hand transcription (validated by the correspondence run on ~34k quick / 1.8M thorough requests, "
              "bounded by generator coverage). Modelled, not verified: glibc sprintf(\"%.Nf\"/\"%.17e\") = exact decimal expansion "
              "rounded half-even, atof = nearest-even of the exact value (roundRat: fraction in lowest terms, then roundNE), "
              "modf/floor/ceil exact, x86-64 cvttsd2si for an unguarded out-of-range int64 cast. Not proved in Lean: value-exactness "
              "of roundNE for non-integers; Digits17Suffice (17 significant digits identify a double) is an explicit hypothesis of "
              "toString_roundtrip_digits17, never an axiom; that formatSmallNumber's 18 digits read back is the decidable readsBack "
              "hypothesis (evaluated on every sampled value by the oracle). Partial theorems are named _partial; strings with an "
              "embedded NUL end there (c_str()), outside XML.")
DESIGN_REF = "DESIGN.md section 5, C18; design/C18.md"

P = "XalanModel.Props.C18."
THEOREMS = [P + n for n in (
    "validate_iff_grammar",
    "validate_eq_matcher",
    "toDouble_invalid_is_nan",
    "generated_constants_sane",
    "toString_format",
    "toString_format_generated",
    "toString_special_values",
    "toString_no_overflow",
    "toString_no_overflow_all_doubles",
    "toString_no_overflow_generated",
    "toString_overflow_counterexample",
    "toString_roundtrip_counterexample_tiny",
    "toString_negative_tiny_counterexample",
    "toString_tiny_fixed_examples",
    "toDouble_spec_partial",
    "toDouble_fast_path_partial",
    "toDouble_negative_zero_counterexample",
    "scalarToDecimal_exact",
    "toString_roundtrip_partial",
    "toString_roundtrip_printf_partial",
    "toString_roundtrip_digits17",
    "cast_guard_equiv",
    "formatSmallNumber_fits",
    "all_doubles_canonical",
    "floor_spec",
    "ceiling_spec",
    "round_fixed_spec",
    "round_spec_generated",
    "toDouble_fast_path_fixed_spec",
    "recycled_objects_take_the_new_value",
    "round_spec_counterexample_half_ulp",
    "round_spec_counterexample_big_odd",
    "round_spec_counterexample_negative_zero",
)]

NUM_RE = re.compile(r"[ \t\r\n]*(-?)([0-9]+(?:\.[0-9]*)?|\.[0-9]+)[ \t\r\n]*\Z")
OUT_RE = re.compile(r"-?(0|[1-9][0-9]*)(\.[0-9]*[1-9])?\Z")
NAN = "nan"


def show_bits(x):
    return NAN if x != x else G.hex16(G.bits_of(x))


def e10(x):
    x = abs(x)
    if x == 0 or x != x or math.isinf(x):
        return 0
    return int(math.floor(math.log10(x)))


# ---------------------------------------------------------------- specification predicates (independent of the model)

def spec_valid(s):
    s = s.split("\0")[0]
    return 1 if NUM_RE.match(s) else 0


def spec_todbl(s):
    """XPath number(string): nearest double (python float() is correctly rounded), NaN for non-numerals.
    A XalanDOMChar* string ends at the first NUL (not an XML character; outside the property)."""
    s = s.split("\0")[0]
    m = NUM_RE.match(s)
    if not m:
        return float("nan")
    return float(m.group(1) + m.group(2))


def spec_round(x):
    if x != x or math.isinf(x) or x == 0:
        return x
    r = math.floor(Fraction(x) + Fraction(1, 2))
    if r == 0:
        return -0.0 if x < 0 else 0.0
    return float(r)


def spec_floor(x):
    if x != x or math.isinf(x) or x == 0:
        return x
    r = math.floor(Fraction(x))
    return 0.0 if r == 0 else float(r)


def spec_ceil(x):
    if x != x or math.isinf(x) or x == 0:
        return x
    r = math.ceil(Fraction(x))
    return (-0.0 if x < 0 else 0.0) if r == 0 else float(r)


def judge_tostr(x, reply):
    """None if the reply satisfies the property for x, else (key, what)."""
    hx = show_bits(x)
    if reply.startswith("CRASH"):
        return ("tostr.crash[e10=%d]: x=%s" % (e10(x), hx),
                "NumberToDOMString(%r) died (%s): write past char theBuffer[]" % (x, reply))
    if not reply.startswith("ok:"):
        return ("tostr.error: x=%s" % hx, "unexpected reply %r" % reply)
    t = reply[3:]
    if x != x:
        return None if t == "NaN" else ("tostr.special: x=nan", "string(NaN) = %r" % t)
    if math.isinf(x):
        want = "Infinity" if x > 0 else "-Infinity"
        return None if t == want else ("tostr.special: x=%s" % hx, "string(%r) = %r" % (x, t))
    if x == 0:
        return None if t == "0" else ("tostr.special: x=%s" % hx, "string(%r) = %r" % (x, t))
    if not OUT_RE.match(t):
        return ("tostr.shape: x=%s out=%s" % (hx, t[:60]), "string(%r) = %r is not -?digits(.digits)? without superfluous zeros" % (x, t))
    if t.startswith("-") != (x < 0):
        if x < 0 and e10(x) <= -20:
            return ("tostr.roundtrip[e10=%d][frac<=35]: x=%s out=%s" % (e10(x), hx, t[:60]), "string(%r) = %r: sign and value lost" % (x, t))
        return ("tostr.sign: x=%s out=%s" % (hx, t[:60]), "string(%r) = %r: wrong sign" % (x, t))
    back = float(t)
    if G.bits_of(back) != G.bits_of(x):
        # the recorded finding is the "%.35f" form running out of decimals; anything longer is a different defect
        nfrac = len(t.partition(".")[2])
        return ("tostr.roundtrip[e10=%d][frac%s]: x=%s out=%s" % (e10(x), "<=35" if nfrac <= 35 else "=%d" % nfrac, hx, t[:60]),
                "number(string(x)) != x: x=%r string=%r reads back as %r" % (x, t, back))
    return None


def judge_round(op, x, reply):
    spec = {"round": spec_round, "floor": spec_floor, "ceil": spec_ceil}[op](x)
    want = show_bits(spec)
    if reply == want:
        return None
    hx = show_bits(x)
    what = "%s(%r) = %s, XPath 4.4 prescribes %s (%r)" % (op, x, reply, want, spec)
    if op == "round":
        try:
            got = G.of_bits(int(reply, 16)) if reply != NAN else float("nan")
        except ValueError:
            return ("round.error: x=%s" % hx, what)
        if got == spec and got == 0:
            return ("round.zero-sign[%s]: x=%s" % ("negzero" if x == 0 else "neg-small", hx), what)
        if abs(x) == 0.49999999999999994:
            return ("round.half-ulp: x=%s" % hx, what)
        if 2.0 ** 52 <= abs(x) < 2.0 ** 53 and abs(got - spec) == 1:
            return ("round.big-odd: x=%s" % hx, what)
    return ("%s.value: x=%s got=%s" % (op, hx, reply), what)


def judge_todbl(s, reply):
    spec = spec_todbl(s)
    want = show_bits(spec)
    if reply == want:
        return None
    what = "number(%r) = %s, nearest double is %s (%r)" % (s[:80], reply, want, spec)
    core = s.split("\0")[0]
    if spec == 0 and want.startswith("8") and reply == "0" * 16 and "." not in core and len(core) < 10:
        return ("todbl.negzero-fastpath: %r" % s[:40], what)
    return ("todbl.value: %r got=%s" % (s[:60], reply), what)


def judge_valid(s, reply):
    want = str(spec_valid(s))
    if reply == want:
        return None
    return ("valid.grammar: %r got=%s" % (s[:60], reply), "isValid(%r) = %s, Number grammar says %s" % (s[:80], reply, want))


# ---------------------------------------------------------------- request streams

def requests_for_double(b, with_chr=True):
    h = G.hex16(b)
    rs = ["tostr " + h]
    if with_chr:
        rs.append("tochr " + h)
    rs += ["round " + h, "floor " + h, "ceil " + h]
    return rs


def requests_for_string(s):
    u = G.units(s)
    return ["todbl " + u, "valid " + u]


def xchain_ok(s):
    """strings that may be sent through the in-process XPath evaluator: no quote/NUL, and a value whose
    string() cannot overrun the buffer inside the evaluator (that class is exercised, isolated, by tostr)"""
    if "'" in s or "\0" in s or any(ord(c) > 0xFFFF for c in s):
        return False
    v = spec_todbl(s)
    return v != v or abs(v) < 1e80


def build_stream(ctx, r, n_d, n_s, n_x, cap_risky=1000000):
    """returns list of (request line, meta) ; meta = (kind, payload, cls)"""
    out = []
    for x in G.CORPUS_DOUBLES:
        for q in requests_for_double(G.bits_of(x)):
            out.append((q, ("d", G.bits_of(x), "corpus")))
    for s in G.CORPUS_STRINGS:
        for q in requests_for_string(s):
            out.append((q, ("s", s, "corpus")))
        if xchain_ok(s):
            for fn in ("id", "round", "floor", "ceiling"):
                out.append(("xchain %s %s" % (fn, G.units(s)), ("x", (fn, s), "corpus")))
    risky_left = cap_risky
    for i in range(n_d):
        b, cls = G.gen_double(r)
        qs = requests_for_double(b, with_chr=(i % 3 == 0))
        if abs(G.of_bits(b)) >= 2.0 ** 128 and not math.isinf(G.of_bits(b)):
            # evaluated in a forked child by the harness (an overrun is one CRASH reply): bounded per run
            if risky_left <= 0:
                qs = [q for q in qs if not q.startswith(("tostr", "tochr"))]
            else:
                risky_left -= 1
        for q in qs:
            out.append((q, ("d", b, cls)))
    for i in range(n_s):
        s, cls = G.gen_string(r)
        for q in requests_for_string(s):
            out.append((q, ("s", s, cls)))
        if i < n_x and xchain_ok(s):
            fn = r.choice(["id", "round", "floor", "ceiling"])
            out.append(("xchain %s %s" % (fn, G.units(s)), ("x", (fn, s), cls)))
    return out


def exhaustive_strings(alpha, maxlen):
    import itertools
    for n in range(0, maxlen + 1):
        for t in itertools.product(alpha, repeat=n):
            yield "".join(t)


def run_impl(cmd, req, env=None):
    e = dict(os.environ)
    e.update(env or {})
    with open(req, "rb") as f:
        p = subprocess.run(cmd, stdin=f, stdout=subprocess.PIPE, stderr=subprocess.PIPE, env=e, timeout=3600)
    lines = p.stdout.decode("utf-8", "replace").split("\n")
    if lines and lines[-1] == "":
        lines.pop()
    return lines, p.returncode, p.stderr.decode("utf-8", "replace")[-3000:]


SAN_ENV = {"ASAN_OPTIONS": "detect_leaks=0:abort_on_error=0:symbolize=0:log_path=/dev/null", "UBSAN_OPTIONS": "print_stacktrace=0"}


def harnesses():
    plain = common.build_harness("c18_number", ["c18_number.cpp"], flavor="hooks", sanitize=False)
    R = common.REPO
    bd = common.build_dir("hooks")
    extra = ["-DXALAN_BUILD_DLL=1", "-DXALAN_INMEM_MSG_LOADER=1", "-DXALAN_USE_ICU=1", "-D_THREAD_SAFE=1", "-DNDEBUG",
             "-I%s/src/xalanc" % R, "-I%s/src/xalanc" % bd, "-I%s/src/xalanc/NLS/include" % bd,
             R + "/src/xalanc/PlatformSupport/DOMStringHelper.cpp", R + "/src/xalanc/PlatformSupport/DoubleSupport.cpp"]
    san = common.build_harness("c18_number_san", ["c18_number.cpp"], flavor="hooks", sanitize=True, extra=extra)
    return plain, san


def judge(meta, q, reply):
    kind, payload, _ = meta
    op = q.split(" ", 1)[0]
    if kind == "d":
        x = G.of_bits(payload)
        if op in ("tostr", "tochr"):
            j = judge_tostr(x, reply)
            if j and op == "tochr":
                j = (j[0].replace("tostr.", "tostr.", 1) + " (NumberToCharacters)", j[1])
            return j
        return judge_round(op, x, reply)
    if kind == "s":
        return judge_todbl(payload, reply) if op == "todbl" else judge_valid(payload, reply)
    return None


def bound_obligation(ctx):
    """the buffer inequality over the regenerated constants; returns the list of witness doubles to run if it fails"""
    info = json.load(open(os.path.join(common.GEN, "C18_NumberConsts.json")))
    need = 1 + 309 + 1 + max(info["precisions"]) + 1
    wit = []
    for key in ("toDOMString", "toCharacters"):
        b = info[key]["buffer"]
        if b >= need:
            continue
        # smallest power of ten whose "%.<p0>f" rendering (+ NUL) no longer fits: digits + 1 + p0 + 1 > b
        p0 = info["precisions"][0]
        k = max(b - p0 - 2, 0)  # 10^k has k+1 digits
        wit.append(("1e%d" % k, key, b, need))
    ctx.extra["buffer_bound"] = {"need_for_all_doubles": need, "toDOMString": info["toDOMString"], "toCharacters": info["toCharacters"],
                                 "holds": not wit, "witnesses": wit}
    return info, wit


def run(ctx):
    ctx.rule = ("a case = one request (tostr/tochr/round/floor/ceil on a bit pattern; todbl/valid on a string; xchain through the "
                "XPath evaluator); non-trivial = a double that takes the printf precision loop or a non-integral argument of "
                "round/floor/ceil, or a string with at least one digit; distinct = distinct request text")
    ctx.trusted += [
        "translate/c18_number_consts.py (regex over DOMStringHelper.cpp / DoubleSupport.cpp)",
        "harness/c18_number.cpp + checks/c18.py + gen/c18_gen.py (generator, oracle = python Fraction / float())",
        "modelled, not verified: glibc sprintf %.Nf (exact expansion, half-even), atof (nearest-even), modf/floor/ceil, "
        "x86-64 result of the out-of-range double->int64 cast; all sampled by the correspondence run",
    ]
    ctx.assumptions += ["C locale decimal point", "IEEE-754 binary64, round-to-nearest mode"]
    ctx.build("hooks")
    ctx.translate("c18_number_consts")
    ctx.translate("c18_recycle")
    ok = ctx.lean("XalanModel.Props.C18", THEOREMS, extra_targets=["xm_c18"])
    model = ctx.exe("xm_c18")
    plain, san = harnesses()
    work = os.path.join(common.CACHE, "work")
    os.makedirs(work, exist_ok=True)
    if not ok:
        # a theorem over the regenerated constants (or a model file) no longer checks.  The driver does not import
        # the Props/proof modules: build it alone and keep going, so that the search for a concrete failing input
        # (specification predicate on the implementation's replies) still runs.
        rc, out = common.lake_build(["xm_c18"])
        if rc != 0:
            ctx.oblige("lake build xm_c18 (driver alone)", "build", False, out[-1500:])
            return
    if model is None:
        return
    info, wit = bound_obligation(ctx)
    rc, out = common.sh([model], inp=b"bound\n")
    lean_bound = out.strip()
    ctx.oblige("buffer inequality: Lean (generatedBufferCoversAllDoubles over Generated.C18) = translator sidecar arithmetic",
               "correspondence", lean_bound == ("0" if wit else "1"), "lean says %r, sidecar witnesses %r" % (lean_bound, wit))
    ctx.extra["buffer_bound"]["lean_generatedBufferCoversAllDoubles"] = lean_bound

    r = Rng(ctx.seed)
    n_d, n_s, n_x = (5000, 5000, 1200) if not ctx.thorough else (300000, 250000, 30000)
    stream = build_stream(ctx, r, n_d, n_s, n_x, cap_risky=(2000 if not ctx.thorough else 8000))
    for w, key, b, need in wit:
        for x in (float(w), -float(w), float(w) / 10, -float(w) / 10):
            for q in requests_for_double(G.bits_of(x))[:2]:
                stream.append((q, ("d", G.bits_of(x), "bound-witness")))
    if ctx.thorough:
        for s in exhaustive_strings(["0", "7", ".", "-", " ", "e", "+", "\t"], 5):
            for q in requests_for_string(s):
                stream.append((q, ("s", s, "exhaustive<=5")))
        ctx.exhaustive = False
    req = os.path.join(work, "c18_main.req")
    with open(req, "w") as f:
        f.write("\n".join(q for q, _ in stream) + "\n")

    il, ml, irc, mrc, ierr, merr = common.run_pair([san], [model], req, impl_env=SAN_ENV)
    pl, prc, perr = run_impl([plain], req)
    ctx.oblige("harness (sanitized) answered every request", "correspondence", len(il) == len(stream) and irc == 0,
               "answered %d of %d, rc=%s %s" % (len(il), len(stream), irc, ierr[-1200:]))
    ctx.oblige("harness (library) answered every request", "correspondence", len(pl) == len(stream) and prc == 0,
               "answered %d of %d, rc=%s %s" % (len(pl), len(stream), prc, perr[-800:]))
    ctx.oblige("model driver answered every request", "correspondence", len(ml) == len(stream) and mrc == 0,
               "answered %d of %d %s" % (len(ml), len(stream), merr[-500:]))

    if len(il) < len(stream):
        # the sanitized harness died outside an isolated request: the first unanswered request is the input
        q, meta = stream[len(il)]
        rep = re.findall(r"(runtime error: [^\n]*|ERROR: AddressSanitizer: [^\n]*|DEADLYSIGNAL)", ierr)
        ctx.fail("%s.crash: %s" % (q.split(" ")[0], q), "the sanitized harness died while answering this request: %s" % (rep[:2] or ierr[-300:]),
                 {"request": q, "impl": "CRASH", "model": ml[len(il)] if len(il) < len(ml) else None})
    disagree, oracle_disagree, plain_disagree, crashes, xfollow = [], [], [], 0, []
    for i, (q, meta) in enumerate(stream):
        if i >= len(il) or i >= len(ml):
            break
        kind, payload, cls = meta
        op = q.split(" ", 1)[0]
        iv, mv = il[i], ml[i]
        m_model, _, m_spec = mv.partition(" / ")
        # cases / coverage
        nontriv = None
        if kind == "d":
            x = G.of_bits(payload)
            fin = x == x and not math.isinf(x)
            if fin and x != 0 and (x != math.floor(x) or abs(x) >= 2.0 ** 63 or op in ("tostr", "tochr")):
                nontriv = q
        elif kind == "s":
            if any(c.isdigit() for c in payload):
                nontriv = q
        else:
            nontriv = q
        ctx.case(nontrivial_key=nontriv, sample=[q, iv, mv] if i % 4001 == 7 else None, cls="%s:%s" % (op, cls))
        # 1. the property on the implementation's reply
        j = judge(meta, q, iv)
        if j:
            ctx.fail(j[0], j[1], {"request": q, "impl": iv, "model": mv})
            if iv.startswith("CRASH"):
                crashes += 1
        # 2. implementation = model
        model_reply = "CRASH" if m_model == "mem" else m_model
        if (iv.split(":")[0] if iv.startswith("CRASH") else iv) != model_reply:
            disagree.append({"request": q, "impl": iv, "model": m_model, "property_holds_on_impl": j is None})
        # 3. Lean specification functions = python oracle (machinery cross-check)
        if m_spec:
            want = None
            if op == "todbl":
                want = show_bits(spec_todbl(payload))
            elif op == "valid":
                want = str(spec_valid(payload))
            elif op in ("round", "floor", "ceil"):
                want = show_bits({"round": spec_round, "floor": spec_floor, "ceil": spec_ceil}[op](G.of_bits(payload)))
            if want is not None and want != m_spec:
                oracle_disagree.append({"request": q, "lean_spec": m_spec, "python_oracle": want})
        # 4. optimised library = sanitized build of the same sources (unless the sanitized one reported a memory error)
        if i < len(pl) and not iv.startswith("CRASH") and pl[i] != iv:
            plain_disagree.append({"request": q, "library": pl[i], "sanitized": iv})
        # glue: an XPath-level reply that does not satisfy the property for the specified value is re-derived below
        if kind == "x" and not iv.startswith("CRASH"):
            fn, sx = payload
            y = {"id": lambda v: v, "round": spec_round, "floor": spec_floor, "ceiling": spec_ceil}[fn](spec_todbl(sx))
            if judge_tostr(y, iv) is not None:
                xfollow.append((q, fn, sx, iv))
    ctx.extra["crash_replies"] = crashes
    glue(ctx, san, work, xfollow)
    if disagree:
        ctx.extra["model_disagreements"] = disagree[:20]
        found = neighbourhood(ctx, san, work, disagree)
        ctx.oblige("correspondence: real conversions = Lean model on every generated request", "correspondence", False,
                   "%d disagreement(s), e.g. %s ; neighbourhood search found %d failing input(s)" % (len(disagree), disagree[:2], found))
    else:
        ctx.oblige("correspondence: real conversions = Lean model on every generated request", "correspondence", True)
    ctx.oblige("Lean specification functions = independent exact-arithmetic oracle on every request", "correspondence",
               not oracle_disagree, str(oracle_disagree[:3]))
    ctx.oblige("library build = sanitized build of the same sources on every request without a memory error", "correspondence",
               not plain_disagree, str(plain_disagree[:3]))
    # the buffer bound over the regenerated constants: when it fails the witnesses above were run under ASan
    if wit:
        hit = [w for w in wit]
        ctx.extra["buffer_bound"]["note"] = "bound fails for the current constants; witnesses run under ASan: %s" % hit
    ctx.extra["requests"] = len(stream)
    engine_stream(ctx, r, san, model, work, 320 if not ctx.thorough else 6000)


def ask(san, work, reqs, tag):
    req = os.path.join(work, "c18_%s.req" % tag)
    with open(req, "w") as f:
        f.write("\n".join(reqs) + "\n")
    il, _, _ = run_impl([san], req, SAN_ENV)
    return il + ["<none>"] * (len(reqs) - len(il))


def glue(ctx, san, work, xfollow):
    """XPath-level replies that deviate from the specification: the deviation must be the one of the direct API
    (string(fn(number(s))) = NumberToDOMString(fn(toDouble(s))) on the implementation itself); the direct calls are
    judged by their own predicates, so a known deviation keeps its narrow key."""
    xfollow = xfollow[:400]
    if not xfollow:
        return
    d1 = ask(san, work, ["todbl " + G.units(sx) for _, _, sx, _ in xfollow], "glue1")
    op = {"round": "round", "floor": "floor", "ceiling": "ceil"}
    r2 = [("%s %s" % (op[fn], b) if fn != "id" and b != NAN else None) for (_, fn, _, _), b in zip(xfollow, d1)]
    a2 = ask(san, work, [q for q in r2 if q], "glue2")
    it = iter(a2)
    d2 = [next(it) if q else b for q, b in zip(r2, d1)]
    t2 = ask(san, work, ["tostr " + (b if b != NAN else "7ff8000000000000") for b in d2], "glue3")
    for (q, fn, sx, iv), b1, q2, b2, t in zip(xfollow, d1, r2, d2, t2):
        ctx.case(cls="xchain-followup")
        if t != iv:
            ctx.fail("xchain.glue[%s]: %r" % (fn, sx[:40]),
                     "string(%s(number(%r))) = %s through the XPath evaluator but the direct API composition gives %s" % (fn, sx[:60], iv, t),
                     {"request": q, "impl": iv, "direct": t})
            continue
        for qq, meta, rep in (("todbl " + G.units(sx), ("s", sx, "glue"), b1),
                              (q2, ("d", int(b1, 16) if b1 != NAN else 0x7ff8000000000000, "glue"), b2),
                              ("tostr " + b2, ("d", int(b2, 16) if b2 != NAN else 0x7ff8000000000000, "glue"), t)):
            if qq:
                j = judge(meta, qq, rep)
                if j:
                    ctx.fail(j[0], j[1] + " (reached through " + q.split(" ")[1] + "(number(…)) in the XPath evaluator)", {"request": qq, "impl": rep})



# ---------------------------------------------------------------- the same functions observed THROUGH THE ENGINE (XSLT)

ENGINE_FN = {"id": "number('%s')", "round": "round(number('%s'))", "floor": "floor(number('%s'))",
             "ceiling": "ceiling(number('%s'))", "neg": "-number('%s')"}
ENGINE_SAFE = set("0123456789.-+eEx ")
ENGINE_CORPUS = ["-0.2", "0.2", "-0", "0", "-0.5", "0.5", "1.2", "-1.5", "2.5", "-2.5", "x", "", "1", "2", "3", "3.5", "0.49999999999999994",
                 "-0.49999999999999994", "4503599627370497", "-0.0", "1e5", "-.3", " 12 ", "123456789", "1234567890", "0.1", "-7.000001"]


def engine_string(s):
    """XML attribute value normalisation turns tab/CR/LF into spaces; do it up front so model and engine see the same string"""
    return "".join(" " if c in "\t\r\n" else c for c in s)


def engine_ok(s):
    if len(s) > 60 or any(c not in ENGINE_SAFE for c in s):
        return False
    v = spec_todbl(s)
    return v != v or abs(v) < 1e60


def inv_expect(y):
    if y != y:
        return "NaN"
    if y == 0:
        return "-Infinity" if math.copysign(1.0, y) < 0 else "Infinity"
    if math.isinf(y):
        return "0"
    return None


def engine_expect(y, t):
    """expected output of every context for the value y whose string() is t (t None: judge printed values separately)"""
    b = lambda v: "true" if v else "false"
    return {"a": t, "ai": inv_expect(y), "s": t, "b": t, "bi": inv_expect(y), "c": t, "ci": inv_expect(y),
            "d1": b(y == y), "d2": b(y < 0), "d3": b(y > 0),
            "e1": "1" if y in (1.0, 2.0, 3.0) else "0", "e2": "1" if y > 0 else "0", "e3": "1" if (y == y and y != 0) else "",
            "f": t, "fi": inv_expect(y), "fb": t}


PRINTED = ("a", "s", "b", "c", "f", "fb")


def churn_expr(y, t):
    """an expression whose value is equal to y under == (or, for NaN, of the same class) but not identical to it"""
    if y != y:
        return "number('x')"
    if y == 0:
        return "(1 - 1)" if math.copysign(1.0, y) < 0 else "(0 * -1)"
    if math.isinf(y):
        return "(1 div 0)" if y > 0 else "(-1 div 0)"
    return "number('%s')" % t


def engine_sheet(items):
    """items: list of (k, F, churn)"""
    out = ['<xsl:stylesheet version="1.0" xmlns:xsl="http://www.w3.org/1999/XSL/Transform"><xsl:output method="text"/>'
           '<xsl:template match="/">']

    def line(tag, sel):
        out.append('<xsl:text>&#10;%s=</xsl:text><xsl:value-of select="%s"/>' % (tag, sel))
    for k, F, churn in items:
        F = F.replace("&", "&amp;").replace("<", "&lt;").replace('"', "&quot;")
        line("%d.a" % k, F)
        line("%d.ai" % k, "1 div %s" % F)
        line("%d.s" % k, "concat('', %s)" % F)
        line("%d.b" % k, "%s * 1" % F)
        line("%d.bi" % k, "1 div (%s * 1)" % F)
        line("%d.c" % k, "number(%s)" % F)
        line("%d.ci" % k, "1 div number(%s)" % F)
        line("%d.d1" % k, "%s = %s" % (F, F))
        line("%d.d2" % k, "%s &lt; 0" % F)
        line("%d.d3" % k, "%s &gt; 0" % F)
        line("%d.e1" % k, "count(/r/e[%s])" % F)
        line("%d.e2" % k, "count(/r[%s &gt; 0])" % F)
        out.append('<xsl:text>&#10;%d.e3=</xsl:text><xsl:if test="%s">1</xsl:if>' % (k, F))
        # create and drop values equal-but-not-identical to the one bound next: recycled XNumber/XString objects
        out.append('<xsl:if test="concat(%s, %s, string(%s)) = \'q\'">q</xsl:if>' % (churn, churn, churn))
        out.append('<xsl:variable name="v%d" select="%s"/>' % (k, F))
        line("%d.f" % k, "$v%d" % k)
        line("%d.fi" % k, "1 div $v%d" % k)
        line("%d.fb" % k, "$v%d * 1" % k)
    out.append('<xsl:text>&#10;</xsl:text></xsl:template></xsl:stylesheet>')
    return "".join(out)


def engine_stream(ctx, r, san, model, work, n_items, batch=40):
    cases = []
    for s in ENGINE_CORPUS:
        for fn in ("round", "floor", "ceiling", "id", "neg"):
            cases.append((fn, s))
    tries = 0
    while len(cases) < n_items and tries < n_items * 20:
        tries += 1
        if r.chance(1, 2):
            # small magnitudes around the rounding boundaries, both signs, both zeros
            n = r.choice([0, 0, 1, 2, 3, 4, 7, 12, r.below(1000)])
            f = r.choice(["", ".0", ".2", ".5", ".50000000000000001", ".49999999999999994", ".7", ".999", ".000001"])
            s = ("-" if r.chance(1, 2) else "") + str(n) + f
        else:
            s, _ = G.gen_string(r)
        s = engine_string(s)
        if engine_ok(s):
            cases.append((r.choice(["round", "floor", "ceiling", "id", "neg"]), s))
    # model: y and string(y)
    req = os.path.join(work, "c18_engine_model.req")
    with open(req, "w") as f:
        f.write("\n".join("xeval %s %s" % (fn, G.units(s)) for fn, s in cases) + "\n")
    rc, out = common.sh([model], inp=open(req, "rb").read())
    mrep = out.split("\n")
    sheets, metas = [], []
    for i in range(0, len(cases), batch):
        items = []
        for k, (fn, s) in enumerate(cases[i:i + batch]):
            bits, _, t = mrep[i + k].partition(" ")
            y = float("nan") if bits == NAN else G.of_bits(int(bits, 16))
            items.append((k, ENGINE_FN[fn] % s, churn_expr(y, t)))
        sheets.append("xslt " + G.units(engine_sheet(items)))
        metas.append(cases[i:i + batch])
    il = ask(san, work, sheets, "engine")
    agree, nfail = True, 0
    for bi, (rep, meta) in enumerate(zip(il, metas)):
        got = {}
        if rep.startswith("ok:"):
            for ln in rep[3:].split("\\u000a"):
                tag, sep, val = ln.partition("=")
                if sep:
                    got[tag] = val.replace("\\u0020", " ")
        for k, (fn, s) in enumerate(meta):
            idx = bi * batch + k
            bits, _, t = mrep[idx].partition(" ")
            y_model = float("nan") if bits == NAN else G.of_bits(int(bits, 16))
            y_spec = {"id": lambda v: v, "round": spec_round, "floor": spec_floor, "ceiling": spec_ceil, "neg": lambda v: -v}[fn](spec_todbl(s))
            em = engine_expect(y_model, t)
            es = engine_expect(y_spec, None)
            for c in em:
                ctx.case(nontrivial_key="engine %s %s %s" % (c, fn, s), cls="engine:" + c,
                         sample=["engine %s %s(%r)" % (c, fn, s), got.get("%d.%s" % (k, c))] if idx == 7 and c == "bi" else None)
                val = got.get("%d.%s" % (k, c))
                if val is None:
                    ctx.fail("engine.%s[%s]: %r" % (c, fn, s), "no output for this context: %s" % rep[:200], {"request": sheets[bi][:200], "case": [fn, s, c]})
                    nfail += 1
                    continue
                # the property on the engine's output
                if c in PRINTED:
                    j = judge_tostr(y_spec, "ok:" + val)
                else:
                    j = None if (es[c] is None or es[c] == val) else ("x", "got %r, specified %r" % (val, es[c]))
                if j:
                    nfail += 1
                    if c in PRINTED and val == t:
                        # the engine printed what the direct conversion prints: the deviation is the direct function's (same key)
                        ctx.fail(j[0], j[1] + " (through the XSLT engine, context %s of %s(number(%r)))" % (c, fn, s),
                                 {"request": "engine %s %s %s" % (c, fn, G.units(s)), "impl": val})
                    else:
                        sess = {"session": sheets[bi], "tag": "%d.%s" % (k, c)} if nfail <= 5 else {}
                        ctx.fail("engine.%s[%s]: %r" % (c, fn, s),
                                 "%s(number(%r)) observed in context %s gives %r; XPath specifies %s" % (
                                     fn, s, c, val, es[c] if c not in PRINTED else "string(%r)" % y_spec),
                                 dict({"request": "engine %s %s %s" % (c, fn, G.units(s)), "impl": val, "model": em[c]}, **sess))
                # engine = model
                if em[c] is not None and val != em[c]:
                    agree = False
                    ctx.extra.setdefault("engine_disagreements", []).append({"case": [fn, s, c], "engine": val, "model": em[c]})
    ctx.oblige("correspondence: floor/ceiling/round/number/unary minus observed through the XSLT engine in every context "
               "(printed, string argument, arithmetic operand, number() argument, comparison, predicate, test, variable after "
               "recycling) = Lean model", "correspondence", agree and len(il) == len(sheets) and all(x.startswith("ok:") for x in il),
               str(ctx.extra.get("engine_disagreements", [])[:3]) + " " + str([x[:200] for x in il if not x.startswith("ok:")][:1]))
    ctx.extra["engine_cases"] = len(cases)


def neighbourhood(ctx, san, work, disagree):
    """model != implementation on some requests where the property still held: look for a concrete violation nearby
    using the specification predicate on the implementation alone."""
    reqs = []
    for d in disagree[:40]:
        op, _, arg = d["request"].partition(" ")
        if op in ("tostr", "tochr", "round", "floor", "ceil"):
            b = int(arg, 16)
            for k in list(range(-16, 17)) + [1 << 52, -(1 << 52), 2 << 52, -(2 << 52), 1 << 63]:
                nb = (b + k) & 0xFFFFFFFFFFFFFFFF if k != (1 << 63) else b ^ (1 << 63)
                reqs.append(("%s %s" % (op, G.hex16(nb)), ("d", nb, "neighbour")))
        elif op in ("todbl", "valid"):
            s = "".join(chr(int(arg[i:i + 4], 16)) for i in range(0, len(arg), 4)) if arg != "-" else ""
            cands = set()
            for i in range(len(s) + 1):
                for c in "05.- ":
                    cands.add(s[:i] + c + s[i:])
                if i < len(s):
                    cands.add(s[:i] + s[i + 1:])
            for c in sorted(cands)[:300]:
                reqs.append(("%s %s" % (op, G.units(c)), ("s", c, "neighbour")))
    if not reqs:
        return 0
    req = os.path.join(work, "c18_nbr.req")
    with open(req, "w") as f:
        f.write("\n".join(q for q, _ in reqs) + "\n")
    il, _, _ = run_impl([san], req, SAN_ENV)
    found = 0
    for (q, meta), iv in zip(reqs, il):
        ctx.case(cls="neighbour")
        j = judge(meta, q, iv)
        if j and ctx.fail(j[0], j[1], {"request": q, "impl": iv}) == "new":
            found += 1
    return found


def replay(ctx, path):
    d = json.load(open(path))
    ctx.build("hooks")
    ctx.translate("c18_number_consts")
    ctx.translate("c18_recycle")
    common.lake_build(["xm_c18"])
    model = ctx.exe("xm_c18")
    plain, san = harnesses()
    work = os.path.join(common.CACHE, "work")
    os.makedirs(work, exist_ok=True)
    reqs = []
    for f in ([d["first"]] if "first" in d else []) + d.get("all", [])[:20]:
        q = f["input"]["request"] if isinstance(f.get("input"), dict) else None
        if q and q not in reqs:
            reqs.append(q)
    if not reqs:
        print("replay file names broken obligations only:", json.dumps(d.get("broken_obligations"), indent=1)[:3000])
        return 1
    bad_engine = 0
    sessions = {}
    for f in ([d["first"]] if "first" in d else []) + d.get("all", [])[:20]:
        if isinstance(f.get("input"), dict) and "session" in f["input"]:
            sessions[f["input"]["request"]] = (f["input"]["session"], f["input"]["tag"])
    for q in [x for x in reqs if x.startswith("engine ")]:
        _, c, fn, arg = q.split(" ", 3)
        sx = "".join(chr(int(arg[k:k + 4], 16)) for k in range(0, len(arg), 4)) if arg != "-" else ""
        rc, out = common.sh([model], inp=("xeval %s %s\n" % (fn, arg)).encode())
        bits, _, t = out.strip().partition(" ")
        y = float("nan") if bits == NAN else G.of_bits(int(bits, 16))
        # the recycled objects depend on what the same transformation evaluated before: re-run the recorded session
        sheet, tag = sessions.get(q, ("xslt " + G.units(engine_sheet([(0, ENGINE_FN[fn] % sx, churn_expr(y, t))])), "0." + c))
        rep = ask(san, work, [sheet], "replay_engine")[0]
        got = dict(ln.partition("=")[::2] for ln in rep[3:].split("\\u000a") if "=" in ln)
        val = got.get(tag)
        y_spec = {"id": lambda v: v, "round": spec_round, "floor": spec_floor, "ceiling": spec_ceil, "neg": lambda v: -v}[fn](spec_todbl(sx))
        want = engine_expect(y_spec, None)[c]
        okv = (judge_tostr(y_spec, "ok:" + str(val)) is None) if c in PRINTED else (want is None or want == val)
        print("engine context %s: %s(number(%r))" % (c, fn, sx))
        print("  through the XSLT engine: %r   model: %r   specified: %s" % (val, engine_expect(y, t)[c], want if c not in PRINTED else "string(%r)" % y_spec))
        print("  verdict: %s" % ("property holds" if okv else "VIOLATED"))
        bad_engine += not okv
    reqs = [x for x in reqs if not x.startswith("engine ")]
    if not reqs:
        return 1 if bad_engine else 0
    req = os.path.join(work, "c18_replay.req")
    with open(req, "w") as f:
        f.write("\n".join(reqs) + "\n")
    il, ml, irc, mrc, ierr, merr = common.run_pair([san], [model], req, impl_env=SAN_ENV)
    pl, _, _ = run_impl([plain], req)
    bad = 0
    for i, q in enumerate(reqs):
        op, _, arg = q.partition(" ")
        iv = il[i] if i < len(il) else "<none>"
        if op in ("tostr", "tochr", "round", "floor", "ceil"):
            meta = ("d", int(arg, 16), "replay")
            desc = repr(G.of_bits(int(arg, 16)))
        elif op in ("todbl", "valid"):
            s = "".join(chr(int(arg[k:k + 4], 16)) for k in range(0, len(arg), 4)) if arg != "-" else ""
            meta = ("s", s, "replay")
            desc = repr(s)
        else:
            meta = ("x", None, "replay")
            desc = arg
        j = judge(meta, q, iv)
        if meta[0] == "x" and i < len(ml) and iv != ml[i]:
            j = ("xchain", "XPath-level result differs from the composition of the modelled conversions: %s vs %s" % (iv, ml[i]))
        print("request: %s   (%s)" % (q, desc))
        print("  implementation (sanitized): %s" % iv)
        print("  implementation (library):   %s" % (pl[i] if i < len(pl) else "<none>"))
        print("  model / specification:      %s" % (ml[i] if i < len(ml) else "<none>"))
        print("  verdict: %s" % ("property holds" if j is None else "VIOLATED — " + j[1]))
        bad += j is not None
    return 1 if (bad or bad_engine) else 0
