"""C02 — XPath 1.0 expressions evaluate to the value the Recommendation defines (DESIGN.md §5 C02).

proof:          lean/XalanModel/Props/C02.lean
                  * the recursive-descent compiler's operator layers produce exactly the prefix encoding of the
                    left-associated, precedence-respecting AST (insert-at-saved-position trick), over opaque atoms
                  * XObject comparison (six operators x all type pairs) = XPath §3.4 for distinct objects,
                    counterexamples for the `this == &theRHS` shortcuts
                  * evaluation of the operator fragment: model evaluator = denotational specification
translator:     translate/c02_opcodes.py (op-code enum + length table -> Generated/C02_OpCodes.lean)
correspondence: harness/c02_xpath.cpp (real XPathProcessorImpl / XPath::execute / XObject::equals…) vs
                lean/Driver/C02.lean (xm_c02) on the same request lines; on every implementation reply the
                specification predicate (independent python reference in gen/c02_gen.py) is evaluated too.
"""
import json
import os

from vlib import common
from vlib.common import Rng
from gen import c02_gen as g

CLAIMED = True
LEVEL = "proof"
TECHNIQUE = ("Lean 4 proofs over hand models of the XPath compiler (op map primitives + recursive descent), of XObject comparison and "
             "of location-step evaluation (find* walks, predicate loop), with op-code table and seven structural flags regenerated "
             "from the source by translators, + correspondence run of the real XPathProcessorImpl / XPath::execute / XObject "
             "methods against the compiled Lean model and, independently, against a denotational Lean specification")
LEVEL_TEXT = ("Machine-checked: (1) compile_encodes_partial: for every well-formed expression tree of the operator fragment (four "
              "binary layers, unary minus, groups, and/or, atoms) the model of initXPath..PrimaryExpr with insertOpCode/"
              "updateOpCodeLength/updateShiftedOpCodeLength emits exactly the prefix encoding of the left-associated, "
              "precedence-respecting tree; (2) compare_spec_partial: the six XObject comparison methods equal XPath 3.4 on all "
              "type pairs for distinct objects; (3) axes_spec_partial: on every document table satisfying the decidable "
              "well-formedness predicate, each find* walk/chain of XPath.cpp returns exactly the nodes of its axis in proximity "
              "order (13 axes); predicates_spec_partial / predicates_literal_spec: the predicate loop and the numeric-literal "
              "shortcut equal XPath 2.4 filtering; recycle_contract: every memoised conversion of a recyclable XObject is reset "
              "unconditionally on the factory's recycle path; nodeset_builders_ordered: id() and every other node-set building "
              "function fill their result with ordered, duplicate-rejecting inserts; parent_walks_use_xpath_parent: no upward walk "
              "of the function library uses the DOM parent accessor; scratch_buffers_cleared: loops reading one node's string-value "
              "per iteration empty their buffer on every iteration (tables regenerated from the source). The models are tied to the working tree by two translators and by replaying "
              "generated expressions, token soups, comparisons and evaluations on generated documents on the real library and on "
              "the compiled model; every implementation reply is also compared with the denotational specification evalS.")
LEVEL_NOTE = ("Trusted: Lean kernel; axioms propext/Classical.choice/Quot.sound only; the hand transcription of the anchored C++ "
              "(checked by the correspondence run, bounded by generator coverage); token payloads computed by the driver's "
              "annotator; IEEE arithmetic = Lean Float (hardware) with exact decimal->double and exact fmod written in Lean; "
              "NumOps is abstract in the comparison theorem. Partial: Doc.WF is evaluated per document (not proved for every "
              "pre-order table); the compiler theorem does not cover unions, multi-step paths, predicates and function calls; the "
              "evaluator as a whole (evalM = evalS) is not a theorem - its axis and predicate components are; the function library "
              "and EXSLT set functions are specified and tied by correspondence only; key()/document()/current() (XSLT only), the namespace axis with real namespace "
              "nodes, xalan:evaluate, EXSLT math/string/common/dynamic, number->string of non-integers and result tree fragments "
              "are not modelled (design/C02.md section 7).")
DESIGN_REF = "DESIGN.md section 5, C02; design/C02.md"

THEOREMS = [
    "XalanModel.Props.C02.binLevel_leftAssoc_partial",
    "XalanModel.Props.C02.enc_leftNested",
    "XalanModel.Props.C02.mulExpr_atoms_leftAssoc_partial",
    "XalanModel.Props.C02.compile_encodes_partial",
    "XalanModel.Props.C02.unary_minus_counterexample",
    "XalanModel.Props.C02.accepts_nonexpr_counterexample",
    "XalanModel.Props.C02.split_operator_counterexample",
    "XalanModel.Props.C02.compare_spec_partial",
    "XalanModel.Props.C02.compare_identity_le_counterexample",
    "XalanModel.Props.C02.compare_identity_ge_counterexample",
    "XalanModel.Props.C02.compare_identity_nan_counterexample",
    "XalanModel.Props.C02.compare_identity_empty_counterexample",
    "XalanModel.Props.C02.compare_identity_nodeset_counterexample",
    "XalanModel.Props.C02.predicates_spec_partial",
    "XalanModel.Props.C02.predicates_literal_spec",
    "XalanModel.Props.C02.axes_spec_sample_partial",
    "XalanModel.Props.C02.axes_spec_descendant_partial",
    "XalanModel.Props.C02.axes_spec_following_partial",
    "XalanModel.Props.C02.axes_spec_preceding_partial",
    "XalanModel.Props.C02.axes_spec_partial",
    "XalanModel.Props.C02.recycle_contract",
    "XalanModel.Props.C02.nodeset_builders_ordered",
    "XalanModel.Props.C02.parent_walks_use_xpath_parent",
    "XalanModel.Props.C02.scratch_buffers_cleared",
]

CORPUS_EXPR = [
    "- - 1", "$x <= $x", "$nan = $nan", "( )", "( 1 + )", "-", "a |", "1 ! = 2", "1 < = 2",
    "1 - 2 - 3", "1 = 2 = 3 = 4", "1 < 2 < 3 != 4", "8 div 4 div 2", "7 mod 4 mod 2", "1 or 2 or 3", "1 and 2 and 3",
    "a | b | c", "- a | b", "1 + 2 * 3 < 4 = 5 and 6 or 7", "( 1 + 2 ) * 3", "a-b", "a - b", "div div div", "* * *",
]


def hx(s):
    return g.hx(s)


def raw_tokens(s):
    """python re-tokenisation of a corpus string into the token alphabet of gen (white-space separated here)"""
    return s.split()


def run_requests(harness, model, lines, work, tag):
    req = os.path.join(work, "c02_%s.req" % tag)
    with open(req, "w") as f:
        f.write("\n".join(lines) + "\n")
    il, ml, irc, mrc, ierr, merr = common.run_pair([harness], [model], req)
    return il, ml, irc, mrc, ierr, merr, req


def classify_compile(tokens, impl_reply):
    """specification predicate on one implementation reply of the compile stream.
    returns None (fine) or (key, what)"""
    valid = g.strict_valid(tokens)
    ok = impl_reply.startswith("ok")
    text = " ".join(tokens)
    if valid and not ok:
        cls = "nested-unary-minus" if g.has_nested_minus(tokens) else "other"
        return ("parse.rejects-expr[%s]: %s" % (cls, text),
                "XPath 1.0 expression rejected by XPathProcessorImpl (expected: compiled)")
    if not valid and ok:
        lc = g.lenient_classes(tokens)
        cls = ",".join(lc) if lc else "other"
        return ("parse.accepts-nonexpr[%s]: %s" % (cls, text),
                "string that is not an XPath 1.0 expression is compiled without error: op map %s" % impl_reply[3:])
    return None


def run(ctx):
    ctx.rule = ("a case = one request answered by the real library and by the Lean model; non-trivial = expression with at "
                "least one operator / comparison of a non-boolean pair / token soup of >= 2 tokens; distinct = distinct request text")
    ctx.trusted += [
        "translate/c02_opcodes.py (regex over XPathExpression.hpp/.cpp; table size cross-checked against eOpCodeNextAvailable)",
        "harness/c02_xpath.cpp, gen/c02_gen.py (generator + independent reference), checks/c02.py (comparison)",
        "modelled, not verified: token queue positions (driver annotator), IEEE double arithmetic and decimal<->double "
        "conversion (Lean Float in the driver; abstract in the theorems), Xerces parser / XalanSourceTree",
    ]
    ctx.build("hooks")
    ctx.translate("c02_opcodes")
    ctx.translate("c02_flags")
    ctx.translate("c02_recycle")
    ctx.translate("c02_nodeset_builders")
    ctx.translate("c02_parent_walks")
    ctx.translate("c02_scratch_buffers")
    ctx.lean("XalanModel.Props.C02", THEOREMS, extra_targets=["xm_c02"])
    model = ctx.exe("xm_c02")
    harness = common.build_harness("c02_xpath", ["c02_xpath.cpp"], flavor="hooks")
    work = os.path.join(common.CACHE, "work")
    os.makedirs(work, exist_ok=True)
    if model is None:
        return
    r = Rng(ctx.seed)
    compile_stream(ctx, r, harness, model, work)
    compare_stream(ctx, r, harness, model, work)
    eval_stream(ctx, r, harness, model, work)
    sequence_stream(ctx, r, harness, model, work)


def impl_compile(harness, work, toks):
    req = os.path.join(work, "c02_shrink.req")
    with open(req, "w") as f:
        f.write("compile " + hx(g.join_tokens(toks)) + "\n")
    rc, out = common.sh("%s < %s" % (harness, req))
    return out.strip().split("\n")[0] if out.strip() else ""


def wrong_tree(harness, work, toks):
    want = g.parse_shape(toks)
    if want is None:
        return False
    iv = impl_compile(harness, work, toks)
    if not iv.startswith("ok"):
        return False
    return g.decode_opmap([int(x) for x in iv.split()[1:]]) != want


def shrink_tokens(harness, work, toks, budget=150):
    """greedy deletion of token runs while the expression stays valid and its op map stays wrong"""
    cur = list(toks)
    changed = True
    while changed and budget > 0:
        changed = False
        for width in (8, 4, 2, 1):
            i = 0
            while i + width <= len(cur) and budget > 0:
                cand = cur[:i] + cur[i + width:]
                budget -= 1
                if cand and wrong_tree(harness, work, cand):
                    cur = cand
                    changed = True
                else:
                    i += 1
    return cur


def compile_stream(ctx, r, harness, model, work):
    nvalid, nsoup, depth = (6000, 10000, 4) if not ctx.thorough else (120000, 200000, 6)
    cases = []   # (kind, tokens, ast or None, text)
    for s in CORPUS_EXPR:
        cases.append(("corpus", raw_tokens(s), None, s))
    for _ in range(nvalid):
        e = g.norm(g.gen_expr(r, r.range(1, depth)), nested_neg_ok=r.chance(1, 10))
        cases.append(("valid", g.tokens_of(e), e, g.render(e, r)))
    for _ in range(nsoup):
        t = g.gen_token_soup(r, 7)
        cases.append(("soup", t, None, g.join_tokens(t, r)))
    if ctx.thorough:
        # small-scope exhaustive: every token list of length <= 4 over a reduced alphabet
        import itertools
        alpha = ["1", "a", "(", ")", "-", "+", "=", "<", "*", "|", "or", "!"]
        for n in range(1, 5):
            for combo in itertools.product(alpha, repeat=n):
                cases.append(("soup", list(combo), None, g.join_tokens(list(combo))))
    lines = ["compile " + hx(c[3]) for c in cases]
    il, ml, irc, mrc, ierr, merr, req = run_requests(harness, model, lines, work, "compile")
    disagree = []
    n_unsupported = 0
    for i, (kind, toks, ast, text) in enumerate(cases):
        iv = il[i] if i < len(il) else None
        mv = ml[i] if i < len(ml) else None
        if iv is None:
            ctx.oblige("harness answered every compile request", "correspondence", False, "stopped at line %d: %s" % (i, ierr[-800:]))
            break
        nontriv = len(toks) >= 2
        ctx.case(nontrivial_key=text if nontriv else None, sample={"expr": text, "impl": iv} if i in (24, 25, 6100) else None,
                 cls="compile:" + kind + (":ok" if iv.startswith("ok") else ":err"))
        # 1. property predicate on the implementation's reply
        bad = classify_compile(toks, iv)
        if bad:
            ctx.fail(bad[0], bad[1], {"expr": text, "tokens": toks, "impl": iv})
        if iv.startswith("ok") and (ast is not None or g.strict_valid(toks)):
            got = g.decode_opmap([int(x) for x in iv.split()[1:]])
            want = g.ref_shape(ast) if ast is not None else g.parse_shape(toks)
            if ast is not None and g.parse_shape(toks) != want:
                ctx.oblige("reference parser agrees with the generator's tree", "machinery", False, text)
            if got != want:
                small = shrink_tokens(harness, work, toks)
                stext = g.join_tokens(small)
                ctx.fail("parse.wrong-tree: " + stext,
                         "op map does not decode to the left-associated tree XPath section 3 defines (shrunk from %r): want %r"
                         % (text, g.parse_shape(small)), {"expr": stext, "tokens": small})
        # 2. correspondence with the model
        if mv == "unsupported":
            n_unsupported += 1
            continue
        if iv != mv:
            disagree.append({"expr": text, "impl": iv, "model": mv})
    ctx.extra["compile_unsupported_by_model"] = n_unsupported
    ctx.oblige("correspondence: op map of XPathProcessorImpl = Lean compiler model on every generated expression / token soup",
               "correspondence", not disagree, json.dumps(disagree[:3]))
    ctx.oblige("model covers the generated fragment (no 'unsupported' replies)", "correspondence", n_unsupported == 0,
               "%d unsupported" % n_unsupported)
    if disagree:
        ctx.extra["compile_disagreements"] = disagree[:20]


# ---------------------------------------------------------------------------------------------
# comparison of every pair of types: XPath 1.0 section 3.4 written out independently (python floats are IEEE doubles)

import math
import re
import struct

NUM_RE = re.compile(r"^[ \t\r\n]*-?(\d+(\.\d*)?|\.\d+)[ \t\r\n]*$")


def xp_number(s):
    if not NUM_RE.match(s):
        return float("nan")
    return float(s.strip(" \t\r\n"))


def to_num(v):
    k, x = v
    if k == "b":
        return 1.0 if x else 0.0
    if k == "n":
        return x
    if k == "s":
        return xp_number(x)
    return xp_number(x[0]) if x else float("nan")


def to_bool(v):
    k, x = v
    if k == "b":
        return x
    if k == "n":
        return not (x == 0 or math.isnan(x))
    return len(x) > 0


def to_str(v):
    k, x = v
    if k == "b":
        return "true" if x else "false"
    if k == "s":
        return x
    if k == "ns":
        return x[0] if x else ""
    raise ValueError("number->string is not needed by section 3.4 on the generated pairs")


def cmp_num(op, a, b):
    return {"eq": a == b, "ne": a != b, "lt": a < b, "le": a <= b, "gt": a > b, "ge": a >= b}[op]


def spec_compare(op, a, b):
    ka, kb = a[0], b[0]
    rel = op not in ("eq", "ne")

    def cmp_strs(x, y):
        if rel:
            return cmp_num(op, xp_number(x), xp_number(y))
        return (x == y) if op == "eq" else (x != y)
    if ka == "ns" and kb == "ns":
        return any(cmp_strs(x, y) for x in a[1] for y in b[1])
    if ka == "ns" or kb == "ns":
        ns, other, ns_left = (a, b, True) if ka == "ns" else (b, a, False)
        if other[0] == "n":
            return any((cmp_num(op, xp_number(x), other[1]) if ns_left else cmp_num(op, other[1], xp_number(x))) for x in ns[1])
        if other[0] == "s":
            return any((cmp_strs(x, other[1]) if ns_left else cmp_strs(other[1], x)) for x in ns[1])
        # boolean: the node-set is converted with boolean()
        l, rr = (to_bool(ns), other[1]) if ns_left else (other[1], to_bool(ns))
        if rel:
            return cmp_num(op, 1.0 if l else 0.0, 1.0 if rr else 0.0)
        return (l == rr) if op == "eq" else (l != rr)
    if rel:
        return cmp_num(op, to_num(a), to_num(b))
    if ka == "b" or kb == "b":
        x, y = to_bool(a), to_bool(b)
    elif ka == "n" or kb == "n":
        x, y = to_num(a), to_num(b)
    else:
        x, y = to_str(a), to_str(b)
    return (x == y) if op == "eq" else (x != y)


def fbits(x):
    if math.isnan(x):
        return "7ff8000000000000"
    return "%016x" % struct.unpack("<Q", struct.pack("<d", x))[0]


OPSYM = {"eq": "=", "ne": "!=", "lt": "<", "le": "<=", "gt": ">", "ge": ">="}


def compare_stream(ctx, r, harness, model, work):
    nsess = 30 if not ctx.thorough else 300
    texts = ["1", "2", "3", "10", "a", "b", " 2 ", "x", "2.5", "-1", "NaN", "07", "", "true", "1.0"]
    nums = [0.0, 1.0, 2.0, -1.0, 2.5, float("nan"), float("inf"), -0.0, 10.0]
    lines = []
    meta = []   # per line: None | ("cmp"/"eval", op, n1, n2, v1, v2)
    for _ in range(nsess):
        avals = [r.choice(texts) for _ in range(r.range(1, 3))]
        bvals = [r.choice(texts) for _ in range(r.range(1, 2))]
        xml = "<r>" + "".join("<a>%s</a>" % t for t in avals) + "".join("<b>%s</b>" % t for t in bvals) + "<e/></r>"
        tbl = [("r", "", "", -1), ("e", "r", "", 0)]
        for t in avals:
            tbl.append(("e", "a", "", 1))
            if t:
                tbl.append(("t", "", t, len(tbl) - 1))
        for t in bvals:
            tbl.append(("e", "b", "", 1))
            if t:
                tbl.append(("t", "", t, len(tbl) - 1))
        tbl.append(("e", "e", "", 1))
        lines.append("doc %s %s" % (hx(xml), g.table_text(tbl)))
        meta.append(None)
        env = {}
        for nm, val in (("t", True), ("f", False)):
            env[nm] = ("b", val)
            lines.append("var %s b %d" % (nm, 1 if val else 0)); meta.append(None)
        for i, x in enumerate(r.shuffle(nums)[:4]):
            env["n%d" % i] = ("n", x)
            lines.append("var n%d n %s" % (i, fbits(x))); meta.append(None)
        for i, x in enumerate(r.shuffle(texts)[:4]):
            env["s%d" % i] = ("s", x)
            lines.append("var s%d s %s" % (i, hx(x))); meta.append(None)
        for nm, ex, vals in (("na", "/r/a", avals), ("nb", "/r/b", bvals), ("ne", "/r/zz", []), ("nw", "/r/*", avals + bvals + [""])):
            env[nm] = ("ns", list(vals))
            lines.append("var %s x %s NS:%s" % (nm, hx(ex), ",".join(hx(v) for v in vals))); meta.append(("var", nm, vals))
        names = sorted(env)
        for n1 in names:
            for n2 in names:
                if n1 != n2 and not ctx.thorough and not r.chance(1, 2):
                    continue
                for op in ("eq", "ne", "lt", "le", "gt", "ge"):
                    lines.append("cmp %s %s %s" % (op, n1, n2)); meta.append(("cmp", op, n1, n2, env[n1], env[n2]))
                    if n1 == n2 or r.chance(1, 6):
                        lines.append("eval 0 %s" % hx("$%s %s $%s" % (n1, OPSYM[op], n2)))
                        meta.append(("eval", op, n1, n2, env[n1], env[n2]))
    il, ml, irc, mrc, ierr, merr, req = run_requests(harness, model, lines, work, "compare")
    disagree = []
    for i, m in enumerate(meta):
        iv = il[i] if i < len(il) else None
        mv = ml[i] if i < len(ml) else None
        if iv is None:
            ctx.oblige("harness answered every comparison request", "correspondence", False, "stopped at line %d: %s" % (i, ierr[-800:]))
            break
        if m is None:
            if iv != mv and not lines[i].startswith("doc"):
                disagree.append({"line": lines[i], "impl": iv, "model": mv})
            continue
        if m[0] == "var":
            if iv != mv:
                disagree.append({"line": lines[i], "impl": iv, "model": mv})
            continue
        kind, op, n1, n2, v1, v2 = m
        want = spec_compare(op, v1, v2)
        tag = "%s %s %s" % (v1[0], op, v2[0])
        ctx.case(nontrivial_key=("%s|%r|%r|%s" % (op, v1, v2, n1 == n2)) if not (v1[0] == "b" and v2[0] == "b") else None,
                 sample={"request": lines[i], "impl": iv} if i % 997 == 0 else None,
                 cls=kind + ":" + tag + (":same-object" if n1 == n2 else ""))
        if iv not in ("B 0", "B 1"):
            ctx.fail("cmp.error[%s]: %s" % (tag, lines[i]), "comparison did not return a boolean: %s" % iv, {"lines": lines[:0] + [lines[i]], "impl": iv})
        elif (iv == "B 1") != want:
            cls = "identity" if n1 == n2 else "distinct"
            ctx.fail("%s.%s[%s,%s]: $%s %s $%s with %r" % (kind, cls, op, v1[0], n1, OPSYM[op], n2, v1 if n1 == n2 else (v1, v2)),
                     "XPath 3.4 gives %s, the implementation %s" % (want, iv), {"session_lines": "see request file", "request": lines[i], "impl": iv})
        if kind == "cmp" and iv != mv:
            disagree.append({"line": lines[i], "impl": iv, "model": mv, "values": [v1, v2]})
    ctx.oblige("correspondence: XObject::equals/notEquals/lessThan/lessThanOrEquals/greaterThan/greaterThanOrEquals = Lean model "
               "on every generated pair (incl. the same object on both sides)", "correspondence", not disagree, json.dumps(disagree[:3], default=str))
    if disagree:
        ctx.extra["compare_disagreements"] = disagree[:20]


# ---------------------------------------------------------------------------------------------
# evaluation: location paths over all axes, predicates, unions, functions, arithmetic

EVAL_CORPUS = [
    "normalize-space('p\tq')", "normalize-space('p\nq')", "normalize-space('p\rq')", "normalize-space('p q')", "normalize-space('p\u00a0q')",
    "normalize-space(' p\tq ')", "normalize-space('p\t\tq')", "string-length(normalize-space('\t'))", "normalize-space(concat('a', '\n', 'b'))",
    "count(//@*[lang('en')])", "//@*[lang('en')]", "//@*[lang('de')]", "//text()[lang('en')]", "//comment()[lang('en')]",
    "//processing-instruction()[lang('en')]", "count(//@*[name() = local-name()])", "//@*[string-length() > 1]",
    "number('\t12\n')", "number('\u00a012')", "contains('a\tb', '\t')", "translate('a\tb\nc', '\t\n', '  ')",
    "substring-before('p\tq', '\t')", "substring-after('p\rq', '\r')", "starts-with('\np', '\n')", "string-length('\t\n\r ')",
    "id('i1')", "id('i3 i1')", "id('i2 i2')", "count(id('i1 i1 zz'))", "string(id('i3 i1'))", "name(id('i3  i2'))", "id(//@k)",
    "id(//text())", "count(id(//@k | //text()))", "id(id('i2'))", "id(1)", "id('')", "count(id('i3 i2 i1 i3'))", "id('i2 i1')/@k",
    "string(id('i4 i2'))", "local-name(id(concat('i3', ' ', 'i1')))", "count(set:distinct(id('i2 i1 i2')))",
    "(//a | //b)[last()]/preceding-sibling::*[1]", "(preceding::*)[1]", "(ancestor::* | preceding::*)[2]", "(//*/ancestor::*)[last()]",
    "(//c/preceding::* | //e)[position() < 3]/following::*[1]", "$na[2]/preceding::*[1]", "($na | $nb)[last()]/ancestor::*[1]",
    "$vt and $vn > 2", "$vs + $vn", "$vnan = $vnan", "$vbig > 9223372036854775807", "concat($vw, $ve, $vs)", "$vf or $na",
    "//*[$vn > position()]", "//*[position() = $vn - 0.5]", "string-length($ve) = 0", "$vs = 12", "$vt = $na", "$vw < $vs",
    "number('9223372036854775808') > 0", "9999999999999999999 > 0", "number('9999999999999999999')", "9223372036854775807 + 1",
    "number('-9223372036854775809')", "18446744073709551616 div 2", "'9223372036854775808' > '9223372036854775807'",
    "number(' 1234567890123456789.5 ')", "0.30000000000000004 = 0.1 + 0.2", "number('0000000000000000000000001')",
    "sum(//*) > 0", "number('-0')", "1 div number('-0')", "number('1234567890')", "number('12345678901') * 2",
    "9007199254740993 - 9007199254740992", "number('99999999999999999999.99999')", "number('.0000000001') * 10000000000",
    "//*[../*[position() > 0] and position() = 2]", "//*[position() = 2 and ../*[position() > 0]]",
    "//*[count(../*[position() > 0]) = position()]", "(//*)[(../*)[position() = last()] and position() = 2]",
    "//*[ancestor-or-self::*[position() >= 1] and position() = last()]",
    "('12' > 5) and ('abc' > 5)", "('5' > 1) and ('2' < '3')", "count(//*[position() > 1][position() = 1])",
    "number(concat('1', '2')) + number(string(3)) + number(concat('x', 'y'))",
    "/*/*[position()=last()][position()=1]", "*[position()=2][position()=1]", "//*[position()=last()][1]",
    "/ | //a", "//a/preceding-sibling::*[1]", "//a/ancestor::*[last()]", "(//a)[last()]/preceding::*[2]",
    "//*[2]/following::node()[position() < 3]", "count(//@*)", "sum(//a) div count(//a)", "-(0)", "5 mod -2", "-5 mod 2",
    "1 div 0", "-1 div 0", "0 div 0", "(0 div 0) != (0 div 0)", "1 div -(0)", "substring('12345', 1.5, 2.6)",
    "substring('12345', 0 div 0)", "substring('12345', -1 div 0, 1 div 0)", "//text()[. = 'x']/..", "//a[b][1]",
    "//a[@p or @q][last()]", "string(//a[2])", "substring('12345', -1 div 0)", "substring('12345', 2, 1 div 0)",
    "substring('12345', -1 div 0, 1 div 0)", "substring('12345', 0.5, 1.5)", "substring('12345', 1.5)", "substring('12345', 1.4999, 2.4999)",
    "concat('a', 'b')", "concat('a', 'b', 'c', 'd', 'e')", "translate('aabb', 'aab', 'xyz')", "normalize-space('  ')",
    "count(//*[lang('en')])", "lang('en')", "local-name(//@*[1])", "name(//@*[last()])", "set:distinct(//*)", "set:leading(//*, //b)", "set:trailing(//*, //b)",
    "set:leading(//a, //b)", "set:difference(//*, //a)", "set:intersection(//*, //a | //b)", "set:has-same-node(//a, //b)",
    "x:distinct(//text())", "count(x:nodeset(//a))", "set:leading(//*, //zz)", "set:trailing(//a, /*)", "substring-before('abcabc', 'bc')", "substring-after('abcabc', 'bc')",
    "substring-before('abc', '')", "substring-after('abc', '')", "substring-before('abc', 'x')", "substring-after('abc', 'abc')", "count(//@node()) - count(//@*)", "-1 div -(0)", "5 mod (1 div 0)", "-4 mod 2",
    "1 mod 0.1", "(1 div 0) mod 2", "5.5 mod 2", "-5.5 mod 2", "name(//*[@*][1]/@*[1])", "//comment() | //processing-instruction()",
]


FIXED_DOC = ('<!DOCTYPE r [<!ATTLIST a k ID #IMPLIED><!ATTLIST b k ID #IMPLIED><!ATTLIST c k ID #IMPLIED><!ATTLIST e k ID #IMPLIED>]>'
             '<r xmlns:set="http://exslt.org/sets" xmlns:x="http://xml.apache.org/xalan" id="0"><a p="1">1<c>x</c></a><b>2</b><a q="7">3</a>tail<e/><b><c/><c/><c/></b></r>',
             [("r", "", "", -1), ("e", "r", "", 0), ("a", "id", "0", 1), ("e", "a", "", 1), ("a", "p", "1", 3), ("t", "", "1", 3),
              ("e", "c", "", 3), ("t", "", "x", 6), ("e", "b", "", 1), ("t", "", "2", 8), ("e", "a", "", 1), ("a", "q", "7", 10),
              ("t", "", "3", 10), ("t", "", "tail", 1), ("e", "e", "", 1), ("e", "b", "", 1), ("e", "c", "", 15), ("e", "c", "", 15),
              ("e", "c", "", 15)])


def build_doc(tree, dtd_names=("r", "a", "b", "c", "e")):
    """(xml, table) from nested tuples (name, [(attr, value)...], [children | text])"""
    table = [("r", "", "", -1)]

    def el(n, parent, top):
        name, attrs, kids = n
        me = len(table)
        table.append(("e", name, "", parent))
        x = "<" + name
        if top:
            x += ' xmlns:set="http://exslt.org/sets" xmlns:x="http://xml.apache.org/xalan"'
        for a, v in attrs:
            table.append(("a", a, v, me))
            x += ' %s="%s"' % (a, v)
        inner = ""
        for k in kids:
            if isinstance(k, str):
                table.append(("t", "", k, me))
                inner += k
            else:
                inner += el(k, me, False)
        return x + (">" + inner + "</" + name + ">" if inner else "/>")
    xml = el(tree, 0, True)
    dtd = "<!DOCTYPE %s [%s]>" % (tree[0], "".join("<!ATTLIST %s k ID #IMPLIED>" % n for n in dtd_names))
    return dtd + xml, table


# a document with DTD-declared IDs: tokens out of document order, repeated, unknown; IDs referenced from text and attributes
FIXED_ID_DOC = build_doc(("r", [], [("a", [("k", "i1")], ["i3 i1"]), ("b", [("k", "i2")], ["x"]), ("a", [("k", "i3"), ("p", "i4 i1")], ["i2"]),
                                    ("c", [], ["i2 i2 zz"]), ("b", [("k", "i4"), ("p", "i1")], [("c", [("k", "i5")], ["i5 i4 i3"])])]))


def classify_eval(text, iv, mv, sv, xml=""):
    """None, or (key, what) when the implementation's value differs from the specification's.
    (The classes of the defects that were fixed upstream are gone: a recurrence is an unlisted `eval.wrong`.)"""
    if iv == sv:
        return None
    if iv == "err" and sv != "err":
        return ("eval.rejects: %s" % text, "expression rejected / failed (specification value %s)" % sv)
    if iv == mv and g.uses_multi_position_pred(text):
        return ("eval.stale-position[multi-predicate]: %s" % text,
                "value %s, XPath 2.4 gives %s (position() answered from the cache of the previous predicate)" % (iv, sv))
    return ("eval.wrong: %s" % text, "value %s, the specification gives %s" % (iv, sv))


def eval_session_lines(xml, table, exprs_ctx):
    lines = ["doc %s %s" % (hx(xml), g.table_text(table))]
    for nm, ex in (("na", "//a"), ("nb", "//b[1] | //c"), ("nz", "//zz")):
        lines.append("var %s x %s" % (nm, hx(ex)))
    # variables of every other type (bound to the same objects on both sides)
    lines.append("var vt b 1")
    lines.append("var vf b 0")
    lines.append("var vn n 4004000000000000")          # 2.5
    lines.append("var vnan n 7ff8000000000000")
    lines.append("var vbig n 43e0000000000000")         # 2^63
    lines.append("var vs s %s" % hx(" 12 "))
    lines.append("var ve s -")
    lines.append("var vw s %s" % hx("x y"))
    for text, c in exprs_ctx:
        lines.append("eval %d %s" % (c, hx(text)))
    return lines


def eval_stream(ctx, r, harness, model, work):
    nsess, nexpr, depth = (60, 60, 2) if not ctx.thorough else (1200, 100, 3)
    npos = 30 if not ctx.thorough else 60
    nrecycle = 40 if not ctx.thorough else 80
    nkind, nws = (25, 30) if not ctx.thorough else (50, 60)
    lines = []
    meta = []
    sess_starts = []
    for si in range(nsess):
        xml, table = g.gen_doc2(r)
        ec = []
        if si == 0:
            xml, table = FIXED_DOC
            for t in EVAL_CORPUS:
                for c in (0, 1, 3, 9, 11):
                    ec.append((t, c, None, xml, table))
        elif si == 1:
            xml, table = FIXED_ID_DOC
            for t in EVAL_CORPUS:
                for c in (0, 2, 9):
                    ec.append((t, c, None, xml, table))
        elif si < 4:
            for t in EVAL_CORPUS:
                ec.append((t, 0, None, xml, table))
                ec.append((t, 1, None, xml, table))
        for _ in range(npos):
            ec.append((g.g_positional_expr(r), r.below(len(table)), None, xml, table))
        for _ in range(nkind):
            ec.append((g.g_context_kind_expr(r), r.below(len(table)), None, xml, table))
        for _ in range(nws):
            ec.append((g.g_whitespace_expr(r), r.below(len(table)), None, xml, table))
        for _ in range(nexpr):
            term = g.g_top(r, r.range(1, depth))
            text = g.rnd(term)
            c = r.below(len(table))
            ec.append((text, c, term, xml, table))
        sl = eval_session_lines(xml, table, [(t, c) for (t, c, _, _, _) in ec])
        sess_starts.append(len(lines))
        lines += sl
        meta += [None] * (len(sl) - len(ec)) + ec
        # recycling phase in the same session (same XObjectFactory): rebinding releases objects, later values land in them
        for step in g.g_recycle_phase(r, nrecycle):
            if step[0] == "var":
                lines.append("var %s x %s" % (step[1], hx(step[2])))
                meta.append(None)
            else:
                c = r.below(len(table))
                lines.append("eval %d %s" % (c, hx(step[1])))
                meta.append((step[1], c, None, xml, table))
    il, ml, irc, mrc, ierr, merr, req = run_requests(harness, model, lines, work, "eval")
    disagree = []
    nerr = 0
    for i, m in enumerate(meta):
        iv = il[i] if i < len(il) else None
        mraw = ml[i] if i < len(ml) else None
        if iv is None or mraw is None:
            ctx.oblige("harness and model answered every evaluation request", "correspondence", False,
                       "stopped at line %d: %s %s" % (i, ierr[-500:], merr[-300:]))
            break
        if m is None:
            if not lines[i].startswith("doc") and iv != mraw:
                disagree.append({"line": lines[i], "impl": iv, "model": mraw})
            elif lines[i].startswith("doc") and iv != mraw:
                disagree.append({"line": "doc (node count)", "impl": iv, "model": mraw})
            continue
        text, c, term, xml, table = m
        mv, _, sv = mraw.partition(" || ")
        iv_c = iv.replace(" !order", "")
        if iv == "err":
            nerr += 1
        kind = iv.split(" ")[0]
        ctx.case(nontrivial_key=(text, c, xml) if ("[" in text or "::" in text or "(" in text) else None,
                 sample={"doc": xml, "context": c, "expr": text, "impl": iv} if i % 1499 == 7 else None,
                 cls="eval:" + kind)
        if "!order" in iv and not (" -1" in iv and re.search(r"(@|attribute::)\s*node\(\)", text)):
            ctx.fail("eval.order: %s" % text, "node-set not delivered in document order: %s" % iv, {"doc": xml, "context": c, "expr": text})
        bad = classify_eval(text, iv_c, mv, sv, xml)
        if bad:
            stext, sc = text, c
            if term is not None and bad[0].startswith("eval.wrong"):
                stext = shrink_eval(harness, model, work, xml, table, term, c, bad[0].split(":")[0])
            key = bad[0].split(":")[0] + ": " + stext
            # the value may depend on what the session evaluated before (recycled XObjects, caches): the replay is the
            # session up to and including the failing request
            start = max([x for x in sess_starts if x <= i] or [0])
            history = [lines[start]] + lines[max(start + 1, i - 600):i]
            ctx.fail(key, bad[1] + " [doc %s, context node %d]" % (xml, c),
                     {"lines": eval_session_lines(xml, table, [(stext, c)]), "session_lines": history + [lines[i]],
                      "doc": xml, "context": c, "expr": stext})
        if iv_c != mv:
            disagree.append({"doc": xml, "context": c, "expr": text, "impl": iv, "model": mv, "spec": sv})
    ctx.extra["eval_impl_errors"] = nerr
    ctx.oblige("correspondence: XPath::execute (type, value, node ids in delivered order) = Lean model evaluator on every "
               "generated expression/document/context", "correspondence", not disagree, json.dumps(disagree[:3]))
    if disagree:
        ctx.extra["eval_disagreements"] = disagree[:20]


def sequence_stream(ctx, r, harness, model, work):
    """extension node-set functions on documents whose sibling values enumerate all words of length <= 5 over a small alphabet
    (every duplicate / adjacency pattern), compared node for node with the model and with the specification functions"""
    two = g.all_words(["a", "b"], 5)                       # 62 words: always all of them
    three = g.all_words(["a", "b", "c"], 5)                # 363
    nums = g.all_words(["1", "2", "10"], 4)                # numeric values for math:highest / lowest
    mixed = g.all_words(["x", "", "x y"], 4)               # empty and white-space containing values
    words = list(two)
    if ctx.thorough:
        words += three + nums + mixed
    else:
        words += r.shuffle(three)[:60] + r.shuffle(nums)[:30] + r.shuffle(mixed)[:20]
    per_doc = 5
    lines, meta = [], []
    for k in range(0, len(words), per_doc):
        ws = words[k:k + per_doc]
        xml, table = g.words_doc(ws)
        lines.append("doc %s %s" % (hx(xml), g.table_text(table)))
        meta.append(None)
        for e in g.g_sequence_requests(r, len(ws)):
            lines.append("eval 0 %s" % hx(e))
            meta.append((e, xml, ws))
    il, ml, irc, mrc, ierr, merr, req = run_requests(harness, model, lines, work, "sequences")
    disagree = []
    for i, m in enumerate(meta):
        iv = il[i] if i < len(il) else None
        mraw = ml[i] if i < len(ml) else None
        if iv is None or mraw is None:
            ctx.oblige("harness and model answered every value-sequence request", "correspondence", False,
                       "stopped at line %d: %s %s" % (i, ierr[-500:], merr[-300:]))
            break
        if m is None:
            if iv != mraw:
                disagree.append({"line": "doc", "impl": iv, "model": mraw})
            continue
        e, xml, ws = m
        mv, _, sv = mraw.partition(" || ")
        ctx.case(nontrivial_key=(e, xml), sample={"words": ws, "expr": e, "impl": iv} if i % 977 == 3 else None, cls="seq:" + iv.split(" ")[0])
        if "!order" in iv:
            ctx.fail("seq.order: %s on %r" % (e, ws), "node-set not delivered in document order without duplicates: %s" % iv,
                     {"lines": [lines[max(j for j in range(i + 1) if meta[j] is None)], lines[i]], "words": ws, "expr": e})
        iv_c = iv.replace(" !order", "")
        if iv_c != sv:
            ctx.fail("seq.wrong: %s on values %r" % (e, ws), "value %s, the definition of the function gives %s" % (iv, sv),
                     {"lines": [lines[max(j for j in range(i + 1) if meta[j] is None)], lines[i]], "words": ws, "expr": e})
        if iv_c != mv:
            disagree.append({"words": ws, "expr": e, "impl": iv, "model": mv, "spec": sv})
    ctx.oblige("correspondence: extension node-set functions (xalan:distinct/difference/intersection, set:*, math:highest/lowest) = "
               "Lean specification functions on every value-sequence document", "correspondence", not disagree, json.dumps(disagree[:3]))


def shrink_eval(harness, model, work, xml, table, term, c, cls, budget=60):
    cur = term
    changed = True
    while changed and budget > 0:
        changed = False
        for cand in g.shrink_candidates(cur):
            if budget <= 0:
                break
            text = g.rnd(cand)
            if len(text) >= len(g.rnd(cur)):
                continue
            budget -= 1
            lines = eval_session_lines(xml, table, [(text, c)])
            il, ml, *_ = run_requests(harness, model, lines, work, "shrink")
            if len(il) < len(lines) or len(ml) < len(lines):
                continue
            mv, _, sv = ml[-1].partition(" || ")
            bad = classify_eval(text, il[-1].replace(" !order", ""), mv, sv)
            if bad and bad[0].split(":")[0] == cls:
                cur = cand
                changed = True
                break
    return g.rnd(cur)


def replay(ctx, path):
    d = json.load(open(path))
    first = d.get("first", {})
    inp = first.get("input", {})
    ctx.build("hooks")
    common.lake_build(["xm_c02"])
    model = ctx.exe("xm_c02")
    harness = common.build_harness("c02_xpath", ["c02_xpath.cpp"], flavor="hooks")
    work = os.path.join(common.CACHE, "work")
    os.makedirs(work, exist_ok=True)
    lines = inp.get("session_lines") or inp.get("lines") or (["compile " + hx(inp["expr"])] if "expr" in inp else [])
    il, ml, *_ = run_requests(harness, model, lines, work, "replay")
    for ln, a, b in zip(lines, il, ml):
        print(ln, "\n   impl :", a, "\n   model:", b)
    return 0
