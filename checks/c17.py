"""C17 — xsl:number counts per XSLT 1.0 section 7.7, independent of evaluation history; formatting decodes back.

proof:          lean/XalanModel/Props/C17.lean (cache = chain length for every history and every isNodeAfter
                oracle; alphabetic / roman / decimal / list formatting round-trips; number list = section 7.7 on
                the part of the parameter space where the code follows it, counterexamples elsewhere)
translator:     translate/c17_tables.py (roman / alphabetic tables, roman limit, alpha buffer length)
correspondence: harness/c17_number.cpp (XalanTransformer in-process + direct calls of int2alphaCount/toRoman)
                vs lean/Driver/C17.lean on generated documents x instructions x visiting histories.
"""
import json
import os
import subprocess
import sys
import threading

from vlib import common
from vlib.common import Rng

sys.path.insert(0, os.path.join(common.ROOT, "gen"))
import c17_gen as G  # noqa: E402

CLAIMED = True
LEVEL = "proof"
TECHNIQUE = ("Lean 4: invariant proof over countNode histories (any isNodeAfter oracle), round-trip proofs for the "
             "formatters over tables regenerated from the source, refinement of the navigation code to the section 7.7 "
             "specification; lock-step correspondence of stylesheets numbering every node in several histories")
LEVEL_TEXT = ("Machine-checked: for every history of CountersTable::countNode calls and every isNodeAfter oracle the cached "
              "answer equals the from-scratch getPreviousNode chain length; int2alphaCount/toRoman/decimal+grouping/"
              "formatNumberList decode back (all n>=1, 1..3999, all n, all lists) over the tables translated from "
              "ElemNumber.cpp (also with grouping, with the buffer accounting of applyGrouping); the navigation model yields the "
              "section 7.7 list for level=any/single/multiple without `from`, multiple with `from` off the current node, any with "
              "`from` when from-nodes have children, with proved counterexamples where the code deviates. "
              "Tied to the working tree by the table translator and by running generated stylesheets (every node numbered "
              "in document, reverse, shuffled, sorted and repeating orders, next to the defining count() expression) "
              "through the real library and the compiled Lean model.")
LEVEL_NOTE = ("Trusted: Lean kernel; axioms propext/Classical.choice/Quot.sound only; translate/c17_tables.py; the hand "
              "transcription of ElemNumber.cpp/CountersTable.cpp/XalanNumberFormat.cpp (validated by the correspondence run, "
              "bounded by generator coverage); pattern matching (getMatchScore) is an abstract predicate, evaluated by the "
              "generator for a fixed family of patterns; isXMLLetterOrDigit is a parameter (ASCII instance in the driver); "
              "Greek/traditional numbering, lang and letter-value are not modelled; attribute nodes are outside the navigation model.")
DESIGN_REF = "DESIGN.md section 5, C17; design/C17.md"

THEOREMS = [
    "XalanModel.Props.C17.counters_invariant",
    "XalanModel.Props.C17.counters_history_independent",
    "XalanModel.Props.C17.counters_history_answers",
    "XalanModel.Props.C17.getPreviousNode_decreases",
    "XalanModel.Props.C17.number_spec_partial",
    "XalanModel.Props.C17.number_spec_single_multiple",
    "XalanModel.Props.C17.number_spec_any_zero_counterexample",
    "XalanModel.Props.C17.alpha_roundtrip",
    "XalanModel.Props.C17.alpha_no_overflow",
    "XalanModel.Props.C17.roman_roundtrip",
    "XalanModel.Props.C17.roman_out_of_range",
    "XalanModel.Props.C17.decimal_roundtrip",
    "XalanModel.Props.C17.decimal_grouping_roundtrip",
    "XalanModel.Props.C17.formatList_roundtrip",
    "XalanModel.Props.C17.formatList_roundtrip_3999",
    "XalanModel.Props.C17.formatList_grouping_roundtrip",
]

WORK = os.path.join(common.CACHE, "work")


def hexs(s):
    return s.encode("utf-8").hex() if s else "-"


def unhexs(h):
    return "" if h == "-" else bytes.fromhex(h).decode("utf-8", "replace")


# ------------------------------------------------------------------------------------------------
# running the implementation

def _run_slice(harness, groups, out, slot):
    """groups: list of (xml, [xsl…]).  out[slot] = list (per group) of list (per xsl) of (kind, text)
    kind: out | err | crash"""
    res = [[None] * len(xs) for _, xs in groups]
    pending = [(gi, xi) for gi, (_, xs) in enumerate(groups) for xi in range(len(xs))]
    guard = 0
    while pending and guard < 10000:
        guard += 1
        lines = []
        owner = []
        cur = None
        for gi, xi in pending:
            if gi != cur:
                lines.append("xml " + hexs(groups[gi][0]))
                owner.append(None)
                cur = gi
            lines.append("xsl " + hexs(groups[gi][1][xi]))
            owner.append((gi, xi))
        p = subprocess.run([harness], input=("\n".join(lines) + "\n").encode(), stdout=subprocess.PIPE,
                           stderr=subprocess.DEVNULL)
        replies = p.stdout.decode("utf-8", "replace").split("\n")
        if replies and replies[-1] == "":
            replies.pop()
        done = set()
        for i, rep in enumerate(replies[:len(lines)]):
            if owner[i] is None:
                continue
            kind, _, arg = rep.partition(" ")
            if kind in ("out", "err"):
                res[owner[i][0]][owner[i][1]] = (kind, unhexs(arg))
            else:
                res[owner[i][0]][owner[i][1]] = ("err", "harness: " + rep)
            done.add(owner[i])
        if len(replies) < len(lines):
            # the request with index len(replies) killed the process
            k = len(replies)
            while k < len(lines) and owner[k] is None:
                k += 1
            if k < len(lines):
                res[owner[k][0]][owner[k][1]] = ("crash", "rc=%d" % p.returncode)
                done.add(owner[k])
            elif not done:
                break
        pending = [x for x in pending if x not in done]
    out[slot] = res


def run_impl(harness, groups, nproc=8):
    nproc = max(1, min(nproc, len(groups)))
    slices = [groups[i::nproc] for i in range(nproc)]
    out = [None] * nproc
    ths = [threading.Thread(target=_run_slice, args=(harness, slices[i], out, i)) for i in range(nproc)]
    for t in ths:
        t.start()
    for t in ths:
        t.join()
    res = [None] * len(groups)
    for i in range(nproc):
        for j, r in enumerate(out[i] or []):
            res[i + j * nproc] = r
    return res


def run_model(model, lines, tag):
    os.makedirs(WORK, exist_ok=True)
    req = os.path.join(WORK, "c17_%s_%d.req" % (tag, os.getpid()))
    with open(req, "w") as f:
        f.write("\n".join(lines) + "\n")
    with open(req, "rb") as f:
        p = subprocess.run([model], stdin=f, stdout=subprocess.PIPE, stderr=subprocess.PIPE)
    os.unlink(req)
    out = p.stdout.decode("utf-8", "replace").split("\n")
    if out and out[-1] == "":
        out.pop()
    return out, p.returncode, p.stderr.decode("utf-8", "replace")[-500:]


def run_direct(harness, lines):
    p = subprocess.run([harness], input=("\n".join(lines) + "\n").encode(), stdout=subprocess.PIPE, stderr=subprocess.DEVNULL)
    out = p.stdout.decode().split("\n")
    if out and out[-1] == "":
        out.pop()
    return out, p.returncode


# ------------------------------------------------------------------------------------------------
# cases

class Case:
    def __init__(self, root, io, origin="gen"):
        self.root = root
        self.io = io            # list of (Instr, [history…])
        self.origin = origin

    def to_json(self):
        return {"doc": G.to_xml(self.root), "tree": G.tree_spec(self.root),
                "instructions": [{"instr": ins.to_json(), "histories": [G.visits_of(h) for h in hs],
                                  "sorted": [list(h[1]) if isinstance(h, tuple) else None for h in hs]} for ins, hs in self.io]}


def parse_list(s):
    if s in ("-", ""):
        return []
    try:
        return [int(x) for x in s.split(".")]
    except ValueError:
        return None


def gen_cases(r, ndocs, maxnodes, ninstr, kinds):
    cases = []
    for _ in range(ndocs):
        root = G.gen_tree(r, r.range(4, maxnodes))
        n = len(G.preorder(root))
        io = []
        for _ in range(ninstr):
            ins = G.gen_instr(r)
            hs = []
            for k in kinds:
                if k == "sort":
                    abp, order = G.sort_perm(r, n)
                    hs.append(("sort", abp, order))
                else:
                    hs.append(G.gen_history(r, n, k))
            io.append((ins, hs))
        cases.append(Case(root, io))
    return cases


def I(level, count=None, frm=None, fmt=None, grouping=None):
    return G.Instr(level, count, frm, fmt, grouping)


def corpus():
    """minimised past failures and the DESIGN section 6 candidates; runs first"""
    cs = []
    # section 6 item 8: level=any, from on a preceding leaf; level=single ignores from
    t = G.tree_from_spec([["r", ["h"], ["x"], ["x"], ["h"], ["x", {"k": "1"}, "t", ["y"], ["x"]], "!c"]])
    n = len(G.preorder(t))
    cs.append(Case(t, [(I("any", G.pat_name("x"), G.pat_name("h")), [list(range(n)), list(range(n))[::-1]]),
                       (I("single", G.pat_name("x"), G.pat_name("r")), [list(range(n))]),
                       (I("multiple", G.PAT_STAR, None, "1.a.I"), [list(range(n)), list(range(n))[::-1]]),
                       (I("any", G.pat_union("x", "h"), G.pat_name("h")), [list(range(n))]),
                       (I("any", G.pat_name("y")), [list(range(n))]),
                       (I("multiple", G.pat_union("x", "r"), G.pat_name("x")), [list(range(n))])], "corpus:s6-8"))
    # section 6 item 9: count="/" with from at the root
    t2 = G.tree_from_spec([["r", ["h"], ["x"]]])
    cs.append(Case(t2, [(I("any", G.PAT_ROOT, G.pat_name("h")), [[0]])], "corpus:s6-9"))
    cs.append(Case(t2, [(I("any", G.PAT_ROOT, G.pat_name("h")), [[2, 1]])], "corpus:s6-9b"))
    cs.append(Case(t2, [(I("any", None, G.pat_name("h")), [[0]])], "corpus:s6-9c"))     # default count at the root
    cs.append(Case(t2, [(I("any", G.PAT_ROOT), [[0, 1, 2, 3]]), (I("any", G.pat_root_or("x")), [[3, 0, 1, 2, 3]])], "corpus:root"))
    # default count pattern on a processing instruction
    t3 = G.tree_from_spec([["r", "?p", ["x"], "?p", "?q"]])
    cs.append(Case(t3, [(I("single"), [[2]]), (I("any"), [[4, 2]])], "corpus:pi-default"))
    return cs


# ------------------------------------------------------------------------------------------------
# evaluation of one case

def classify(case, ins, node, impl_list, spec_list):
    """structural cause of impl != spec for the known deviation of the code (design/C17.md)"""
    if ins.level == "any" and spec_list == [0] and impl_list == []:
        return "any,zero-count-prints-nothing"
    return None


def evaluate(ctx, cases, harness, model, tag, record=True):
    """returns list of problems: dict(kind, key, detail, case, j, k, node)"""
    groups = [(G.to_xml(c.root), [G.stylesheet(c.io)]) for c in cases]
    impl = run_impl(harness, groups, nproc=min(8, common.NPROC))
    lines = []
    owner = []
    for ci, c in enumerate(cases):
        ll = G.lean_lines(c.root, c.io)
        lines += ll
        owner += [(ci, i) for i in range(len(ll))]
    mout, mrc, merr = run_model(model, lines, tag)
    problems = []
    if len(mout) != len(lines):
        problems.append({"kind": "machinery", "key": "model driver stopped", "detail": "%d/%d replies rc=%d %s" % (len(mout), len(lines), mrc, merr)})
        return problems
    per_case = {}
    for (ci, i), rep in zip(owner, mout):
        per_case.setdefault(ci, []).append(rep)
    decode_req = {}
    pending = []
    for ci, c in enumerate(cases):
        reps = per_case[ci]
        nn = len(G.preorder(c.root))
        if not reps[0].startswith("ok n=%d wf=1" % nn):
            problems.append({"kind": "machinery", "key": "document not well-formed for the model", "detail": reps[0] + " " + G.to_xml(c.root), "case": c})
            continue
        kind, text = impl[ci][0]
        numreps = reps[2:]
        # model entries per (j,k)
        ment = {}
        idx = 0
        for j, (ins, hs) in enumerate(c.io):
            for k, h in enumerate(hs):
                ent = [e.split("|") for e in numreps[idx].split(" ")] if numreps[idx] else []
                ment[(j, k)] = ent
                idx += 1
        model_hist = any(len(e) == 4 and "h" in e[3] for ent in ment.values() for e in ent)
        if model_hist:
            problems.append({"kind": "machinery", "key": "model itself is history dependent (contradicts the theorem)", "detail": G.to_xml(c.root), "case": c})
        if kind == "crash":
            ins0 = c.io[0][0]
            key = "number.crash: %s doc=%s" % (ins0.describe(), G.to_xml(c.root))
            problems.append({"kind": "fail", "key": key, "detail": "the library crashed (%s) while numbering" % text, "case": c})
            continue
        if kind == "err":
            ins0 = c.io[0][0]
            if "processing-instruction(" in text and any(i.count is None for i, _ in c.io):
                key = "number.error[default-count,processing-instruction]: doc=%s" % G.to_xml(c.root)
                problems.append({"kind": "fail", "key": key, "detail": "xsl:number without count on a processing instruction raises: " + text[:200], "case": c})
            else:
                problems.append({"kind": "fail", "key": "number.error[unexplained]: %s doc=%s" % (ins0.describe(), G.to_xml(c.root)),
                                 "detail": "transformation failed: " + text[:300], "case": c})
            continue
        # parse the implementation's lines
        got = {}
        for ln in text.split("\n"):
            if not ln.startswith("#"):
                continue
            head, _, rest = ln[1:].partition(":")
            parts = rest.split("=")
            if len(parts) != 3:
                problems.append({"kind": "machinery", "key": "unparsable output line", "detail": ln, "case": c})
                continue
            jj, kk = head.split(".")
            got.setdefault((int(jj), int(kk)), []).append((int(parts[0]), parts[1], parts[2]))
        for j, (ins, hs) in enumerate(c.io):
            for k, h in enumerate(hs):
                vis = G.visits_of(h)
                g = got.get((j, k), [])
                if [x[0] for x in g] != vis:
                    problems.append({"kind": "machinery", "key": "visiting order differs from the generated history",
                                     "detail": "%s want=%s got=%s" % (ins.describe(), vis, [x[0] for x in g]), "case": c})
                    continue
                for pos, ((node, istr, dstr), e) in enumerate(zip(g, ment[(j, k)])):
                    fu, gs, gz = G.units(ins.fmt), (G.units(ins.grouping[0]) if ins.grouping else "-"), (str(ins.grouping[1]) if ins.grouping else "-")
                    dk = (fu, gs, gz, G.units(istr))
                    decode_req.setdefault(dk, None)
                    pending.append((ci, j, k, pos, node, istr, dstr, e, dk))
    # second pass: decode every implementation string with the Lean decoder
    dkeys = list(decode_req)
    dl, drc, derr = run_model(model, ["dec %s %s %s %s" % k for k in dkeys], tag + "d")
    if len(dl) != len(dkeys):
        problems.append({"kind": "machinery", "key": "model driver stopped (decode)", "detail": derr})
        return problems
    for k, v in zip(dkeys, dl):
        decode_req[k] = v
    seen_nodes = {}
    for (ci, j, k, pos, node, istr, dstr, e, dk) in pending:
        c = cases[ci]
        ins, hs = c.io[j]
        mstr = None if e[0] == "!err" else G.from_units(e[0])
        mlist = parse_list(e[1])
        slist = parse_list(e[2])
        where = {"case": c, "j": j, "k": k, "node": node, "pos": pos}
        desc = "%s doc=%s node=%d history=%s" % (ins.describe(), G.to_xml(c.root), node, G.visits_of(hs[k])[:pos + 1])
        # (1) history independence on the implementation itself
        prev = seen_nodes.setdefault((ci, j, node), (istr, k, pos))
        if prev[0] != istr:
            problems.append(dict(where, kind="fail", key="number.history-dependent: " + desc,
                                 detail="the same instruction printed %r for this node in history %d and %r in history %d" % (prev[0], prev[1], istr, k)))
        # (2) correspondence
        if mstr != istr:
            problems.append(dict(where, kind="model", key="model != implementation: " + desc,
                                 detail="impl=%r model=%r (model list %s)" % (istr, mstr, e[1])))
        # (3) the property: the implementation's string decodes to the section 7.7 list
        dec = decode_req[dk]
        ilist = parse_list(dec) if dec != "none" else None
        unambiguous = decodable(ins)
        if istr == "":
            ilist = []
        if slist is None:
            problems.append(dict(where, kind="machinery", key="bad spec list", detail=str(e)))
        elif unambiguous and ilist != slist:
            cause = classify(c, ins, node, ilist, slist)
            cls = cause if (cause and mstr == istr) else "unclassified"
            problems.append(dict(where, kind="fail", key="number.spec[%s]: %s" % (cls, desc),
                                 detail="xsl:number printed %r (decodes to %s); XSLT 1.0 section 7.7 defines %s; in-run count() expression printed %r" % (istr, ilist, slist, dstr)))
        # (3b) XSLT 7.7.1 on the implementation's string: prefix, the i-th separator token between the i-th and (i+1)-th
        # number (the last one repeating, "." when the format has none), suffix
        if ins.fmt and not ins.grouping and istr != "" and ilist:
            exp = expected_layout(ins.fmt, istr)
            if exp is not None and exp != istr:
                only_punct = not any(ch.isalnum() for ch in ins.fmt)
                cls = "format-is-one-punctuation-token" if (only_punct and mstr == istr) else "unclassified"
                problems.append(dict(where, kind="fail", key="number.format.layout[%s]: %s" % (cls, desc),
                                     detail="printed %r; with the format tokens of %r the numbers must be laid out as %r" % (istr, ins.fmt, exp)))
        # (4) the in-run defining expression agrees with the Lean specification
        if dstr != "?":
            dlist = parse_list(dstr)
            if dlist != slist:
                problems.append(dict(where, kind="oracle", key="defining count() expression != Lean specification: " + desc,
                                     detail="def=%r spec=%s" % (dstr, slist)))
        if record:
            nontriv = (len(slist or []) > 0 and (slist or [0])[0] > 1) or len(slist or []) > 1
            ctx.case(nontrivial_key=("%s|%s|%d" % (ins.describe(), G.to_xml(c.root), node)) if nontriv else None,
                     sample={"doc": G.to_xml(c.root), "instr": ins.to_json(), "node": node, "printed": istr, "spec": slist} if (ci, j, k, pos) == (len(cases) - 1, 0, 0, 0) or (ci == 3 and pos == 2 and k == 0) else None,
                     cls="level=%s%s%s" % (ins.level, ",from" if ins.frm else "", ",default-count" if not ins.count else ""))
    return problems


def decodable(ins):
    """is the formatted list unambiguously decodable (grouping separator distinct from every separator token)?"""
    if ins.fmt is None:
        return True
    if ins.grouping and ins.grouping[1] != 0:
        sep = ins.grouping[0]
        if sep in ins.fmt or sep == ".":
            return False
    return True


# ------------------------------------------------------------------------------------------------
# shrinking

def clone_case(c, j, k):
    ins, hs = c.io[j]
    return Case(G.tree_from_spec(G.tree_spec(c.root)), [(ins, [G.visits_of(hs[k])])], c.origin)


def shrink(ctx, harness, model, c, j, k, kind, keyprefix):
    """greedy: shorten the history, then delete subtrees, keeping a problem of the same kind/key class"""
    cur = clone_case(c, j, k)

    def still(cc):
        ps = evaluate(ctx, [cc], harness, model, "shrink", record=False)
        return [p for p in ps if p["kind"] == kind and p["key"].startswith(keyprefix)]
    if not still(cur):
        return cur, None
    budget = 60
    changed = True
    while changed and budget > 0:
        changed = False
        ins, hs = cur.io[0]
        h = list(hs[0])
        for i in range(len(h) - 1, -1, -1):
            if len(h) <= 1 or budget <= 0:
                break
            cand = Case(cur.root, [(ins, [h[:i] + h[i + 1:]])], cur.origin)
            budget -= 1
            if still(cand):
                cur = cand
                h = h[:i] + h[i + 1:]
                changed = True
        nodes = G.preorder(cur.root)
        for nd in reversed(nodes[2:]):
            if budget <= 0:
                break
            sub = {x.idx for x in G.preorder(nd)}
            if any(v in sub for v in h):
                continue
            # delete nd
            spec_nodes = [x for x in nodes if x.idx not in sub]
            remap = {x.idx: i for i, x in enumerate(spec_nodes)}
            par = nd.parent
            saved = list(par.kids)
            par.kids = [x for x in par.kids if x is not nd]
            newroot = G.tree_from_spec(G.tree_spec(cur.root))
            par.kids = saved
            adj = any(a.kind == "text" and b.kind == "text" for p_ in G.preorder(newroot) for a, b in zip(p_.kids, p_.kids[1:]))
            if adj:
                continue
            cand = Case(newroot, [(ins, [[remap[v] for v in h]])], cur.origin)
            budget -= 1
            if still(cand):
                cur = cand
                h = [remap[v] for v in h]
                changed = True
                break
    ps = still(cur)
    return cur, (ps[0] if ps else None)


# ------------------------------------------------------------------------------------------------
# formatting stream

def format_stream(ctx, r, harness, model, nvals):
    items = []
    for _ in range(nvals):
        fmt = G.gen_format(r, maxtok=1) if not r.chance(1, 6) else None
        g = G.gen_grouping(r)
        items.append((G.gen_value(r), fmt, g))
    # corpus of edge values first
    edge = [(v, f, None) for f in ("A", "a", "I", "i", "1", "001") for v in (1, 26, 27, 52, 676, 702, 703, 18278, 18279, 3999, 4000, 475254, 0)]
    items = edge + items
    chunks = [items[i:i + 400] for i in range(0, len(items), 400)]
    groups = [("<r/>", [G.value_stylesheet(ch) for ch in chunks])]
    # spread over processes: one group per chunk
    groups = [("<r/>", [G.value_stylesheet(ch)]) for ch in chunks]
    impl = run_impl(harness, groups, nproc=min(8, common.NPROC))
    lines = []
    for v, fmt, g in items:
        lines.append("val %s %s %s %d" % (G.units(fmt), G.units(g[0]) if g else "-", str(g[1]) if g else "-", v))
    mout, mrc, merr = run_model(model, lines, "fmt")
    ok_corr = True
    if len(mout) != len(lines):
        ctx.oblige("model driver answers the formatting stream", "machinery", False, merr)
        return
    flat = []
    for gi, ch in enumerate(chunks):
        kind, text = impl[gi][0]
        if kind != "out":
            ctx.fail("number.format.error: %s" % text[:200], "value= stylesheet failed: " + text[:300], {"items": [list(map(str, x)) for x in ch[:20]]})
            flat += [None] * len(ch)
            continue
        ls = text.split("\n")
        if ls and ls[-1] == "":
            ls.pop()
        if len(ls) != len(ch):
            ctx.oblige("formatting stream: one output line per xsl:number", "machinery", False, "%d vs %d" % (len(ls), len(ch)))
            flat += [None] * len(ch)
            continue
        flat += ls
    dreq = []
    for (v, fmt, g), istr in zip(items, flat):
        dreq.append("dec %s %s %s %s" % (G.units(fmt), G.units(g[0]) if g else "-", str(g[1]) if g else "-", G.units(istr or "")))
    dout, _, _ = run_model(model, dreq, "fmtd")
    bad = []
    for (v, fmt, g), istr, m, d in zip(items, flat, mout, dout):
        if istr is None:
            continue
        mstr = None if m == "!err" else G.from_units(m)
        ins = G.Instr("single", None, None, fmt, g)
        inrange = v >= 1 and not (last_alnum_type(fmt) in "iI" and v > 3999)
        nontriv = v > 26
        ctx.case(nontrivial_key=("v", v, fmt, g) if nontriv else None,
                 sample={"value": v, "format": fmt, "grouping": g, "printed": istr} if len(ctx.samples) < 8 and v > 1000 else None,
                 cls="format:" + last_alnum_type(fmt))
        if mstr != istr:
            ok_corr = False
            bad.append({"value": v, "format": fmt, "grouping": g, "impl": istr, "model": mstr})
        # XSLT 7.7.1: grouping-size digits per group, counted from the right (checked when the token does not pad)
        if g and g[1] > 0 and inrange and decodable(ins) and last_alnum_type(fmt) not in "aAiI" and first_token_width(fmt) == 1:
            import re
            core = re.search(r"[0-9%s]+" % re.escape(g[0]), istr)
            shape = re.compile(r"^\d{1,%d}(?:%s\d{%d})*$" % (g[1], re.escape(g[0]), g[1]))
            if core is None or not shape.match(core.group(0)):
                ctx.fail("number.format.grouping-shape: value=%d format=%r grouping=%r" % (v, fmt, g),
                         "printed %r: digits are not in groups of %d from the right" % (istr, g[1]), {"value": v, "format": fmt, "grouping": list(g)})
        if inrange and decodable(ins):
            dl = parse_list(d) if d != "none" else None
            if dl != [v]:
                ctx.fail("number.format.roundtrip: value=%d format=%r grouping=%r" % (v, fmt, g),
                         "printed %r which decodes to %s" % (istr, dl), {"value": v, "format": fmt, "grouping": g})
    ctx.oblige("correspondence: value= formatting (real code) = Lean model", "correspondence", ok_corr, json.dumps(bad[:3], ensure_ascii=False))
    # direct calls with 64-bit values
    vals = [1, 25, 26, 27, 2 ** 32, 2 ** 63, 2 ** 64 - 1, 26 ** 13, 26 ** 13 - 1, (26 ** 14 - 26) // 25] + [r.range(1, 2 ** 64 - 1) for _ in range(300)] + \
           [r.range(1, 2 ** r.range(1, 64)) for _ in range(300)]
    vals = [v for v in vals if v < 2 ** 64]
    rv = list(range(1, 4001)) if ctx.thorough else [r.range(1, 4000) for _ in range(300)] + [3999, 4000, 1, 4, 9]
    out, rc = run_direct(harness, ["alpha %d" % v for v in vals] + ["roman %d" % v for v in rv])
    ml, _, _ = run_model(model, ["fmt 0041 - - %d" % v for v in vals] + ["fmt 0049 - - %d" % v for v in rv], "direct")
    okd = len(out) == len(ml) == len(vals) + len(rv)
    badd = []
    if okd:
        dq = []
        for v, o in zip(vals + rv, out):
            dq.append("dec %s - - %s" % ("0041" if len(dq) < len(vals) else "0049", o[4:] if o.startswith("str ") else "-"))
        dd, _, _ = run_model(model, dq, "directd")
        for i, (v, o, m, d) in enumerate(zip(vals + rv, out, ml, dd)):
            ctx.case(nontrivial_key=("d", i < len(vals), v), cls="direct:" + ("alpha" if i < len(vals) else "roman"))
            if o != "str " + m:
                okd = False
                badd.append((v, o, m))
            if (i < len(vals) or v <= 3999) and parse_list(d) != [v]:
                ctx.fail("number.format.roundtrip[direct]: %s %d" % ("alpha" if i < len(vals) else "roman", v), "printed %s decodes to %s" % (o, d), {"value": v})
    ctx.oblige("correspondence: int2alphaCount / toRoman direct calls (real code) = Lean model", "correspondence", okd, str(badd[:3]) + " rc=%d" % rc)


def runs_of(s):
    out = []
    for ch in s:
        k = ch.isalnum()
        if out and out[-1][0] == k:
            out[-1][1] += ch
        else:
            out.append([k, ch])
    return out


def expected_layout(fmt, printed):
    """re-assemble the letter/digit runs of `printed` with the prefix / separators / suffix XSLT 7.7.1 takes from `fmt`"""
    toks = runs_of(fmt)
    if not toks:
        return None
    leader = toks[0][1] if not toks[0][0] else ""
    trailer = toks[-1][1] if not toks[-1][0] else ""      # also when it is the only token (7.7.1: starts with it AND ends with it)
    inner = toks[1 if leader else 0: len(toks) - (1 if trailer else 0)] if len(toks) > 1 else []
    seps = [t[1] for t in inner if not t[0]]
    nums = [t[1] for t in runs_of(printed) if t[0]]
    if not nums:
        return None
    out = leader
    for i, n in enumerate(nums):
        out += n
        if i < len(nums) - 1:
            out += seps[i] if i < len(seps) else (seps[-1] if seps else ".")
    return out + trailer


def last_alnum_type(fmt):
    if not fmt:
        return "1"
    run = ""
    first = None
    for ch in fmt:
        if ch.isalnum():
            run += ch
        elif run:
            break
    return run[-1] if run else "1"


def first_token_width(fmt):
    if not fmt:
        return 1
    run = ""
    for ch in fmt:
        if ch.isalnum():
            run += ch
        elif run:
            break
    return len(run) if run else 1


# ------------------------------------------------------------------------------------------------

def report(ctx, problems, harness, model, do_shrink=True):
    agree = True
    oracle_ok = True
    shrunk = 0
    seen_cls = {}
    for p in problems:
        if p["kind"] == "machinery":
            ctx.oblige("check machinery: " + p["key"], "machinery", False, p.get("detail", ""))
        elif p["kind"] == "model":
            agree = False
            ctx.extra.setdefault("model_disagreements", [])
            if len(ctx.extra["model_disagreements"]) < 5:
                c = p["case"]
                if do_shrink and shrunk < 3:
                    shrunk += 1
                    sc, sp = shrink(ctx, harness, model, c, p["j"], p["k"], "model", "model != implementation")
                    ctx.extra["model_disagreements"].append({"case": sc.to_json(), "detail": (sp or p)["detail"], "key": (sp or p)["key"]})
                else:
                    ctx.extra["model_disagreements"].append({"key": p["key"], "detail": p["detail"]})
        elif p["kind"] == "oracle":
            oracle_ok = False
            ctx.extra.setdefault("oracle_disagreements", [])
            if len(ctx.extra["oracle_disagreements"]) < 5:
                ctx.extra["oracle_disagreements"].append({"key": p["key"], "detail": p["detail"]})
        elif p["kind"] == "fail":
            c = p.get("case")
            cls = p["key"].split(":")[0]
            inp = c.to_json() if c else None
            known = any(__import__("re").search(f.get("match", "$^"), p["key"]) for f in ctx.findings)
            if not known and c is not None and "j" in p and do_shrink and seen_cls.get(cls, 0) < 2:
                seen_cls[cls] = seen_cls.get(cls, 0) + 1
                sc, sp = shrink(ctx, harness, model, c, p["j"], p["k"], "fail", cls)
                if sp:
                    p = dict(sp)
                    inp = sc.to_json()
            ctx.fail(p["key"], p["detail"], inp)
    return agree, oracle_ok


def run(ctx):
    ctx.rule = ("counting: a case is one (document, xsl:number instruction, history position) triple whose printed string was "
                "compared with the Lean model, decoded and compared with the Lean section 7.7 specification and with the count() "
                "expression printed in the same run; non-trivial = the specified list has more than one number or a number > 1; "
                "distinct = distinct (instruction, document, node).  formatting: a case is one value/format/grouping triple; "
                "non-trivial = value > 26")
    ctx.trusted += [
        "translate/c17_tables.py (tables, roman limit, buffer length read from ElemNumber.cpp)",
        "harness/c17_number.cpp + gen/c17_gen.py + checks/c17.py (documents, patterns in three renderings, histories, comparison)",
        "modelled, not verified: XPath pattern matching (abstract predicate; evaluated by the generator and, independently, by the "
        "count() expression in the same run), isXMLLetterOrDigit (parameter; ASCII instance), NumberToDOMString for integers "
        "(decimal digits), Greek/traditional numbering and letter-value/lang (not modelled), attribute nodes (outside the navigation model)",
    ]
    ctx.build("hooks")
    ctx.translate("c17_tables")
    ctx.translate("c17_navshape")
    ctx.lean("XalanModel.Props.C17", THEOREMS, extra_targets=["xm_c17"])
    model = ctx.exe("xm_c17")
    harness = common.build_harness("c17_number", ["c17_number.cpp"], flavor="hooks")
    os.makedirs(WORK, exist_ok=True)
    if model is None:
        return
    r = Rng(ctx.seed)

    # 1. corpus
    problems = evaluate(ctx, corpus(), harness, model, "corpus")
    a1, o1 = report(ctx, problems, harness, model, do_shrink=False)

    # 2. generated counting stream
    if ctx.thorough:
        ndocs, maxnodes, ninstr, kinds = 4000, 45, 6, ["doc", "rev", "shuffle", "sort", "repeat", "sub"]
    else:
        ndocs, maxnodes, ninstr, kinds = 500, 30, 6, ["doc", "rev", "shuffle", "sort", "repeat"]
    cases = gen_cases(r, ndocs, maxnodes, ninstr, kinds)
    problems = evaluate(ctx, cases, harness, model, "main")
    a2, o2 = report(ctx, problems, harness, model)
    ctx.oblige("correspondence: xsl:number strings (real library) = Lean model on every generated document x instruction x history",
               "correspondence", a1 and a2, json.dumps(ctx.extra.get("model_disagreements", [])[:2], ensure_ascii=False, default=str))
    ctx.oblige("oracle: count() expression printed in the same run = Lean section 7.7 specification", "correspondence", o1 and o2,
               json.dumps(ctx.extra.get("oracle_disagreements", [])[:2], ensure_ascii=False))

    # 3. small-scope exhaustive (thorough): all trees with <= 5 element nodes over 2 names, fixed instruction set, all orders of <= 4 nodes
    if ctx.thorough:
        ex = exhaustive_cases()
        problems = evaluate(ctx, ex, harness, model, "exh")
        a3, o3 = report(ctx, problems, harness, model)
        ctx.oblige("correspondence (exhaustive small scope): all trees of <= 4 elements (names x/h) under one root element x 12 instructions x all visiting orders of the elements; 5 elements: every 11th order",
                   "correspondence", a3 and o3, json.dumps(ctx.extra.get("model_disagreements", [])[:2], ensure_ascii=False, default=str))

    # 4. attribute nodes (outside the navigation model): default count pattern `@name`, single level
    attr_xsl = ('<xsl:stylesheet version="1.0" xmlns:xsl="http://www.w3.org/1999/XSL/Transform"><xsl:output method="text"/>'
                '<xsl:template match="/"><xsl:for-each select="//@k"><xsl:number/>;</xsl:for-each></xsl:template></xsl:stylesheet>')
    res = run_impl(harness, [('<r k="1"><x k="1" j="2"/></r>', [attr_xsl])], 1)[0][0]
    ctx.case(cls="attribute,default-count")
    if res[0] == "out" and res[1] == "1;1;":
        pass
    elif res[0] == "err" and "&k" in res[1]:
        ctx.fail("number.error[default-count,attribute]: <xsl:number/> at //@k of <r k=\"1\"><x k=\"1\" j=\"2\"/></r>",
                 "xsl:number without count on an attribute raises: " + res[1][:200], {"doc": '<r k="1"><x k="1" j="2"/></r>', "stylesheet": attr_xsl})
    else:
        ctx.fail("number.attribute[unexplained]: %r" % (res,), "expected 1;1; from <xsl:number/> on the two k attributes", {"stylesheet": attr_xsl})

    # 5. formatting
    format_stream(ctx, r, harness, model, 30000 if not ctx.thorough else 200000)
    ctx.exhaustive = False


def exhaustive_cases():
    import itertools
    shapes = []

    def trees(n):
        """all ordered forests with n nodes"""
        if n == 0:
            return [[]]
        res = []
        for k in range(1, n + 1):
            for first in trees(k - 1):
                for rest in trees(n - k):
                    res.append([first] + rest)
        return res
    cases = []
    instrs = [I("any", G.pat_name("x")), I("any", G.pat_name("x"), G.pat_name("h")), I("any", G.PAT_STAR, G.pat_name("h")),
              I("any"), I("single"), I("single", G.pat_name("x")), I("single", G.PAT_STAR, G.pat_name("h")),
              I("multiple", G.PAT_STAR), I("multiple", G.pat_name("x"), G.pat_name("h")), I("multiple"),
              I("any", G.pat_union("x", "h")), I("multiple", G.pat_union("x", "h"), G.pat_name("h"))]
    for n in range(1, 6):
        for forest in trees(n):
            flat = []

            def count(f):
                return sum(1 + count(k) for k in f)
            for names in itertools.product("xh", repeat=n):
                it = iter(names)

                def build(f):
                    return [[next(it)] + build(k) for k in f]
                spec = [["r"] + build(forest)]
                root = G.tree_from_spec(spec)
                nn = len(G.preorder(root))
                ids = list(range(nn))
                hs = [list(p) for m in (nn,) for p in itertools.permutations(ids, min(m, 4))][:24]
                # all orders of the element nodes (<= 4! = 24), then reverse of everything
                els = ids[2:]
                perms = [list(p) for p in itertools.permutations(els)]
                if n == 5:      # 120 orders: keep every 11th
                    perms = perms[::11]
                hs = perms + [ids[::-1], ids]
                cases.append(Case(root, [(ins, hs) for ins in instrs], "exhaustive"))
    return cases


def replay(ctx, path):
    d = json.load(open(path))
    ctx.build("hooks")
    common.lake_build(["xm_c17"])
    model = ctx.exe("xm_c17")
    harness = common.build_harness("c17_number", ["c17_number.cpp"], flavor="hooks")
    first = d.get("first") or {}
    inp = first.get("input")
    print("key:", first.get("key"))
    print("what:", first.get("what"))
    if not inp:
        print("no concrete input recorded (obligations):", json.dumps(d.get("broken_obligations"), indent=1)[:3000])
        return 1
    if "tree" in inp:
        root = G.tree_from_spec(inp["tree"])
        io = []
        for it in inp["instructions"]:
            ii = it["instr"]
            pats = {}
            ins = rebuild_instr(ii)
            io.append((ins, it["histories"]))
        c = Case(root, io, "replay")
        ps = evaluate(ctx, [c], harness, model, "replay", record=False)
        for p in ps:
            print("%s: %s -- %s" % (p["kind"], p["key"], p.get("detail", "")))
        return 1 if ps else 0
    if "value" in inp:
        g = tuple(inp["grouping"]) if inp.get("grouping") else None
        groups = [("<r/>", [G.value_stylesheet([(inp["value"], inp.get("format"), g)])])]
        print("impl:", run_impl(harness, groups, 1)[0][0])
        print("model:", run_model(model, ["val %s %s %s %d" % (G.units(inp.get("format")), G.units(g[0]) if g else "-", str(g[1]) if g else "-", inp["value"])], "replay")[0])
        return 1
    return 1


def rebuild_instr(ii):
    """re-create the pattern triples from their text (the generator family is closed under this)"""
    def pat(txt):
        if txt is None:
            return None
        import re
        fixed = {"*": G.PAT_STAR, "node()": G.PAT_NODE, "text()": G.PAT_TEXT, "comment()": G.PAT_COMMENT,
                 "processing-instruction()": G.PAT_PI, "/": G.PAT_ROOT, "*[@k]": G.pat_star_attr()}
        if txt in fixed:
            return fixed[txt]
        W = r"((?:p:)?\w+)"
        m = re.fullmatch(r"(\w+)\|/", txt)
        if m:
            return G.pat_root_or(m.group(1))
        m = re.fullmatch(W + r"\|" + W, txt)
        if m:
            return G.pat_union(m.group(1), m.group(2))
        m = re.fullmatch(W + r"\[@k\]", txt)
        if m:
            return G.pat_attr(m.group(1))
        m = re.fullmatch(W + "//" + W, txt)
        if m:
            return G.pat_desc(m.group(1), m.group(2))
        m = re.fullmatch(W + "/" + W, txt)
        if m:
            return G.pat_child(m.group(1), m.group(2))
        m = re.fullmatch(r"\*\[not\(self::" + W + r"\)\]", txt)
        if m:
            return G.pat_not(m.group(1))
        m = re.fullmatch(W + r"\[" + W + r"\]", txt)
        if m:
            return G.pat_haschild(m.group(1), m.group(2))
        m = re.fullmatch(W, txt)
        if m:
            return G.pat_name(txt)
        raise ValueError("unknown pattern " + txt)
    return G.Instr(ii["level"], pat(ii.get("count")), pat(ii.get("from")), ii.get("format"),
                   tuple(ii["grouping"]) if ii.get("grouping") else None)
