"""C17 — xsl:number counts per XSLT 1.0 section 7.7, independent of evaluation history; formatting decodes back.

proof:          lean/XalanModel/Props/C17.lean (cache = chain length for every history and every isNodeAfter
                oracle; alphabetic / roman / decimal / list formatting round-trips; number list = section 7.7 on
                the part of the parameter space where the code follows it, counterexamples elsewhere)
translator:     translate/c17_tables.py (roman / alphabetic tables, roman limit, alpha buffer length)
correspondence: harness/c17_number.cpp (XalanTransformer in-process + direct calls of int2alphaCount/toRoman)
                vs lean/Driver/C17.lean on generated documents x instructions x visiting histories.
"""
import json
import os
import subprocess
import sys
import threading

from vlib import common
from vlib.common import Rng

sys.path.insert(0, os.path.join(common.ROOT, "gen"))
import c17_gen as G  # noqa: E402

CLAIMED = True
LEVEL = "proof"
TECHNIQUE = ("Lean 4: invariant proof over countNode histories (any isNodeAfter oracle), refinement of the transcribed navigation "
             "to the XSLT 1.0 section 7.7 specification, round-trip proofs for the formatters over tables regenerated from the "
             "source; two translators (tables, code-shape facts and flags); lock-step correspondence of generated stylesheets "
             "numbering every node (attributes included) in several histories, next to the defining count() expression")
LEVEL_TEXT = ("Machine-checked (27 theorems, axioms propext/Classical.choice/Quot.sound): (a) for every history of "
              "CountersTable::countNode calls and every isNodeAfter oracle the cached answer equals the from-scratch "
              "getPreviousNode chain length; (b) for every well-formed document, every instruction (level single/multiple/any, "
              "explicit or default count, with or without from), every history, the transcribed navigation + cache prints the "
              "section 7.7 list - proved for both forms of the `theNumber != 0` guard, i.e. up to the zero list of level=any "
              "while that guard is in the source; (c) int2alphaCount (all n>=1 inside the 100-slot buffer), toRoman (1..3999 "
              "complete), decimal with padding and with grouping (buffer accounting of applyGrouping), and formatNumberList for "
              "every format string and every list whose numbers fit their token types, with and without grouping, decode back. "
              "Tied to the working tree by translators (roman/alphabetic/Greek tables, limits, code-shape facts, four behaviour "
              "flags the model is parametrised by, the admission condition, capacity and eviction shape of the run-time pattern cache) and by running generated stylesheets through the real library and the compiled "
              "Lean model: every node of generated documents (elements in three namespace situations, text, comments, PIs, "
              "attributes) numbered in document, reverse, shuffled, sorted and repeating orders, each result also compared with "
              "the Lean specification, with the count() expression printed in the same run and with the section 7.7.1 layout; value= "
              "integers, non-integral / negative / special / >64-bit values, grouping attribute edge cases, Greek alphabetic.")
LEVEL_NOTE = ("Trusted: Lean kernel; the three standard axioms; translate/c17_tables.py, translate/c17_navshape.py and translate/c17_patterncache.py; the hand "
              "transcription of ElemNumber.cpp / CountersTable.cpp / XalanNumberFormat.cpp (validated by the correspondence runs, "
              "bounded by generator coverage). Well-formedness of documents is a theorem (forest_doc_wf: the driver flattens an inductive forest); the driver only checks that a request is a document-order parent list. "
              "Abstract: XPath pattern matching (a predicate, evaluated by the generator for a closed pattern family and independently "
              "by the count() expression of the same run), isXMLLetterOrDigit (a predicate; ASCII + a few letters in the driver), "
              "isNodeAfter (arbitrary). Modelled with correspondence but without theorems: attribute nodes as context/counted nodes, "
              "value= rounding and range, Greek alphabetic numbering. Not modelled: "
              "NumberToDOMString(double) for values that bypass formatting, namespace nodes (two direct tests). Known findings: default "
              "count on a namespace node (patch proposed), traditional Greek numbering of 10000 and more (digits dropped).")
DESIGN_REF = "DESIGN.md section 5, C17; design/C17.md"

THEOREMS = [
    "XalanModel.Props.C17.counters_invariant",
    "XalanModel.Props.C17.counters_history_independent",
    "XalanModel.Props.C17.counters_history_answers",
    "XalanModel.Props.C17.getPreviousNode_decreases",
    "XalanModel.Props.C17.forest_doc_wf",
    "XalanModel.Props.C17.number_spec_forest",
    "XalanModel.Props.C17.getPreviousNode_decreases_forest",
    "XalanModel.Props.C17.number_spec_general",
    "XalanModel.Props.C17.number_spec_partial",
    "XalanModel.Props.C17.number_spec_full",
    "XalanModel.Props.C17.number_spec_single_multiple",
    "XalanModel.Props.C17.number_spec_any_zero_counterexample",
    "XalanModel.Props.C17.pattern_cache_never_serves_prefixed",
    "XalanModel.Props.C17.default_count_pattern_not_cached",
    "XalanModel.Props.C17.pattern_cache_transparent",
    "XalanModel.Props.C17.pattern_cache_overwrite_counterexample",
    "XalanModel.Props.C17.alpha_roundtrip",
    "XalanModel.Props.C17.alpha_no_overflow",
    "XalanModel.Props.C17.traditional_roundtrip_partial",
    "XalanModel.Props.C17.traditional_collision_counterexample",
    "XalanModel.Props.C17.roman_roundtrip",
    "XalanModel.Props.C17.roman_out_of_range",
    "XalanModel.Props.C17.decimal_roundtrip",
    "XalanModel.Props.C17.decimal_grouping_roundtrip",
    "XalanModel.Props.C17.formatList_roundtrip",
    "XalanModel.Props.C17.formatList_roundtrip_3999",
    "XalanModel.Props.C17.formatList_grouping_roundtrip",
]

WORK = os.path.join(common.CACHE, "work")


def hexs(s):
    return s.encode("utf-8").hex() if s else "-"


def unhexs(h):
    return "" if h == "-" else bytes.fromhex(h).decode("utf-8", "replace")


# ------------------------------------------------------------------------------------------------
# running the implementation

def _run_slice(harness, groups, out, slot):
    """groups: list of (xml, [xsl…]).  out[slot] = list (per group) of list (per xsl) of (kind, text)
    kind: out | err | crash"""
    res = [[None] * len(xs) for _, xs in groups]
    pending = [(gi, xi) for gi, (_, xs) in enumerate(groups) for xi in range(len(xs))]
    guard = 0
    while pending and guard < 10000:
        guard += 1
        lines = []
        owner = []
        cur = None
        for gi, xi in pending:
            if gi != cur:
                lines.append("xml " + hexs(groups[gi][0]))
                owner.append(None)
                cur = gi
            lines.append("xsl " + hexs(groups[gi][1][xi]))
            owner.append((gi, xi))
        p = subprocess.run([harness], input=("\n".join(lines) + "\n").encode(), stdout=subprocess.PIPE,
                           stderr=subprocess.DEVNULL)
        replies = p.stdout.decode("utf-8", "replace").split("\n")
        if replies and replies[-1] == "":
            replies.pop()
        done = set()
        for i, rep in enumerate(replies[:len(lines)]):
            if owner[i] is None:
                continue
            kind, _, arg = rep.partition(" ")
            if kind in ("out", "err"):
                res[owner[i][0]][owner[i][1]] = (kind, unhexs(arg))
            else:
                res[owner[i][0]][owner[i][1]] = ("err", "harness: " + rep)
            done.add(owner[i])
        if len(replies) < len(lines):
            # the request with index len(replies) killed the process
            k = len(replies)
            while k < len(lines) and owner[k] is None:
                k += 1
            if k < len(lines):
                res[owner[k][0]][owner[k][1]] = ("crash", "rc=%d" % p.returncode)
                done.add(owner[k])
            elif not done:
                break
        pending = [x for x in pending if x not in done]
    out[slot] = res


def run_impl(harness, groups, nproc=8):
    nproc = max(1, min(nproc, len(groups)))
    slices = [groups[i::nproc] for i in range(nproc)]
    out = [None] * nproc
    ths = [threading.Thread(target=_run_slice, args=(harness, slices[i], out, i)) for i in range(nproc)]
    for t in ths:
        t.start()
    for t in ths:
        t.join()
    res = [None] * len(groups)
    for i in range(nproc):
        for j, r in enumerate(out[i] or []):
            res[i + j * nproc] = r
    return res


def run_model(model, lines, tag):
    os.makedirs(WORK, exist_ok=True)
    req = os.path.join(WORK, "c17_%s_%d.req" % (tag, os.getpid()))
    with open(req, "w") as f:
        f.write("\n".join(lines) + "\n")
    with open(req, "rb") as f:
        p = subprocess.run([model], stdin=f, stdout=subprocess.PIPE, stderr=subprocess.PIPE)
    os.unlink(req)
    out = p.stdout.decode("utf-8", "replace").split("\n")
    if out and out[-1] == "":
        out.pop()
    return out, p.returncode, p.stderr.decode("utf-8", "replace")[-500:]


def run_direct(harness, lines):
    p = subprocess.run([harness], input=("\n".join(lines) + "\n").encode(), stdout=subprocess.PIPE, stderr=subprocess.DEVNULL)
    out = p.stdout.decode().split("\n")
    if out and out[-1] == "":
        out.pop()
    return out, p.returncode


# ------------------------------------------------------------------------------------------------
# cases

class Case:
    def __init__(self, root, io, origin="gen"):
        self.root = root
        self.io = io            # list of (Instr, [history…])
        self.origin = origin

    def to_json(self):
        return {"doc": G.to_xml(self.root), "tree": G.tree_spec(self.root),
                "instructions": [{"instr": ins.to_json(), "histories": [G.visits_of(h) for h in hs],
                                  "sorted": [list(h[1]) if isinstance(h, tuple) else None for h in hs]} for ins, hs in self.io]}


def parse_list(s):
    if s in ("-", ""):
        return []
    try:
        return [int(x) for x in s.split(".")]
    except ValueError:
        return None


def gen_cases(r, ndocs, maxnodes, ninstr, kinds):
    cases = []
    for _ in range(ndocs):
        root = G.gen_tree(r, r.range(4, maxnodes))
        n = len(G.preorder(root))
        io = []
        for _ in range(ninstr):
            ins = G.gen_instr(r)
            hs = []
            for k in kinds:
                if k == "sort":
                    abp, order = G.sort_perm(r, n)
                    hs.append(("sort", abp, order))
                else:
                    hs.append(G.gen_history(r, n, k))
            io.append((ins, hs))
        cases.append(Case(root, io))
    return cases


def many_names_cases(r, ndocs, lo=60, hi=120):
    """documents with more distinct element names than the run-time pattern cache holds (capacity read by the translator,
    50), every name several times, numbered with the default count at all three levels in several rounds and orders within
    one transformation: every default pattern is compiled through the cache, evicted and needed again"""
    cases = []
    for _ in range(ndocs):
        nn = r.range(lo, hi)
        names = ["e%d" % i for i in range(nn)]
        # every name 2-3 times, shuffled, in a random nesting (depth <= 4)
        seq = r.shuffle([n for n in names for _ in range(r.range(2, 3))])
        spec_top = ["r"]
        stack = [spec_top]
        for nm in seq:
            while len(stack) > 1 and r.chance(1, 3):
                stack.pop()
            el = [nm]
            stack[-1].append(el)
            if len(stack) < 4 and r.chance(1, 3):
                stack.append(el)
        root = G.tree_from_spec([spec_top])
        n = len(G.preorder(root))
        ids = list(range(1, n))
        rounds = [ids + ids,                       # two rounds in document order: every name is evicted and needed again
                  ids[::-1] + ids,                 # reverse, then forward
                  r.shuffle(ids) + r.shuffle(ids)[: n // 2]]
        io = [(I(lv), [rounds[i]]) for i, lv in enumerate(("any", "single", "multiple"))]
        io.append((I(r.choice(["any", "multiple"])), [r.shuffle(ids + ids)]))
        cases.append(Case(root, io, "many-names"))
    return cases


def I(level, count=None, frm=None, fmt=None, grouping=None):
    return G.Instr(level, count, frm, fmt, grouping)


def corpus():
    """minimised past failures and the DESIGN section 6 candidates; runs first"""
    cs = []
    # section 6 item 8: level=any, from on a preceding leaf; level=single ignores from
    t = G.tree_from_spec([["r", ["h"], ["x"], ["x"], ["h"], ["x", {"k": "1"}, "t", ["y"], ["x"]], "!c"]])
    n = len(G.preorder(t))
    cs.append(Case(t, [(I("any", G.pat_name("x"), G.pat_name("h")), [list(range(n)), list(range(n))[::-1]]),
                       (I("single", G.pat_name("x"), G.pat_name("r")), [list(range(n))]),
                       (I("multiple", G.PAT_STAR, None, "1.a.I"), [list(range(n)), list(range(n))[::-1]]),
                       (I("any", G.pat_union("x", "h"), G.pat_name("h")), [list(range(n))]),
                       (I("any", G.pat_name("y")), [list(range(n))]),
                       (I("multiple", G.pat_union("x", "r"), G.pat_name("x")), [list(range(n))])], "corpus:s6-8"))
    # section 6 item 9: count="/" with from at the root
    t2 = G.tree_from_spec([["r", ["h"], ["x"]]])
    cs.append(Case(t2, [(I("any", G.PAT_ROOT, G.pat_name("h")), [[0]])], "corpus:s6-9"))
    cs.append(Case(t2, [(I("any", G.PAT_ROOT, G.pat_name("h")), [[2, 1]])], "corpus:s6-9b"))
    cs.append(Case(t2, [(I("any", None, G.pat_name("h")), [[0]])], "corpus:s6-9c"))     # default count at the root
    cs.append(Case(t2, [(I("any", G.PAT_ROOT), [[0, 1, 2, 3]]), (I("any", G.pat_root_or("x")), [[3, 0, 1, 2, 3]])], "corpus:root"))
    # the same prefix (one letter, and longer) bound to different namespaces in different subtrees, the default namespace
    # re-bound: the default count pattern is compiled per node (run-time pattern cache keyed on the pattern string)
    t4 = G.tree_from_spec([["r", ["{p}x"], ["{p#2}x"], ["{p}x"], ["{pre}x"], ["{pre#2}x", ["{p#2}x"], ["{pre#2}x"]], ["{d}x", ["{d#2}x"], ["{d}x"]],
                           ["{p#2}x"], ["x"]]])
    n4 = len(G.preorder(t4))
    for lv in ("any", "single", "multiple"):
        cs.append(Case(t4, [(I(lv), [list(range(n4)), list(range(n4))[::-1]]),
                            (I(lv, G.pat_name("p:x")), [list(range(n4))]),
                            (I(lv, G.PAT_STAR, G.pat_name("pre:x")), [list(range(n4))])], "corpus:rebound-prefix-" + lv))
    # default count pattern on a processing instruction
    t3 = G.tree_from_spec([["r", "?p", ["x"], "?p", "?q"]])
    cs.append(Case(t3, [(I("single"), [[2]]), (I("any"), [[4, 2]])], "corpus:pi-default"))
    return cs


# ------------------------------------------------------------------------------------------------
# evaluation of one case

def classify(case, ins, node, impl_list, spec_list):
    """structural cause of impl != spec for the known deviation of the code (design/C17.md)"""
    if ins.level == "any" and spec_list == [0] and impl_list == []:
        return "any,zero-count-prints-nothing"
    return None


def evaluate(ctx, cases, harness, model, tag, record=True):
    """returns list of problems: dict(kind, key, detail, case, j, k, node)"""
    groups = [(G.to_xml(c.root), [G.stylesheet(c.io)]) for c in cases]
    impl = run_impl(harness, groups, nproc=min(8, common.NPROC))
    lines = []
    owner = []
    for ci, c in enumerate(cases):
        ll = G.lean_lines(c.root, c.io)
        lines += ll
        owner += [(ci, i) for i in range(len(ll))]
    mout, mrc, merr = run_model(model, lines, tag)
    problems = []
    if len(mout) != len(lines):
        problems.append({"kind": "machinery", "key": "model driver stopped", "detail": "%d/%d replies rc=%d %s" % (len(mout), len(lines), mrc, merr)})
        return problems
    per_case = {}
    for (ci, i), rep in zip(owner, mout):
        per_case.setdefault(ci, []).append(rep)
    decode_req = {}
    pending = []
    for ci, c in enumerate(cases):
        reps = per_case[ci]
        nn = len(G.preorder(c.root))
        if not reps[0].startswith("ok n=%d wf=1" % nn):
            problems.append({"kind": "machinery", "key": "document not well-formed for the model", "detail": reps[0] + " " + G.to_xml(c.root), "case": c})
            continue
        kind, text = impl[ci][0]
        numreps = reps[2:]
        # model entries per (j,k)
        ment = {}
        idx = 0
        for j, (ins, hs) in enumerate(c.io):
            for k, h in enumerate(hs):
                ent = [e.split("|") for e in numreps[idx].split(" ")] if numreps[idx] else []
                ment[(j, k)] = ent
                idx += 1
        model_hist = any(len(e) == 4 and "h" in e[3] for ent in ment.values() for e in ent)
        if model_hist:
            problems.append({"kind": "machinery", "key": "model itself is history dependent (contradicts the theorem)", "detail": G.to_xml(c.root), "case": c})
        if kind == "crash":
            ins0 = c.io[0][0]
            key = "number.crash: %s doc=%s" % (ins0.describe(), G.to_xml(c.root))
            problems.append({"kind": "fail", "key": key, "detail": "the library crashed (%s) while numbering" % text, "case": c})
            continue
        if kind == "err":
            ins0 = c.io[0][0]
            if "processing-instruction(" in text and any(i.count is None for i, _ in c.io):
                key = "number.error[default-count,processing-instruction]: doc=%s" % G.to_xml(c.root)
                problems.append({"kind": "fail", "key": key, "detail": "xsl:number without count on a processing instruction raises: " + text[:200], "case": c})
            else:
                problems.append({"kind": "fail", "key": "number.error[unexplained]: %s doc=%s" % (ins0.describe(), G.to_xml(c.root)),
                                 "detail": "transformation failed: " + text[:300], "case": c})
            continue
        # parse the implementation's lines
        got = {}
        for ln in text.split("\n"):
            if not ln.startswith("#"):
                continue
            head, _, rest = ln[1:].partition(":")
            parts = rest.split("=")
            if len(parts) != 3:
                problems.append({"kind": "machinery", "key": "unparsable output line", "detail": ln, "case": c})
                continue
            jj, kk = head.split(".")
            got.setdefault((int(jj), int(kk)), []).append((int(parts[0]), parts[1], parts[2]))
        for j, (ins, hs) in enumerate(c.io):
            for k, h in enumerate(hs):
                vis = G.visits_of(h)
                g = got.get((j, k), [])
                if [x[0] for x in g] != vis:
                    problems.append({"kind": "machinery", "key": "visiting order differs from the generated history",
                                     "detail": "%s want=%s got=%s" % (ins.describe(), vis, [x[0] for x in g]), "case": c})
                    continue
                for pos, ((node, istr, dstr), e) in enumerate(zip(g, ment[(j, k)])):
                    fu, gs, gz = G.units(ins.fmt), (G.units(ins.grouping[0]) if ins.grouping else "-"), (str(ins.grouping[1]) if ins.grouping else "-")
                    dk = (fu, gs, gz, G.units(istr))
                    decode_req.setdefault(dk, None)
                    pending.append((ci, j, k, pos, node, istr, dstr, e, dk))
    # second pass: decode every implementation string with the Lean decoder
    dkeys = list(decode_req)
    dl, drc, derr = run_model(model, ["dec %s %s %s %s" % k for k in dkeys], tag + "d")
    if len(dl) != len(dkeys):
        problems.append({"kind": "machinery", "key": "model driver stopped (decode)", "detail": derr})
        return problems
    for k, v in zip(dkeys, dl):
        decode_req[k] = v
    seen_nodes = {}
    for (ci, j, k, pos, node, istr, dstr, e, dk) in pending:
        c = cases[ci]
        ins, hs = c.io[j]
        mstr = None if e[0] == "!err" else G.from_units(e[0])
        mlist = parse_list(e[1])
        slist = parse_list(e[2])
        where = {"case": c, "j": j, "k": k, "node": node, "pos": pos}
        desc = "%s doc=%s node=%d history=%s" % (ins.describe(), G.to_xml(c.root), node, G.visits_of(hs[k])[:pos + 1])
        # (1) history independence on the implementation itself
        prev = seen_nodes.setdefault((ci, j, node), (istr, k, pos))
        if prev[0] != istr:
            problems.append(dict(where, kind="fail", key="number.history-dependent: " + desc,
                                 detail="the same instruction printed %r for this node in history %d and %r in history %d" % (prev[0], prev[1], istr, k)))
        # (2) correspondence
        if mstr != istr:
            problems.append(dict(where, kind="model", key="model != implementation: " + desc,
                                 detail="impl=%r model=%r (model list %s)" % (istr, mstr, e[1])))
        # (3) the property: the implementation's string decodes to the section 7.7 list
        dec = decode_req[dk]
        ilist = parse_list(dec) if dec != "none" else None
        unambiguous = decodable(ins)
        # a zero (level="any" without the `theNumber != 0` guard) has no alphabetic / roman representation:
        # the round trip is stated for numbers >= 1 (NumFits); such strings are only compared with the model
        if slist and 0 in slist and ins.fmt and any(ch in "aAiI" for ch in ins.fmt):
            unambiguous = False
        if istr == "":
            ilist = []
        if slist is None:
            problems.append(dict(where, kind="machinery", key="bad spec list", detail=str(e)))
        elif unambiguous and ilist != slist:
            cause = classify(c, ins, node, ilist, slist)
            cls = cause if (cause and mstr == istr) else "unclassified"
            problems.append(dict(where, kind="fail", key="number.spec[%s]: %s" % (cls, desc),
                                 detail="xsl:number printed %r (decodes to %s); XSLT 1.0 section 7.7 defines %s; in-run count() expression printed %r" % (istr, ilist, slist, dstr)))
        # (3b) XSLT 7.7.1 on the implementation's string: prefix, the i-th separator token between the i-th and (i+1)-th
        # number (the last one repeating, "." when the format has none), suffix
        if ins.fmt and not ins.grouping and istr != "" and ilist:
            exp = expected_layout(ins.fmt, istr)
            if exp is not None and exp != istr:
                only_punct = not any(ch.isalnum() for ch in ins.fmt)
                cls = "format-is-one-punctuation-token" if (only_punct and mstr == istr) else "unclassified"
                problems.append(dict(where, kind="fail", key="number.format.layout[%s]: %s" % (cls, desc),
                                     detail="printed %r; with the format tokens of %r the numbers must be laid out as %r" % (istr, ins.fmt, exp)))
        # (4) the in-run defining expression agrees with the Lean specification
        if dstr != "?":
            dlist = parse_list(dstr)
            if dlist != slist:
                problems.append(dict(where, kind="oracle", key="defining count() expression != Lean specification: " + desc,
                                     detail="def=%r spec=%s" % (dstr, slist)))
        if record:
            nontriv = (len(slist or []) > 0 and (slist or [0])[0] > 1) or len(slist or []) > 1
            ctx.case(nontrivial_key=("%s|%s|%d" % (ins.describe(), G.to_xml(c.root), node)) if nontriv else None,
                     sample={"doc": G.to_xml(c.root), "instr": ins.to_json(), "node": node, "printed": istr, "spec": slist} if (ci, j, k, pos) == (len(cases) - 1, 0, 0, 0) or (ci == 3 and pos == 2 and k == 0) else None,
                     cls="level=%s%s%s" % (ins.level, ",from" if ins.frm else "", ",default-count" if not ins.count else ""))
    return problems


def decodable(ins):
    """is the formatted list unambiguously decodable (grouping separator distinct from every separator token)?"""
    if ins.fmt is None:
        return True
    if ins.grouping and ins.grouping[1] != 0:
        sep = ins.grouping[0]
        if sep in ins.fmt or sep == ".":
            return False
    return True


# ------------------------------------------------------------------------------------------------
# shrinking

def clone_case(c, j, k):
    ins, hs = c.io[j]
    return Case(G.tree_from_spec(G.tree_spec(c.root)), [(ins, [G.visits_of(hs[k])])], c.origin)


def shrink(ctx, harness, model, c, j, k, kind, keyprefix):
    """greedy: shorten the history, then delete subtrees, keeping a problem of the same kind/key class"""
    cur = clone_case(c, j, k)

    def still(cc):
        ps = evaluate(ctx, [cc], harness, model, "shrink", record=False)
        return [p for p in ps if p["kind"] == kind and p["key"].startswith(keyprefix)]
    if not still(cur):
        return cur, None
    budget = 60
    changed = True
    while changed and budget > 0:
        changed = False
        ins, hs = cur.io[0]
        h = list(hs[0])
        for i in range(len(h) - 1, -1, -1):
            if len(h) <= 1 or budget <= 0:
                break
            cand = Case(cur.root, [(ins, [h[:i] + h[i + 1:]])], cur.origin)
            budget -= 1
            if still(cand):
                cur = cand
                h = h[:i] + h[i + 1:]
                changed = True
        nodes = G.preorder(cur.root)
        for nd in reversed(nodes[2:]):
            if budget <= 0:
                break
            sub = {x.idx for x in G.preorder(nd)}
            if any(v in sub for v in h):
                continue
            # delete nd
            spec_nodes = [x for x in nodes if x.idx not in sub]
            remap = {x.idx: i for i, x in enumerate(spec_nodes)}
            par = nd.parent
            saved = list(par.kids)
            par.kids = [x for x in par.kids if x is not nd]
            newroot = G.tree_from_spec(G.tree_spec(cur.root))
            par.kids = saved
            adj = any(a.kind == "text" and b.kind == "text" for p_ in G.preorder(newroot) for a, b in zip(p_.kids, p_.kids[1:]))
            if adj:
                continue
            cand = Case(newroot, [(ins, [[remap[v] for v in h]])], cur.origin)
            budget -= 1
            if still(cand):
                cur = cand
                h = [remap[v] for v in h]
                changed = True
                break
    ps = still(cur)
    return cur, (ps[0] if ps else None)


# ------------------------------------------------------------------------------------------------
# formatting stream

def format_stream(ctx, r, harness, model, nvals):
    items = []
    for _ in range(nvals):
        fmt = G.gen_format(r, maxtok=1) if not r.chance(1, 6) else None
        g = G.gen_grouping(r)
        items.append((G.gen_value(r), fmt, g))
    # corpus of edge values first
    edge = [(v, f, None) for f in ("A", "a", "I", "i", "1", "001") for v in (1, 26, 27, 52, 676, 702, 703, 18278, 18279, 3999, 4000, 475254, 0)]
    items = edge + items
    chunks = [items[i:i + 400] for i in range(0, len(items), 400)]
    groups = [("<r/>", [G.value_stylesheet(ch) for ch in chunks])]
    # spread over processes: one group per chunk
    groups = [("<r/>", [G.value_stylesheet(ch)]) for ch in chunks]
    impl = run_impl(harness, groups, nproc=min(8, common.NPROC))
    lines = []
    for v, fmt, g in items:
        lines.append("val %s %s %s %d" % (G.units(fmt), G.units(g[0]) if g else "-", str(g[1]) if g else "-", v))
    mout, mrc, merr = run_model(model, lines, "fmt")
    ok_corr = True
    if len(mout) != len(lines):
        ctx.oblige("model driver answers the formatting stream", "machinery", False, merr)
        return
    flat = []
    for gi, ch in enumerate(chunks):
        kind, text = impl[gi][0]
        if kind != "out":
            ctx.fail("number.format.error: %s" % text[:200], "value= stylesheet failed: " + text[:300], {"items": [list(map(str, x)) for x in ch[:20]]})
            flat += [None] * len(ch)
            continue
        ls = text.split("\n")
        if ls and ls[-1] == "":
            ls.pop()
        if len(ls) != len(ch):
            ctx.oblige("formatting stream: one output line per xsl:number", "machinery", False, "%d vs %d" % (len(ls), len(ch)))
            flat += [None] * len(ch)
            continue
        flat += ls
    dreq = []
    for (v, fmt, g), istr in zip(items, flat):
        dreq.append("dec %s %s %s %s" % (G.units(fmt), G.units(g[0]) if g else "-", str(g[1]) if g else "-", G.units(istr or "")))
    dout, _, _ = run_model(model, dreq, "fmtd")
    bad = []
    for (v, fmt, g), istr, m, d in zip(items, flat, mout, dout):
        if istr is None:
            continue
        mstr = None if m == "!err" else G.from_units(m)
        ins = G.Instr("single", None, None, fmt, g)
        inrange = v >= 1 and not (last_alnum_type(fmt) in "iI" and v > 3999)
        nontriv = v > 26
        ctx.case(nontrivial_key=("v", v, fmt, g) if nontriv else None,
                 sample={"value": v, "format": fmt, "grouping": g, "printed": istr} if len(ctx.samples) < 8 and v > 1000 else None,
                 cls="format:" + last_alnum_type(fmt))
        if mstr != istr:
            ok_corr = False
            bad.append({"value": v, "format": fmt, "grouping": g, "impl": istr, "model": mstr})
        # XSLT 7.7.1: grouping-size digits per group, counted from the right (checked when the token does not pad)
        if g and g[1] > 0 and inrange and decodable(ins) and last_alnum_type(fmt) not in "aAiI" and first_token_width(fmt) == 1:
            import re
            core = re.search(r"[0-9%s]+" % re.escape(g[0]), istr)
            shape = re.compile(r"^\d{1,%d}(?:%s\d{%d})*$" % (g[1], re.escape(g[0]), g[1]))
            if core is None or not shape.match(core.group(0)):
                ctx.fail("number.format.grouping-shape: value=%d format=%r grouping=%r" % (v, fmt, g),
                         "printed %r: digits are not in groups of %d from the right" % (istr, g[1]), {"value": v, "format": fmt, "grouping": list(g)})
        if inrange and decodable(ins):
            dl = parse_list(d) if d != "none" else None
            if dl != [v]:
                ctx.fail("number.format.roundtrip: value=%d format=%r grouping=%r" % (v, fmt, g),
                         "printed %r which decodes to %s" % (istr, dl), {"value": v, "format": fmt, "grouping": g})
    ctx.oblige("correspondence: value= formatting (real code) = Lean model", "correspondence", ok_corr, json.dumps(bad[:3], ensure_ascii=False))
    # direct calls with 64-bit values
    vals = [1, 25, 26, 27, 2 ** 32, 2 ** 63, 2 ** 64 - 1, 26 ** 13, 26 ** 13 - 1, (26 ** 14 - 26) // 25] + [r.range(1, 2 ** 64 - 1) for _ in range(300)] + \
           [r.range(1, 2 ** r.range(1, 64)) for _ in range(300)]
    vals = [v for v in vals if v < 2 ** 64]
    rv = list(range(1, 4001)) if ctx.thorough else [r.range(1, 4000) for _ in range(300)] + [3999, 4000, 1, 4, 9]
    out, rc = run_direct(harness, ["alpha %d" % v for v in vals] + ["roman %d" % v for v in rv])
    ml, _, _ = run_model(model, ["fmt 0041 - - %d" % v for v in vals] + ["fmt 0049 - - %d" % v for v in rv], "direct")
    okd = len(out) == len(ml) == len(vals) + len(rv)
    badd = []
    if okd:
        dq = []
        for v, o in zip(vals + rv, out):
            dq.append("dec %s - - %s" % ("0041" if len(dq) < len(vals) else "0049", o[4:] if o.startswith("str ") else "-"))
        dd, _, _ = run_model(model, dq, "directd")
        for i, (v, o, m, d) in enumerate(zip(vals + rv, out, ml, dd)):
            ctx.case(nontrivial_key=("d", i < len(vals), v), cls="direct:" + ("alpha" if i < len(vals) else "roman"))
            if o != "str " + m:
                okd = False
                badd.append((v, o, m))
            if (i < len(vals) or v <= 3999) and parse_list(d) != [v]:
                ctx.fail("number.format.roundtrip[direct]: %s %d" % ("alpha" if i < len(vals) else "roman", v), "printed %s decodes to %s" % (o, d), {"value": v})
    ctx.oblige("correspondence: int2alphaCount / toRoman direct calls (real code) = Lean model", "correspondence", okd, str(badd[:3]) + " rc=%d" % rc)


def runs_of(s):
    out = []
    for ch in s:
        k = ch.isalnum()
        if out and out[-1][0] == k:
            out[-1][1] += ch
        else:
            out.append([k, ch])
    return out


def expected_layout(fmt, printed):
    """re-assemble the letter/digit runs of `printed` with the prefix / separators / suffix XSLT 7.7.1 takes from `fmt`"""
    toks = runs_of(fmt)
    if not toks:
        return None
    leader = toks[0][1] if not toks[0][0] else ""
    trailer = toks[-1][1] if not toks[-1][0] else ""      # also when it is the only token (7.7.1: starts with it AND ends with it)
    inner = toks[1 if leader else 0: len(toks) - (1 if trailer else 0)] if len(toks) > 1 else []
    seps = [t[1] for t in inner if not t[0]]
    nums = [t[1] for t in runs_of(printed) if t[0]]
    if not nums:
        return None
    out = leader
    for i, n in enumerate(nums):
        out += n
        if i < len(nums) - 1:
            out += seps[i] if i < len(seps) else (seps[-1] if seps else ".")
    return out + trailer


# ------------------------------------------------------------------------------------------------
# attribute nodes as context nodes / counted nodes (document with its attributes: Doc.withAttrs, `numa`)

def _is_attr(n, name=None):
    return n.kind == "attr" and (name is None or n.name == name)


ATTR_COUNTS = [
    None,
    ("@k", lambda n: _is_attr(n, "k")), ("@*", lambda n: _is_attr(n)), ("@k|x", lambda n: _is_attr(n, "k") or G.is_elem(n, "x")),
    ("*|@*", lambda n: G.is_elem(n) or _is_attr(n)), ("x", lambda n: G.is_elem(n, "x")), ("*", lambda n: G.is_elem(n)),
    ("@j|@k", lambda n: _is_attr(n, "j") or _is_attr(n, "k")), ("node()|@*", lambda n: n.kind not in ("root", "attr") or _is_attr(n)),
]
ATTR_FROMS = [None, None, ("s", lambda n: G.is_elem(n, "s")), ("h", lambda n: G.is_elem(n, "h")), ("x", lambda n: G.is_elem(n, "x")),
              ("*[@k]", lambda n: G.is_elem(n) and "k" in n.attrs), ("@j", lambda n: _is_attr(n, "j"))]


def attr_stream(ctx, r, harness, model, ndocs):
    cases = []
    for _ in range(ndocs):
        root = G.gen_tree(r, r.range(4, 16))
        nodes = G.preorder(root)
        for n in nodes:
            if n.kind == "elem" and r.chance(1, 3):
                n.attrs["j"] = "2"
            if n.kind == "elem" and r.chance(1, 4):
                n.attrs["k"] = "1"
        attrs = []
        for n in nodes:
            if n.kind == "elem":
                for an in sorted(n.attrs):
                    a = G.Node("attr", an)
                    a.parent = n
                    attrs.append(a)
        if not attrs:
            continue
        N, A = len(nodes), len(attrs)
        allnodes = nodes + attrs
        io = []
        for _ in range(5):
            level = r.choice(["any", "any", "multiple", "single"])
            cnt = r.choice(ATTR_COUNTS)
            frm = r.choice(ATTR_FROMS)
            hs = []
            ids = list(range(N, N + A)) + [i for i in range(N) if r.chance(1, 2)]
            hs.append(sorted(ids))
            hs.append(r.shuffle(ids))
            hs.append([r.choice(ids) for _ in range(r.range(1, len(ids) + 3))])
            io.append((level, cnt, frm, hs))
        cases.append((root, nodes, attrs, io))
    # stylesheets and model requests
    groups, lines, owner = [], [], []
    for ci, (root, nodes, attrs, io) in enumerate(cases):
        N = len(nodes)
        out = ['<xsl:stylesheet version="1.0" xmlns:xsl="http://www.w3.org/1999/XSL/Transform" xmlns:p="urn:p"><xsl:output method="text" encoding="UTF-8"/>']
        body = ['<xsl:template match="/"><xsl:variable name="all" select=".|//node()"/><xsl:variable name="att" select="//@*"/>']
        ll = ["doc " + " ".join(str(n.parent.idx if n.parent is not None else -1) for n in nodes),
              "cls " + " ".join([str(G.node_class(n)) for n in nodes] + [str(90 + ["j", "k"].index(a.name)) for a in attrs]),
              "attrs " + " ".join(str(a.parent.idx) for a in attrs)]
        for j, (level, cnt, frm, hs) in enumerate(io):
            a = ' level="%s"' % level
            if cnt:
                a += ' count="%s"' % G.xml_attr(cnt[0])
            if frm:
                a += ' from="%s"' % G.xml_attr(frm[0])
            cb = "".join("1" if cnt[1](n) else "0" for n in nodes + attrs) if cnt else "-"
            fb = "".join("1" if frm[1](n) else "0" for n in nodes + attrs) if frm else "-"
            for k, h in enumerate(hs):
                name = "n%do%d" % (j, k)
                out.append('<xsl:template name="%s"><xsl:param name="i"/><xsl:text>#%d.%d:</xsl:text><xsl:value-of select="$i"/>'
                           '<xsl:text>=</xsl:text><xsl:number%s/><xsl:text>&#10;</xsl:text></xsl:template>' % (name, j, k, a))
                for i in h:
                    sel = "$all[%d]" % (i + 1) if i < N else "$att[%d]" % (i - N + 1)
                    body.append('<xsl:for-each select="%s"><xsl:call-template name="%s"><xsl:with-param name="i" select="%d"/>'
                                '</xsl:call-template></xsl:for-each>' % (sel, name, i))
                ll.append("numa %s %s %s %s" % (level[0], cb, fb, " ".join(str(i) for i in h)))
        body.append("</xsl:template>")
        groups.append((G.to_xml(root), ["".join(out) + "".join(body) + "</xsl:stylesheet>"]))
        lines += ll
        owner += [ci] * len(ll)
    impl = run_impl(harness, groups, nproc=min(8, common.NPROC))
    mout, mrc, merr = run_model(model, lines, "attr")
    agree = len(mout) == len(lines)
    if not agree:
        ctx.oblige("model driver answers the attribute stream", "machinery", False, merr)
        return
    per = {}
    for ci, rep in zip(owner, mout):
        per.setdefault(ci, []).append(rep)
    bad = []
    for ci, (root, nodes, attrs, io) in enumerate(cases):
        N = len(nodes)
        xml = G.to_xml(root)
        kind, text = impl[ci][0]
        if kind != "out":
            ctx.fail("number.attr[%s]: doc=%s" % ("crash" if kind == "crash" else "error", xml), "transformation failed: " + text[:300],
                     {"doc": xml, "stylesheet": groups[ci][1][0]})
            continue
        got = {}
        for ln in text.split("\n"):
            if ln.startswith("#"):
                head, _, rest = ln[1:].partition(":")
                i, _, v = rest.partition("=")
                jj, kk = head.split(".")
                got.setdefault((int(jj), int(kk)), []).append((int(i), v))
        reps = per[ci][3:]
        idx = 0
        for j, (level, cnt, frm, hs) in enumerate(io):
            seen = {}
            for k, h in enumerate(hs):
                ent = [e.split("|") for e in reps[idx].split(" ")] if reps[idx] else []
                idx += 1
                g = got.get((j, k), [])
                if [x[0] for x in g] != list(h) or len(ent) != len(h):
                    ctx.oblige("attribute stream: visiting order as generated", "machinery", False, "%s %s" % (h, g))
                    continue
                for (node, istr), e in zip(g, ent):
                    ilist = parse_list(istr)
                    mlist, slist = parse_list(e[0]), parse_list(e[1])
                    isattr = node >= N
                    cur = (nodes + attrs)[node]
                    desc = "level=%s count=%s from=%s doc=%s node=%s" % (level, cnt[0] if cnt else None, frm[0] if frm else None, xml,
                                                                        ("@%s of element %d" % (cur.name, cur.parent.idx)) if isattr else node)
                    ctx.case(nontrivial_key=("attr", desc) if isattr else None, cls="attribute-context" if isattr else "attribute-document")
                    prev = seen.setdefault(node, istr)
                    if prev != istr:
                        ctx.fail("number.history-dependent[attr]: " + desc, "printed %r and %r in two histories" % (prev, istr), {"doc": xml})
                    if ilist != mlist:
                        agree = False
                        bad.append((desc, istr, e[0]))
                    if ilist != slist:
                        cmatch = (cnt[1](cur) if cnt else True)
                        if level == "any" and slist == [0] and ilist == []:
                            cls = "any,zero-count-prints-nothing"
                        elif level == "any" and isattr and cmatch and ilist == mlist:
                            cls = "any,attribute-counted,parent-step-null"
                        else:
                            cls = "unclassified"
                        ctx.fail("number.spec[%s]: %s" % (cls, desc), "xsl:number printed %r; XSLT 1.0 section 7.7 defines %s" % (istr, slist),
                                 {"doc": xml, "level": level, "count": cnt[0] if cnt else None, "from": frm[0] if frm else None, "node": node})
    ctx.oblige("correspondence: xsl:number on documents with attribute nodes (attributes as context and counted nodes) = Lean model",
               "correspondence", agree, str(bad[:3]))


def greek_stream(ctx, r, harness, model):
    """format="&#x3B1;" letter-value="alphabetic" (int2alphaCount over s_elalphaCountTable, radix 25), and the lang attribute
    (parsed, never consulted): compared with the model; the strings must decode back (bijective base 25 over the table that
    translate/c17_tables.py read from the source)"""
    import re
    gen = open(os.path.join(common.GEN, "C17_NumberTables.lean"), encoding="utf-8").read()
    m = re.search(r"def elalphaTable : List Nat := \[([^\]]*)\]", gen)
    table = [int(x) for x in m.group(1).split(",")] if m else []
    radix = len(table)
    vals = [1, 2, radix - 1, radix, radix + 1, 2 * radix, radix * radix, radix * radix + radix, radix ** 3, 10 ** 9] + \
           [r.range(1, 3000) for _ in range(150)] + [r.range(1, 10 ** 12) for _ in range(50)]
    body = "".join('<xsl:number value="%d" format="&#x3B1;" letter-value="alphabetic" lang="%s"/><xsl:text>&#10;</xsl:text>' % (v, r.choice(["el", "en", "de"]))
                   for v in vals)
    body += '<xsl:number value="1999" format="I" lang="de"/><xsl:text>&#10;</xsl:text><xsl:number value="28" format="a" lang="el" letter-value="traditional"/><xsl:text>&#10;</xsl:text>'
    xsl = ('<xsl:stylesheet version="1.0" xmlns:xsl="http://www.w3.org/1999/XSL/Transform"><xsl:output method="text" encoding="UTF-8"/>'
           '<xsl:template match="/">%s</xsl:template></xsl:stylesheet>' % body)
    res = run_impl(harness, [("<r/>", [xsl])], 1)[0][0]
    lines = ["lv 1"] + ["val 03b1 - - %d" % v for v in vals] + ["lv 0", "val 0049 - - 1999", "val 0061 - - 28"]
    mout, _, merr = run_model(model, lines, "greek")
    if res[0] != "out" or len(mout) != len(lines):
        ctx.oblige("correspondence: Greek alphabetic numbering / lang = Lean model", "correspondence", False, "%r %s" % (res, merr))
        return
    got = res[1].split("\n")[:len(vals) + 2]
    want = [G.from_units(x) for x in mout[1:1 + len(vals)]] + [G.from_units(mout[-2]), G.from_units(mout[-1])]
    ok = got == want
    for v, sgot in zip(vals, got):
        ctx.case(nontrivial_key=("greek", v), cls="format:greek-alphabetic")
        # decode: bijective base `radix`, table[0] is the digit `radix`
        n = 0
        good = bool(sgot)
        for ch in sgot:
            if ord(ch) not in table:
                good = False
                break
            i = table.index(ord(ch))
            n = n * radix + (radix if i == 0 else i)
        if not good or n != v:
            ctx.fail("number.format.roundtrip[greek-alphabetic]: value=%d" % v, "printed %r which decodes to %s" % (sgot, n if good else None), {"value": v})
    # letter-value="traditional": traditionalAlphaCount over the bundle the translator read from the source
    mb = re.search(r"def elalphaBundle : NumberingBundle :=\s*\{ groups := \[([^\]]*)\], tables := \[([^\]]*)\], multipliers := \[([^\]]*)\], "
                   r"multiplierChars := \[([^\]]*)\],\s*digitsTable := \[(.*?)\]\],", gen, flags=re.S)
    if mb:
        ints = lambda t: [int(x) for x in t.split(",") if x.strip()]
        groups, tabs, mults, mchars = ints(mb.group(1)), ints(mb.group(2)), ints(mb.group(3)), ints(mb.group(4))
        dtab = [ints(t.strip("[] ")) for t in mb.group(5).split("],")]
        letter = {}
        for g_, t_ in zip(groups, tabs):
            for i_, ch_ in enumerate(dtab[t_]):
                letter.setdefault(ch_, (i_ + 1) * g_)

        def dec_trad(sv):
            tot, pend = 0, None
            for ch in sv:
                o = ord(ch)
                if pend is not None:
                    if o not in letter:
                        return None
                    tot += pend * letter[o]
                    pend = None
                elif o in mchars:
                    pend = mults[mchars.index(o)]
                elif o in letter:
                    tot += letter[o]
                else:
                    return None
            return tot if pend is None else None
        tvals = [1, 9, 10, 99, 100, 200, 999, 1000, 1001, 5555, 9999, 10000, 11000, 20000, 23000, 999999, 1000000] + \
                [r.range(1, 9999) for _ in range(150)] + [r.range(10000, 2000000) for _ in range(20)]
        tb = "".join('<xsl:number value="%d" format="&#x3B1;" letter-value="traditional"/><xsl:text>&#10;</xsl:text>' % v for v in tvals)
        txsl = ('<xsl:stylesheet version="1.0" xmlns:xsl="http://www.w3.org/1999/XSL/Transform"><xsl:output method="text" encoding="UTF-8"/>'
                '<xsl:template match="/">%s</xsl:template></xsl:stylesheet>' % tb)
        tres = run_impl(harness, [("<r/>", [txsl])], 1)[0][0]
        tm, _, _ = run_model(model, ["lv 2"] + ["val 03b1 - - %d" % v for v in tvals], "trad")
        if tres[0] != "out" or len(tm) != len(tvals) + 1:
            ok = False
        else:
            tgot = tres[1].split("\n")[:len(tvals)]
            twant = [G.from_units(x) for x in tm[1:]]
            if tgot != twant:
                ok = False
            seen_str = {}
            for v, sv in zip(tvals, tgot):
                ctx.case(nontrivial_key=("trad", v), cls="format:greek-traditional")
                d = dec_trad(sv)
                if d != v:
                    cls_ = "beyond-9999" if v > 9999 else "unclassified"
                    other = seen_str.get(sv)
                    ctx.fail("number.format.roundtrip[greek-traditional,%s]: value=%d" % (cls_, v),
                             "printed %r which reads back as %s%s" % (sv, d, (" (value %d printed the same string)" % other) if other else ""), {"value": v})
                seen_str.setdefault(sv, v)
    else:
        ok = False
    ctx.oblige("correspondence: Greek numbering (letter-value=alphabetic and traditional) and ignored lang attribute = Lean model", "correspondence", ok,
               str([(v, a, b) for v, a, b in zip(vals + [1999, 28], got, want) if a != b][:3]))


VALUE_EDGES = [
    # (value expression, numerator, denominator | None for a special, format, grouping-separator, grouping-size, string XSLT 1.0 (+E24) defines | None = error)
    ("2.5", 5, 2, None, None, None, "3"), ("0.5", 1, 2, None, None, None, "1"), ("3.5", 7, 2, None, None, None, "4"),
    ("1.5", 3, 2, "a", None, None, "b"), ("26.5", 53, 2, "A", None, None, "AA"), ("3998.5", 7997, 2, "I", None, None, "MMMCMXCIX"),
    ("0.49", 49, 100, None, None, None, "0.49"), ("0.25", 1, 4, "a", None, None, "0.25"), ("-3.7", -37, 10, None, None, None, "-3.7"),
    ("0", 0, 1, "001", None, None, "0"), ("-25", -25, 1, "i", None, None, "-25"),
    ("0 div 0", None, "nan", None, None, None, "NaN"), ("1 div 0", None, "inf", "a", None, None, "Infinity"),
    ("-1 div 0", None, "-inf", None, None, None, "-Infinity"),
    ("9223372036854775808", 2 ** 63, 1, None, None, None, "9223372036854775808"),
    ("18446744073709549568", 2 ** 64 - 2048, 1, None, ",", "3", "18,446,744,073,709,549,568"),
    ("18446744073709551616", 2 ** 64, 1, None, None, None, "18446744073709551616"),
    ("100000000000000000000", 10 ** 20, 1, None, None, None, "100000000000000000000"),
    ("1234567", 1234567, 1, None, ",", "0", "1234567"), ("1234567", 1234567, 1, None, ",", None, "1234567"),
    ("1234567", 1234567, 1, None, None, "3", "1234567"), ("1234567", 1234567, 1, "0001", ".", "2", "1.23.45.67"),
    ("1234567", 1234567, 1, None, ",,", "3", None), ("5", 5, 1, "a", ",,", "3", "e"), ("12", 12, 1, "1", ",,", None, None),
]


def value_edges(ctx, harness, model):
    """non-integral, negative, special and very large value= numbers; grouping attribute edge cases"""
    groups, lines = [], []
    for expr, num, den, fmt, gs, gz, want in VALUE_EDGES:
        a = ' value="%s"' % expr
        if fmt is not None:
            a += ' format="%s"' % G.xml_attr(fmt)
        if gs is not None:
            a += ' grouping-separator="%s"' % G.xml_attr(gs)
        if gz is not None:
            a += ' grouping-size="%s"' % gz
        xsl = ('<xsl:stylesheet version="1.0" xmlns:xsl="http://www.w3.org/1999/XSL/Transform"><xsl:output method="text" encoding="UTF-8"/>'
               '<xsl:template match="/"><xsl:number%s/></xsl:template></xsl:stylesheet>' % a)
        groups.append(("<r/>", [xsl]))
        if num is not None:
            lines.append("valq %s %s %s %d %d" % (G.units(fmt), G.units(gs) if gs else "-", gz if gz else "-", num, den))
    impl = run_impl(harness, groups, nproc=4)
    mout, mrc, merr = run_model(model, lines, "vedge")
    ok = len(mout) == len(lines)
    bad = []
    mi = 0
    for (expr, num, den, fmt, gs, gz, want), res in zip(VALUE_EDGES, impl):
        kind, text = res[0]
        m = None
        if num is not None:
            m = mout[mi] if mi < len(mout) else None
            mi += 1
        ctx.case(nontrivial_key=("ve", expr, fmt, gs, gz), cls="value-edge")
        desc = "value=%s format=%r grouping-separator=%r grouping-size=%r" % (expr, fmt, gs, gz)
        got = text if kind == "out" else None
        # model
        if m is not None:
            if m == "!err":
                if kind != "err":
                    ok = False; bad.append((desc, "model: error", res[0]))
            elif m == "!undefined-cast":
                pass            # the code performs an undefined conversion: nothing to compare with
            elif m == "!num2str":
                pass            # NumberToDOMString(double): property C18; compared with the specified string below
            elif kind != "out" or G.from_units(m) != text:
                ok = False; bad.append((desc, "model: %r" % G.from_units(m), res[0]))
        # specification
        if want is None:
            if kind != "err":
                ctx.fail("number.value[error-expected]: " + desc, "an XSLT error was expected, got %r" % (res[0],), {"value": expr})
        elif got != want:
            cls = "beyond-CountType" if m == "!undefined-cast" else "unclassified"
            ctx.fail("number.value[%s]: %s" % (cls, desc), "printed %r; XSLT 1.0 section 7.7 (value rounded, erratum E24 for NaN/infinite/<0.5) gives %r" % (res[0], want),
                     {"value": expr, "format": fmt, "grouping-separator": gs, "grouping-size": gz})
    ctx.oblige("correspondence: value= edge cases (non-integral, negative, special, > 64 bits, grouping attribute edge cases) = Lean model",
               "correspondence", ok, str(bad[:3]) + merr[-200:])


def last_alnum_type(fmt):
    if not fmt:
        return "1"
    run = ""
    first = None
    for ch in fmt:
        if ch.isalnum():
            run += ch
        elif run:
            break
    return run[-1] if run else "1"


def first_token_width(fmt):
    if not fmt:
        return 1
    run = ""
    for ch in fmt:
        if ch.isalnum():
            run += ch
        elif run:
            break
    return len(run) if run else 1


# ------------------------------------------------------------------------------------------------

def report(ctx, problems, harness, model, do_shrink=True):
    agree = True
    oracle_ok = True
    shrunk = 0
    seen_cls = {}
    for p in problems:
        if p["kind"] == "machinery":
            ctx.oblige("check machinery: " + p["key"], "machinery", False, p.get("detail", ""))
        elif p["kind"] == "model":
            agree = False
            ctx.extra.setdefault("model_disagreements", [])
            if len(ctx.extra["model_disagreements"]) < 5:
                c = p["case"]
                if do_shrink and shrunk < 3:
                    shrunk += 1
                    sc, sp = shrink(ctx, harness, model, c, p["j"], p["k"], "model", "model != implementation")
                    ctx.extra["model_disagreements"].append({"case": sc.to_json(), "detail": (sp or p)["detail"], "key": (sp or p)["key"]})
                else:
                    ctx.extra["model_disagreements"].append({"key": p["key"], "detail": p["detail"]})
        elif p["kind"] == "oracle":
            oracle_ok = False
            ctx.extra.setdefault("oracle_disagreements", [])
            if len(ctx.extra["oracle_disagreements"]) < 5:
                ctx.extra["oracle_disagreements"].append({"key": p["key"], "detail": p["detail"]})
        elif p["kind"] == "fail":
            c = p.get("case")
            cls = p["key"].split(":")[0]
            inp = c.to_json() if c else None
            known = any(__import__("re").search(f.get("match", "$^"), p["key"]) for f in ctx.findings)
            if not known and c is not None and "j" in p and do_shrink and seen_cls.get(cls, 0) < 2:
                seen_cls[cls] = seen_cls.get(cls, 0) + 1
                sc, sp = shrink(ctx, harness, model, c, p["j"], p["k"], "fail", cls)
                if sp:
                    p = dict(sp)
                    inp = sc.to_json()
            ctx.fail(p["key"], p["detail"], inp)
    return agree, oracle_ok


def run(ctx):
    ctx.rule = ("counting: a case is one (document, xsl:number instruction, history position) triple whose printed string was "
                "compared with the Lean model, decoded and compared with the Lean section 7.7 specification and with the count() "
                "expression printed in the same run; non-trivial = the specified list has more than one number or a number > 1; "
                "distinct = distinct (instruction, document, node).  formatting: a case is one value/format/grouping triple; "
                "non-trivial = value > 26")
    ctx.trusted += [
        "translate/c17_tables.py (tables, roman limit, buffer length read from ElemNumber.cpp)",
        "harness/c17_number.cpp + gen/c17_gen.py + checks/c17.py (documents, patterns in three renderings, histories, comparison)",
        "modelled, not verified: XPath pattern matching (abstract predicate; evaluated by the generator and, independently, by the "
        "count() expression in the same run), isXMLLetterOrDigit (parameter; ASCII instance), NumberToDOMString for integers "
        "(decimal digits), Greek/traditional numbering and letter-value/lang (not modelled), attribute nodes (outside the navigation model)",
    ]
    ctx.build("hooks")
    ctx.translate("c17_tables")
    ctx.translate("c17_navshape")
    ctx.translate("c17_patterncache")
    ctx.lean("XalanModel.Props.C17", THEOREMS, extra_targets=["xm_c17"])
    # the driver is built on its own (it depends on the model and the generated tables only, not on the proofs): a proof
    # that no longer builds must not leave a stale xm_c17 in use, and a driver that does not build is an obligation
    # that failed, not a reason to fall back to an old binary
    drc, dout = common.lake_build(["xm_c17"])
    ctx.oblige("lake build xm_c17 (model driver is current)", "build", drc == 0, dout[-1500:] if drc else "")
    model = ctx.exe("xm_c17") if drc == 0 else None
    harness = common.build_harness("c17_number", ["c17_number.cpp"], flavor="hooks")
    os.makedirs(WORK, exist_ok=True)
    if model is None:
        return
    r = Rng(ctx.seed)

    # 1. corpus
    problems = evaluate(ctx, corpus(), harness, model, "corpus")
    a1, o1 = report(ctx, problems, harness, model, do_shrink=False)

    # 2. generated counting stream
    if ctx.thorough:
        ndocs, maxnodes, ninstr, kinds = 4000, 45, 6, ["doc", "rev", "shuffle", "sort", "repeat", "sub"]
    else:
        ndocs, maxnodes, ninstr, kinds = 500, 30, 6, ["doc", "rev", "shuffle", "sort", "repeat"]
    cases = gen_cases(r, ndocs, maxnodes, ninstr, kinds)
    problems = evaluate(ctx, cases, harness, model, "main")
    a2, o2 = report(ctx, problems, harness, model)
    ctx.oblige("correspondence: xsl:number strings (real library) = Lean model on every generated document x instruction x history",
               "correspondence", a1 and a2, json.dumps(ctx.extra.get("model_disagreements", [])[:2], ensure_ascii=False, default=str))
    ctx.oblige("oracle: count() expression printed in the same run = Lean section 7.7 specification", "correspondence", o1 and o2,
               json.dumps(ctx.extra.get("oracle_disagreements", [])[:2], ensure_ascii=False))

    # 2b. more distinct default count patterns than the run-time pattern cache holds
    problems = evaluate(ctx, many_names_cases(r, 2 if not ctx.thorough else 12), harness, model, "names")
    a2b, o2b = report(ctx, problems, harness, model)
    ctx.oblige("correspondence: default count with 60-120 distinct element names in one transformation (pattern cache eviction) = Lean model "
               "and = the count() expression of the same run", "correspondence", a2b and o2b,
               json.dumps((ctx.extra.get("model_disagreements", []) + ctx.extra.get("oracle_disagreements", []))[:2], ensure_ascii=False, default=str)[:1500])

    # 3. small-scope exhaustive (thorough): all trees with <= 5 element nodes over 2 names, fixed instruction set, all orders of <= 4 nodes
    if ctx.thorough:
        ex = exhaustive_cases()
        problems = evaluate(ctx, ex, harness, model, "exh")
        a3, o3 = report(ctx, problems, harness, model)
        ctx.oblige("correspondence (exhaustive small scope): all trees of <= 4 elements (names x/h) under one root element x 12 instructions x all visiting orders of the elements; 5 elements: every 11th order",
                   "correspondence", a3 and o3, json.dumps(ctx.extra.get("model_disagreements", [])[:2], ensure_ascii=False, default=str))

    # 4. attribute nodes (outside the navigation model): default count pattern `@name`, single level
    attr_xsl = ('<xsl:stylesheet version="1.0" xmlns:xsl="http://www.w3.org/1999/XSL/Transform"><xsl:output method="text"/>'
                '<xsl:template match="/"><xsl:for-each select="//@k"><xsl:number/>;</xsl:for-each></xsl:template></xsl:stylesheet>')
    res = run_impl(harness, [('<r k="1"><x k="1" j="2"/></r>', [attr_xsl])], 1)[0][0]
    ctx.case(cls="attribute,default-count")
    if res[0] == "out" and res[1] == "1;1;":
        pass
    elif res[0] == "err" and "&k" in res[1]:
        ctx.fail("number.error[default-count,attribute]: <xsl:number/> at //@k of <r k=\"1\"><x k=\"1\" j=\"2\"/></r>",
                 "xsl:number without count on an attribute raises: " + res[1][:200], {"doc": '<r k="1"><x k="1" j="2"/></r>', "stylesheet": attr_xsl})
    else:
        ctx.fail("number.attribute[unexplained]: %r" % (res,), "expected 1;1; from <xsl:number/> on the two k attributes", {"stylesheet": attr_xsl})

    # 4a. namespace nodes as current node (outside the navigation model): explicit count walks to the element;
    # the default count pattern cannot be written as a pattern at all
    # (the namespace nodes are taken from the element that declares them: this processor shares the declaring element's
    # namespace nodes with its descendants and has one `xml` namespace node, so elsewhere their parent is not the element
    # they were selected from)
    ns_doc = '<r><x/><x><p:y xmlns:p="urn:p"/></x></r>'
    ns_xsl = ('<xsl:stylesheet version="1.0" xmlns:xsl="http://www.w3.org/1999/XSL/Transform" xmlns:p="urn:p"><xsl:output method="text"/>'
              '<xsl:template match="/"><xsl:for-each select="/r/x[2]/p:y/namespace::p">[<xsl:number count="*" level="multiple"/>]</xsl:for-each>'
              '</xsl:template></xsl:stylesheet>')
    res = run_impl(harness, [(ns_doc, [ns_xsl]), (ns_doc, [ns_xsl.replace(' count="*" level="multiple"', "")])], 1)
    ctx.case(cls="namespace-node")
    ctx.case(cls="namespace-node,default-count")
    if res[0][0] != ("out", "[1.2.1]"):
        ctx.fail("number.namespace-node[explicit-count]: %r" % (res[0][0],), "expected [1.2.1] (the namespace node p of p:y: ancestors r, x[2], p:y)",
                 {"doc": ns_doc, "stylesheet": ns_xsl})
    if res[1][0] != ("out", "[1]"):
        k = res[1][0]
        if k[0] == "err" and "xmlns" in k[1]:
            ctx.fail("number.error[default-count,namespace-node]: <xsl:number/> at /r/x[2]/p:y/namespace::p of " + ns_doc,
                     "xsl:number without count on a namespace node raises: " + k[1][:160], {"doc": ns_doc})
        else:
            ctx.fail("number.namespace-node[default-count,unexplained]: %r" % (k,), "expected [1]", {"doc": ns_doc})

    # 4b. attribute nodes in the navigation model
    attr_stream(ctx, r, harness, model, 60 if not ctx.thorough else 600)

    # 4c. Greek alphabetic numbering, lang
    greek_stream(ctx, r, harness, model)

    # 5. value= edge cases
    value_edges(ctx, harness, model)

    # 6. formatting
    format_stream(ctx, r, harness, model, 30000 if not ctx.thorough else 200000)
    ctx.exhaustive = False


def exhaustive_cases():
    import itertools
    shapes = []

    def trees(n):
        """all ordered forests with n nodes"""
        if n == 0:
            return [[]]
        res = []
        for k in range(1, n + 1):
            for first in trees(k - 1):
                for rest in trees(n - k):
                    res.append([first] + rest)
        return res
    cases = []
    instrs = [I("any", G.pat_name("x")), I("any", G.pat_name("x"), G.pat_name("h")), I("any", G.PAT_STAR, G.pat_name("h")),
              I("any"), I("single"), I("single", G.pat_name("x")), I("single", G.PAT_STAR, G.pat_name("h")),
              I("multiple", G.PAT_STAR), I("multiple", G.pat_name("x"), G.pat_name("h")), I("multiple"),
              I("any", G.pat_union("x", "h")), I("multiple", G.pat_union("x", "h"), G.pat_name("h"))]
    for n in range(1, 6):
        for forest in trees(n):
            flat = []

            def count(f):
                return sum(1 + count(k) for k in f)
            for names in itertools.product("xh", repeat=n):
                it = iter(names)

                def build(f):
                    return [[next(it)] + build(k) for k in f]
                spec = [["r"] + build(forest)]
                root = G.tree_from_spec(spec)
                nn = len(G.preorder(root))
                ids = list(range(nn))
                hs = [list(p) for m in (nn,) for p in itertools.permutations(ids, min(m, 4))][:24]
                # all orders of the element nodes (<= 4! = 24), then reverse of everything
                els = ids[2:]
                perms = [list(p) for p in itertools.permutations(els)]
                if n == 5:      # 120 orders: keep every 11th
                    perms = perms[::11]
                hs = perms + [ids[::-1], ids]
                cases.append(Case(root, [(ins, hs) for ins in instrs], "exhaustive"))
    return cases


def replay(ctx, path):
    d = json.load(open(path))
    ctx.build("hooks")
    common.lake_build(["xm_c17"])
    model = ctx.exe("xm_c17")
    harness = common.build_harness("c17_number", ["c17_number.cpp"], flavor="hooks")
    first = d.get("first") or {}
    inp = first.get("input")
    print("key:", first.get("key"))
    print("what:", first.get("what"))
    if not inp:
        print("no concrete input recorded (obligations):", json.dumps(d.get("broken_obligations"), indent=1)[:3000])
        return 1
    if "tree" in inp:
        root = G.tree_from_spec(inp["tree"])
        io = []
        for it in inp["instructions"]:
            ii = it["instr"]
            pats = {}
            ins = rebuild_instr(ii)
            io.append((ins, it["histories"]))
        c = Case(root, io, "replay")
        ps = evaluate(ctx, [c], harness, model, "replay", record=False)
        for p in ps:
            print("%s: %s -- %s" % (p["kind"], p["key"], p.get("detail", "")))
        return 1 if ps else 0
    if "value" in inp:
        g = tuple(inp["grouping"]) if inp.get("grouping") else None
        groups = [("<r/>", [G.value_stylesheet([(inp["value"], inp.get("format"), g)])])]
        print("impl:", run_impl(harness, groups, 1)[0][0])
        print("model:", run_model(model, ["val %s %s %s %d" % (G.units(inp.get("format")), G.units(g[0]) if g else "-", str(g[1]) if g else "-", inp["value"])], "replay")[0])
        return 1
    return 1


def rebuild_instr(ii):
    """re-create the pattern triples from their text (the generator family is closed under this)"""
    def pat(txt):
        if txt is None:
            return None
        import re
        fixed = {"*": G.PAT_STAR, "node()": G.PAT_NODE, "text()": G.PAT_TEXT, "comment()": G.PAT_COMMENT,
                 "processing-instruction()": G.PAT_PI, "/": G.PAT_ROOT, "*[@k]": G.pat_star_attr()}
        if txt in fixed:
            return fixed[txt]
        W = r"((?:(?:p|pre):)?\w+)"
        m = re.fullmatch(r"(\w+)\|/", txt)
        if m:
            return G.pat_root_or(m.group(1))
        m = re.fullmatch(W + r"\|" + W, txt)
        if m:
            return G.pat_union(m.group(1), m.group(2))
        m = re.fullmatch(W + r"\[@k\]", txt)
        if m:
            return G.pat_attr(m.group(1))
        m = re.fullmatch(W + "//" + W, txt)
        if m:
            return G.pat_desc(m.group(1), m.group(2))
        m = re.fullmatch(W + "/" + W, txt)
        if m:
            return G.pat_child(m.group(1), m.group(2))
        m = re.fullmatch(r"\*\[not\(self::" + W + r"\)\]", txt)
        if m:
            return G.pat_not(m.group(1))
        m = re.fullmatch(W + r"\[" + W + r"\]", txt)
        if m:
            return G.pat_haschild(m.group(1), m.group(2))
        m = re.fullmatch(W, txt)
        if m:
            return G.pat_name(txt)
        raise ValueError("unknown pattern " + txt)
    return G.Instr(ii["level"], pat(ii.get("count")), pat(ii.get("from")), ii.get("format"),
                   tuple(ii["grouping"]) if ii.get("grouping") else None)
