"""C16 — xsl:sort yields a stable permutation ordered by its keys (DESIGN.md §5 C16, design/C16.md).

proof:          lean/XalanModel/Props/C16.lean over the hand model lean/XalanModel/C16/Sort.lean and the
                regenerated lean/XalanModel/Generated/C16_NodeSorter.lean (sentinel, numeric if-chain)
translator:     translate/c16_nodesorter.py (NodeSorter.cpp -> Generated, plus shape assertions)
correspondence: harness/c16_sort.cpp (real XalanTransformer, generated stylesheets with xsl:sort)
                vs lean/Driver/C16.lean (cache-threading model), same request lines; the specification
                predicate isStableSortedPerm is evaluated on every order the implementation produced.
"""
import importlib.util
import json
import os

from vlib import common
from vlib.common import Rng

CLAIMED = True
LEVEL = "proof"
TECHNIQUE = ("Lean 4 machine-checked proof over a hand model of NodeSorter / ElemForEach::sortChildren / the ICU collation bridge "
             "(comparator, result caches, sorter state across sorts, collator cache) whose numeric comparison and sentinel are "
             "regenerated from NodeSorter.cpp on every run by a translator that also asserts the mirrored code shape; "
             "correspondence runs of generated xsl:sort stylesheets through the real XalanTransformer against the compiled model, "
             "with an independent executable specification predicate evaluated on every order the implementation produced")
LEVEL_TEXT = ("Proved for every node list and every key list (41 theorems, no sorry, axioms propext/Classical.choice/Quot.sound): the "
              "multi-key comparator is a strict weak order equal to the lexicographic specification (text by collation, numbers with "
              "NaN least, descending per key); the number/string caches are transparent over any history of comparator calls and "
              "empty at the exit of every sort on normal and exceptional paths, so over the whole life of a transformer's sorter "
              "(including aborted, nested and re-entrant sorts — a sort key whose evaluation runs another sort) each completed sort returns a permutation that is sorted, stable and unique "
              "with these properties; insertion sort through the caches, List.mergeSort and a libstdc++-shaped run/merge sort agree; "
              "each comparison is collated with its own key's language and case-order through any state of the ICU collator cache "
              "(code-unit order when ICU refuses the language name); every sort key is evaluated with the node being sorted as current and context node and position()/last() of the unsorted list; position()/last() in the body are index+1/length of the sorted list for every history of context-list pushes and pops (the position cache is transparent). Tied to the working tree "
              "by the translator and by ~8 300 (quick) / ~174 000 (thorough, part under ASan) generated cases run on the real library "
              "and on the model, with exact observation of key values and of processing order.")
LEVEL_NOTE = ("Trusted: Lean kernel (thorough tier: leanchecker); std::stable_sort's internal buffer management (its contract is used; "
              "the strict-weak-order precondition, the algorithm shape and the uniqueness of the result are proved); XPath evaluation "
              "of key expressions and string->number conversion are parameters of the model (the conversion is checked exactly, bit "
              "for bit, against an exact XPath Number oracle on the generated value pool only); ICU's collation is a parameter assumed "
              "to be a three-way total preorder (proved for code-unit order, tested on every sampled string table; which collator and "
              "attributes are used is modelled and proved); the hand transcription of NodeSorter.cpp, ElemForEach.cpp and "
              "ICUBridgeCollationCompareFunctorImpl.cpp is validated by shape assertions and by the correspondence runs, whose "
              "guarantee is bounded by generator coverage; IEEE-754 ordering is modelled on the bit pattern; the translator's "
              "regex/brace parser, the harness and the generators are trusted.")
DESIGN_REF = "DESIGN.md section 5, C16; design/C16.md"

P = "XalanModel.Props.C16."
THEOREMS = [P + t for t in [
    "numCompare_spec",
    "numCompare_threeWay",
    "dummyValue_not_nan",
    "strCompare_threeWay",
    "tableOk_threeWay",
    "compare_threeWay",
    "compare_strictWeak",
    "compare_spec",
    "compare_eq_specCompare",
    "cache_transparent",
    "cache_transparent_history",
    "cache_effective",
    "sortNodesM_eq_sortNodes",
    "libStableSort_contract",
    "sort_spec",
    "sort_unique",
    "isStableSortedPerm_sound",
    "isStableSortedPerm_complete",
    "decodeSort_spec",
    "keyLangs_own",
    "sharedLang_counterexample",
    "collator_sees_own_key",
    "collator_history_sees_own_keys",
    "collator_fallback",
    "collator_cache_bounded",
    "later_key_reached_only_on_tie",
    "sorter_clean_at_exit",
    "sortOnce_correct",
    "sorter_history_correct",
    "nested_sorts_correct",
    "reentrant_sorts_correct",
    "sharedSorter_reentrancy_counterexample",
    "noCacheGuards_counterexample",
    "sort_key_context",
    "sort_key_position",
    "sort_key_context_counterexample",
    "nodeSorter_overloads_push_current",
    "position_cache_transparent",
    "body_position_after_inner",
    "popKeepsCache_counterexample",
    "process_positions",
]]


def _gen():
    p = os.path.join(common.ROOT, "gen", "c16_sortgen.py")
    spec = importlib.util.spec_from_file_location("c16_sortgen", p)
    m = importlib.util.module_from_spec(spec)
    spec.loader.exec_module(m)
    return m


G = _gen()
BATCH = 4000
TRANSLATED = True
ENV = {"LANG": "en_US.UTF-8", "LC_ALL": "en_US.UTF-8"}


def corpus_cases():
    d = os.path.join(common.ROOT, "gen", "corpus", "c16")
    res = []
    if os.path.isdir(d):
        for f in sorted(os.listdir(d)):
            if f.endswith(".json"):
                res.append(json.load(open(os.path.join(d, f))))
    for c in res:
        c["rows"] = [[tuple(v) if not isinstance(v[1], list) else (v[0], tuple(v[1]), v[2]) for v in row] for row in c["rows"]]
        for row in c["rows"]:
            for i, v in enumerate(row):
                if v[0] == "n" and isinstance(v[2], str):
                    row[i] = (v[0], v[1], float(v[2]))
    return res


def case_to_json(case):
    c = dict(case)
    c["rows"] = [[[v[0], list(v[1]) if isinstance(v[1], tuple) else v[1]] + ([repr(v[2])] if v[0] == "n" else [])
                  for v in row] for row in case["rows"]]
    return c


def current_sentinel():
    """the sentinel the working tree uses now (sidecar written by the translator)"""
    try:
        import struct
        d = json.load(open(os.path.join(common.GEN, "C16_NodeSorter.json")))
        return struct.unpack(">d", bytes.fromhex(d["facts"]["dummy_bits"]))[0]
    except Exception:
        return G.SENTINEL


def fetch_matrices(harness, model, ucases):
    """ask ICU (fresh collator per key's own lang / case-order) for the sign matrix of each case's strings"""
    lines = []
    for c in ucases:
        lines += G.coll_lines(c)
    if not lines:
        for c in ucases:
            G.set_matrices(c, [])
            c["matrix_ok"] = "ok"
        return
    rc, out = common.sh([harness], inp=("\n".join(lines) + "\n").encode("utf-8"), env=ENV)
    mats = [m[4:] if m.startswith("mat ") else "0" for m in out.split("\n")]
    rc, out = common.sh([model], inp=("\n".join("collcheck " + m for m in mats[:len(lines)]) + "\n").encode())
    oks = out.split("\n")
    pos = 0
    for c in ucases:
        n = len(G.coll_lines(c))
        G.set_matrices(c, mats[pos:pos + n])
        bad = [v for v in oks[pos:pos + n] if v != "ok"]
        c["matrix_ok"] = bad[0] if bad else "ok"
        pos += n


def run_cases(harness, model, cases, work, tag):
    """-> list of dict(case, status, …); status in ok | spec | poslast | echo | error | crash | model"""
    sentinel = current_sentinel()
    # second stream: ask the library's own ICU functor for the collation of each case's strings
    ucases = [c for c in cases if "pool" in c and "matrix" not in c]
    if ucases:
        fetch_matrices(harness, model, ucases)
    req = os.path.join(work, "c16_%s.req" % tag)
    built = [G.build(c) for c in cases]
    with open(req, "w") as f:
        f.write("\n".join(b[0] for b in built) + "\n")
    il, ml, irc, mrc, ierr, merr = common.run_pair([harness], [model], req, impl_env=ENV)
    il = [x.encode("utf-8", "replace").decode("utf-8", "replace") for x in il]
    results = []
    checks = []
    for i, case in enumerate(cases):
        r = {"case": case, "status": "ok", "impl": None, "model": ml[i] if i < len(ml) else None, "detail": ""}
        results.append(r)
        n = len(case["rows"])
        if i >= len(il):
            r["status"] = "crash"
            r["detail"] = "harness stopped (rc=%r): %s" % (irc, ierr[-600:])
            continue
        line = il[i]
        r["impl"] = line
        if line.startswith("err ") and (r["model"] or "") == "err":
            r["both_err"] = True       # an invalid order / data-type / case-order value: both raise an error
            r["triples"] = "err"
            continue
        if not line.startswith("res rc=0 "):
            r["status"] = "error"
            r["detail"] = line[:600]
            continue
        _, _, rest = line.partition(" probes=")
        probes, _, out = rest.partition(" out=")
        parsed = G.parse_output(out)
        if parsed is None or len(parsed) != n and False:
            r["status"] = "error"
            r["detail"] = "unparsable output: " + out[:300]
            continue
        order = [p[0] for p in parsed]
        r["order"] = order
        eg = G.expected_global(case)
        if eg is not None:
            gi = out.find("{G:")
            got = out[gi + 3:out.rfind("}")] if gi >= 0 else None
            if got != eg:
                r["extra_bad"] = "the sort run inside the top-level variable gave %r, expected %r" % (got, eg)
        # extras: the parameter passed by xsl:with-param, and the inner sort run inside every iteration
        for p in parsed:
            ex = p[4]
            if case.get("with_param") and case["mode"] == "at" and "W7;" not in ex:
                r["extra_bad"] = "row %d: xsl:with-param value not seen in the sorted apply-templates body: %r" % (p[0], ex)
            if case.get("inner_same") and not case.get("abort"):
                _, _, inn = ex.partition("I:")
                if [x for x in inn.split(",") if x] != [str(i) for i in order]:
                    r["extra_bad"] = ("row %d: the same sort run inside the iteration gave %r, the outer order is %r"
                                      % (p[0], inn, order))
        r["triples"] = ",".join("%d:%d:%d" % (p[0], p[1], p[2]) for p in parsed) or "-"
        # generator assumptions: the values the processor saw are the ones handed to the model
        for p in parsed:
            if 0 <= p[0] < n:
                exp = G.expected_echo(case, p[0])
                got = [("NaN" if (len(g) == 16 and e == ["NaN"] and all(ch in "0123456789abcdef" for ch in g)
                                  and (int(g, 16) & 0x7fffffffffffffff) > 0x7ff0000000000000) else g) for g, e in zip(p[3], exp)]
                if len(p[3]) != len(exp) or any(g not in e for g, e in zip(got, exp)):
                    r["echo_bad"] = "row %d printed %r, generator assumed %r" % (p[0], p[3], exp)
        # cache model: a cacheable value (number != sentinel, non-empty string) is evaluated at most once
        if probes != "-" and TRANSLATED:
            for t in probes.split(","):
                k, ident, cnt = t.split(":")
                if ident.isdigit() and int(ident) < n and int(k) < len(case["keys"]):
                    v = case["rows"][int(ident)][int(k)]
                    cacheable = (v[2] != sentinel) if v[0] == "n" else (v[1] != "")
                    if cacheable and int(cnt) > 1:
                        r["probe_bad"] = "key %s of row %s evaluated %s times (value %r is cacheable)" % (k, ident, cnt, v[1])
                    r.setdefault("reeval", 0)
                    if not cacheable and int(cnt) > 1:
                        r["reeval"] += 1
        checks.append((i, G.check_line(case, order)))
    # specification predicate on every order the implementation produced
    if checks:
        creq = os.path.join(work, "c16_%s.chk" % tag)
        with open(creq, "w") as f:
            f.write("\n".join(c[1] for c in checks) + "\n")
        rc, out = common.sh([model], inp=open(creq, "rb").read())
        verdicts = out.split("\n")
        for (i, _), v in zip(checks, verdicts):
            r = results[i]
            r["verdict"] = v
            if v != "ok":
                r["status"] = "spec"
                r["detail"] = "specification predicate on the implementation's order: " + v
    for r in results:
        if r["status"] != "ok" or r.get("both_err"):
            continue
        m = r["model"] or ""
        f = m.split(" ")
        if len(f) < 5 or f[0] != "out" or f[3] != "pure=same" or f[4] != "spec=ok":
            r["status"] = "model"
            r["detail"] = "model reply: " + m[:300]
        elif f[1] != r["triples"]:
            mo = [t.split(":")[0] for t in f[1].split(",")] if f[1] != "-" else []
            if mo == [str(x) for x in r["order"]]:
                r["status"] = "poslast"
                r["detail"] = "position()/last() differ: impl %s model %s" % (r["triples"], f[1])
            else:
                r["status"] = "model"
                r["detail"] = "order differs although the predicate holds: impl %s model %s" % (r["triples"], f[1])
    return results, req, (irc, ierr)


def shrink(harness, model, case, work, status):
    """delete rows, then keys, while the same kind of failure persists"""
    cur = case
    budget = 50

    def still(c):
        nonlocal budget
        budget -= 1
        res, _, _ = run_cases(harness, model, [c], work, "shrink")
        return res[0]["status"] == status

    changed = True
    while changed and budget > 0:
        changed = False
        for i in range(len(cur["rows"]) - 1, -1, -1):
            if budget <= 0:
                break
            c = dict(cur)
            c["rows"] = cur["rows"][:i] + cur["rows"][i + 1:]
            if cur.get("noise"):
                c["noise"] = cur["noise"][:i] + cur["noise"][i + 1:]
            if still(c):
                cur = c
                changed = True
        for j in range(len(cur["keys"]) - 1, -1, -1):
            if budget <= 0 or len(cur["keys"]) <= 1:
                break
            c = dict(cur)
            c["keys"] = cur["keys"][:j] + cur["keys"][j + 1:]
            c["rows"] = [row[:j] + row[j + 1:] for row in cur["rows"]]
            c.pop("matrix", None)
            c.pop("matrix_ok", None)
            re_ = c.get("reenter")
            if re_:
                if re_["key"] == j:
                    c.pop("reenter")
                elif re_["key"] > j:
                    c["reenter"] = dict(re_, key=re_["key"] - 1)
            ps = c.get("pre_sort")
            if ps:
                if ps["key"] == j:
                    c.pop("pre_sort")
                elif ps["key"] > j:
                    c["pre_sort"] = dict(ps, key=ps["key"] - 1)
            # 'dot'/'child' exclusivity is preserved by deletion
            if still(c):
                cur = c
                changed = True
    if cur.get("pre_sort") and budget > 0:
        c = dict(cur)
        c.pop("pre_sort")
        if still(c):
            cur = c
    return cur


def lang_last_wins(harness, model, case, order):
    """Is the implementation's order the stable sorted permutation when EVERY key is collated with the language of
    the last xsl:sort that has a lang attribute (the NodeSortKey-shares-langString defect)?  Returns the language or None."""
    import copy
    if "pool" not in case:
        return None
    langs = [k["coll"][1] for k in case["keys"] if not k["number"]]
    if len(set(langs)) < 2:
        return None
    eff = "-"
    for l in langs:
        if l != "-":
            eff = l
    alt = copy.deepcopy(case)
    for k in alt["keys"]:
        if not k["number"]:
            k["coll"][1] = eff
    alt.pop("matrix", None)
    fetch_matrices(harness, model, [alt])
    rc, out = common.sh([model], inp=(G.check_line(alt, order) + "\n").encode())
    return eff if out.strip() == "ok" else None


def find_history(harness, model, cases, i, work, status):
    """a failure that does not reproduce on its own depends on the sorts run before it by the same
    transformer (the NodeSorter and its caches are reused): find a short prefix that reproduces it"""
    res, _, _ = run_cases(harness, model, [cases[i]], work, "hist")
    if res[0]["status"] == status:
        return []
    lo = max(0, i - 64)
    for j in range(i - 1, lo - 1, -1):
        res, _, _ = run_cases(harness, model, [cases[j], cases[i]], work, "hist")
        if res[-1]["status"] == status:
            return [cases[j]]
    k = 2
    while k <= 4096 and i - k >= -k:
        pre = cases[max(0, i - k):i]
        res, _, _ = run_cases(harness, model, pre + [cases[i]], work, "hist")
        if res[-1]["status"] == status:
            return pre
        if i - k <= 0:
            break
        k *= 2
    return None


def classify(case):
    ks = case["keys"]
    vals = [v for row in case["rows"] for v in row]
    tags = []
    if any(v[0] == "n" and v[2] != v[2] for v in vals):
        tags.append("nan")
    if any(v[0] == "n" and v[2] == G.SENTINEL for v in vals):
        tags.append("sentinel")
    if any(v[0] == "t" and v[1] == "" for v in vals):
        tags.append("empty")
    if any(v[0] == "n" and v[2] in (float("inf"), float("-inf")) for v in vals):
        tags.append("inf")
    if case.get("abort"):
        tags.append("abort-" + case["abort"])
    if any(k.get("odd") for k in ks):
        tags.append("odd-attr" if not G.expects_error(case) else "invalid-attr")
    return "%s%s/%dkeys/%s" % ("unicode-" if "pool" in case else "", case["mode"], len(ks), "+".join(tags) or "plain")


def exhaustive_cases():
    """small scope: all lists of length <= 4 over 3 values x all 1-2-key specs (type x order), for-each"""
    import itertools
    res = []
    num_vals = [("n", "1", 1.0), ("n", "ab", float("nan")), ("n", "135792468", G.SENTINEL)]
    txt_vals = [("t", ""), ("t", "aa"), ("t", "ab")]

    def key(number, desc):
        return {"number": number, "desc": desc, "form": "attr", "order_deco": "lit", "type_deco": "lit", "extra": ""}
    for number in (False, True):
        for desc in (False, True):
            vals = num_vals if number else txt_vals
            for n in range(2, 5):
                for combo in itertools.product(vals, repeat=n):
                    res.append({"mode": "fe", "nest": False, "keys": [key(number, desc)], "rows": [[v] for v in combo],
                                "subset": False, "noise": []})
    for n1 in (False, True):
        for d1 in (False, True):
            for n2 in (False, True):
                for d2 in (False, True):
                    v1 = (num_vals if n1 else txt_vals)[:2]
                    v2 = (num_vals if n2 else txt_vals)[1:]
                    pairs = [(a, b) for a in v1 for b in v2]
                    for n in range(2, 4):
                        for combo in itertools.product(pairs, repeat=n):
                            res.append({"mode": "at", "nest": False, "keys": [key(n1, d1), key(n2, d2)],
                                        "rows": [list(p) for p in combo], "subset": False, "noise": []})
    return res


def run(ctx):
    ctx.rule = ("one case = one generated stylesheet (xsl:for-each or xsl:apply-templates with 1-4 xsl:sort) run on a "
                "generated document through XalanTransformer; non-trivial = at least 2 selected nodes and the model's "
                "processing order differs from document order or has ties on the first key; distinct = distinct "
                "(key spec, key values) text")
    ctx.trusted += [
        "translate/c16_nodesorter.py (regex/brace parser of NodeSorter.cpp; shape assertions)",
        "harness/c16_sort.cpp + gen/c16_sortgen.py + checks/c16.py (generator, value assumptions validated by echo, comparison)",
        "modelled, not verified: libstdc++ std::stable_sort (List.mergeSort under a proved strict weak order), XPath key "
        "evaluation and string->number conversion (parameters; see C02/C18), ICU collation (parameter; code-unit order on "
        "the generated fixed-length lower-case ASCII keys), MutableNodeRefList copy / addNode",
    ]
    ctx.assumptions += ["ICU root/en collation orders fixed-length lower-case ASCII strings (and the empty string first) by code unit",
                        "key evaluation is deterministic (same node, same key -> same value)"]
    ctx.build("hooks")
    # C11's translator tables the prologue (RAII guards) of every XPath::execute overload; Props.C16 obliges the two
    # overloads NodeSorter evaluates keys through to push the node being sorted as current node
    ctx.translate("c11_prologue")
    tr_ok, _ = ctx.translate("c16_nodesorter")
    global TRANSLATED
    TRANSLATED = tr_ok
    ctx.lean("XalanModel.Props.C16", THEOREMS, extra_targets=["xm_c16"])
    model = ctx.exe("xm_c16")
    harness = common.build_harness("c16_sort", ["c16_sort.cpp"], flavor="hooks")
    work = os.path.join(common.CACHE, "work")
    os.makedirs(work, exist_ok=True)
    if model is None:
        return
    r = Rng(ctx.seed)
    cases = corpus_cases()
    ncorpus = len(cases)
    if not ctx.thorough:
        plan = [(6000, 14), (300, 40), (12, 150)]
    else:
        plan = [(120000, 16), (6000, 60), (120, 300), (12, 3000)]
    for cnt, maxn in plan:
        for _ in range(cnt):
            cases.append(G.gen_case(r, maxn=maxn))
    # sorts that abort in the middle (key values already cached), each followed by an ordinary sort on the same transformer
    for _ in range(250 if not ctx.thorough else 5000):
        cases += G.gen_abort_pair(r)
    # second stream: arbitrary Unicode text keys, collation = what the library's ICU functor answers
    nuni = 1500 if not ctx.thorough else 30000
    for _ in range(nuni):
        cases.append(G.gen_ucase(r, maxn=14))
    if ctx.thorough:
        ex = exhaustive_cases()
        ctx.extra["exhaustive_small_scope_cases"] = len(ex)
        cases += ex
    # thorough: a sample of the cases also runs on the ASan+UBSan build of the working tree (an out-of-bounds
    # cache access need not change the order)
    asan_from = None
    harness_asan = None
    if ctx.thorough:
        os.environ.setdefault("ASAN_OPTIONS", "detect_leaks=0")   # the build's own MsgCreator tool leaks
        ctx.build("asan")
        harness_asan = common.build_harness("c16_sort", ["c16_sort.cpp"], flavor="asan")
        ra = Rng(ctx.seed + 1000)
        asan_from = len(cases)
        cases += corpus_cases()
        for cnt, maxn in [(4000, 16), (300, 60), (6, 1500)]:
            for _ in range(cnt):
                cases.append(G.gen_case(ra, maxn=maxn))
        for _ in range(1000):
            cases.append(G.gen_ucase(ra, maxn=14))
        for _ in range(400):
            cases += G.gen_abort_pair(ra)
        ctx.extra["asan_cases"] = len(cases) - asan_from
    results = []
    irc, ierr = 0, ""
    nmain = len(cases) if asan_from is None else asan_from
    for b in range(0, nmain, BATCH):
        res_b, req, (irc_b, ierr_b) = run_cases(harness, model, cases[b:min(b + BATCH, nmain)], work, "main")
        results += res_b
        if irc_b != 0:
            irc, ierr = irc_b, ierr_b
    if asan_from is not None:
        ENV["ASAN_OPTIONS"] = "detect_leaks=0:abort_on_error=0"
        ENV["UBSAN_OPTIONS"] = "print_stacktrace=1"
        for b in range(asan_from, len(cases), BATCH):
            res_b, req, (irc_b, ierr_b) = run_cases(harness_asan, model, cases[b:b + BATCH], work, "asan")
            results += res_b
            if irc_b != 0:
                irc, ierr = irc_b, ierr_b
        harness_for = lambda i: harness_asan if i >= asan_from else harness
    else:
        harness_for = lambda i: harness
    agree = True
    echo_ok = True
    coll_ok = True
    probe_ok = True
    reeval = 0
    disagreements = []
    reported = 0
    lang_hits = 0
    reenter_hits = 0
    for i, res in enumerate(results):
        case = res["case"]
        st = res["status"]
        n = len(case["rows"])
        mo = (res["model"] or "").split(" ")
        morder = mo[1] if len(mo) > 1 else ""
        ident = ",".join("%d:%d:%d" % (j, j + 1, n) for j in range(n)) or "-"
        nontriv = n >= 2 and morder != ident
        ks, nn, vals = G.abstract_fields(case)
        ctx.case(nontrivial_key=(ks + " " + vals) if nontriv else None,
                 sample={"case": G.describe(case), "impl": res.get("triples"), "model": morder} if i in (ncorpus, ncorpus + 1, ncorpus + 2) else None,
                 cls=classify(case))
        if case.get("matrix_ok", "ok") != "ok":
            coll_ok = False
            ctx.extra.setdefault("collation_not_threeway", []).append({"case": G.describe(case), "matrix": case.get("matrix"), "verdict": case.get("matrix_ok")})
        if res.get("echo_bad"):
            echo_ok = False
            ctx.extra.setdefault("echo_mismatches", []).append({"case": G.describe(case), "what": res["echo_bad"]})
        if res.get("extra_bad"):
            ctx.fail(("sort.reentrant-sorter[%s]: " % case["reenter"]["kind"] if case.get("reenter") and not case.get("abort")
                      else "sort.nested-or-param: ") + G.describe(case), res["extra_bad"],
                     {"case": case_to_json(case), "history": [], "request": G.build(case)[0]})
        if res.get("probe_bad"):
            probe_ok = False
            ctx.extra.setdefault("probe_mismatches", []).append({"case": G.describe(case), "what": res["probe_bad"]})
        reeval += res.get("reeval", 0)
        if st == "ok":
            continue
        # the shared-langString defect produces many failing cases: classify each cheaply (no shrinking after the
        # first) so that it never uses up the reporting budget of a different violation
        if st == "spec" and "pool" in case:
            eff = lang_last_wins(harness_for(i), model, case, res.get("order") or [])
            if eff is not None:
                lang_hits += 1
                if lang_hits > 1:
                    line, xml, xsl = G.build(case)
                    ctx.fail("sort.lang-last-wins[all keys collated as lang=%s]: %s" % (eff, G.describe(case)),
                             "keys with different lang attributes are all collated with the language of the last xsl:sort that has one: " + res["detail"],
                             {"case": case_to_json(case), "history": [], "xml": xml, "xsl": xsl, "request": line})
                    continue
        # re-entrant use of the shared NodeSorter (a sort key whose evaluation runs another sort): classify cheaply, shrink
        # only the first, so that it never uses up the reporting budget of a different violation
        if st in ("spec", "poslast", "error", "crash") and case.get("reenter") and not case.get("abort"):
            plain = dict(case)
            plain.pop("reenter")
            pres, _, _ = run_cases(harness_for(i), model, [plain], work, "plain")
            if pres[0]["status"] == "ok":
                reenter_hits += 1
                rep = case
                if reenter_hits == 1:
                    rep = shrink(harness_for(i), model, case, work, st)
                    if not rep.get("reenter"):
                        rep = case
                line, xml, xsl = G.build(rep)
                ctx.fail("sort.reentrant-sorter[%s]: %s" % (rep["reenter"]["kind"], G.describe(rep)),
                         "a sort key (or xsl:sort AVT) whose evaluation runs another sort (first reference to a top-level variable "
                         "whose body sorts): the inner sort re-enters the execution context's single NodeSorter; the same case "
                         "without the variable reference is sorted correctly: " + res["detail"],
                         {"case": case_to_json(rep), "history": [], "xml": xml, "xsl": xsl, "request": line})
                continue
        if reported >= 4:
            agree = agree and st not in ("model",)
            continue
        reported += 1
        if st in ("spec", "poslast", "crash", "error"):
            what = {"spec": "order produced by xsl:sort is not the stable sorted permutation",
                    "poslast": "position()/last() in the body do not reflect the sorted order",
                    "crash": "transformer crashed / harness stopped while sorting",
                    "error": "transformation with xsl:sort failed"}[st]
            b0 = (i // BATCH) * BATCH
            hz = harness_for(i)
            bend = min(b0 + BATCH, nmain)
            if asan_from is not None and i >= asan_from:
                b0 = asan_from + ((i - asan_from) // BATCH) * BATCH
            hist = find_history(hz, model, cases[b0:i + 1], i - b0, work, st)
            if hist == []:
                small = shrink(hz, model, case, work, st)
                sres, _, _ = run_cases(hz, model, [small], work, "shrunk")
                sr = sres[0]
                key = "sort.%s%s: %s" % (st, ".asan" if hz is harness_asan else "", G.describe(small))
                if st == "spec":
                    eff = lang_last_wins(hz, model, small, sr.get("order") or [])
                    if eff is not None:
                        key = "sort.lang-last-wins[all keys collated as lang=%s]: %s" % (eff, G.describe(small))
                        what = ("keys with different lang attributes: every key is collated with the language of the LAST "
                                "xsl:sort that has one (NodeSortKey keeps a pointer to sortChildren's shared langString)")
                line, xml, xsl = G.build(small)
                ctx.fail(key, "%s: %s | impl %s | model %s" % (what, sr["detail"] or res["detail"], sr.get("triples"), (sr["model"] or "")[:200]),
                         {"case": case_to_json(small), "history": [], "xml": xml, "xsl": xsl, "request": line})
            else:
                key = "sort.%s.after-%s-earlier-sorts: %s" % (st, "?" if hist is None else len(hist), G.describe(case))
                line, xml, xsl = G.build(case)
                ctx.fail(key, "%s (only after earlier sorts by the same transformer: state carried over between sorts): %s | impl %s | model %s"
                         % (what, res["detail"], res.get("triples"), (res["model"] or "")[:200]),
                         {"case": case_to_json(case), "history": [case_to_json(h) for h in (hist or cases[b0:i])],
                          "xml": xml, "xsl": xsl, "request": line})
        elif st == "model":
            agree = False
            small = shrink(harness, model, case, work, "model")
            disagreements.append({"case": G.describe(small), "detail": res["detail"]})
    ctx.extra["model_disagreements"] = disagreements[:5]
    ctx.oblige("correspondence: processing order + position()/last() of the real transformer = Lean model on every generated case",
               "correspondence", agree, json.dumps(disagreements[:2]))
    ctx.oblige("generator assumptions: key values echoed by the processor are the values handed to the model",
               "correspondence", echo_ok, json.dumps(ctx.extra.get("echo_mismatches", [])[:2]))
    ctx.oblige("collation hypothesis (CollationOK): the ICU functor's answers on every sampled string table form a three-way total preorder",
               "correspondence", coll_ok, json.dumps(ctx.extra.get("collation_not_threeway", [])[:2]))
    ctx.oblige("cache model: cacheable key values are evaluated at most once per sort (probe extension function)",
               "correspondence", probe_ok, json.dumps(ctx.extra.get("probe_mismatches", [])[:2]))
    ctx.extra["sentinel_or_empty_values_reevaluated"] = reeval
    if irc != 0 and not any(x["status"] == "crash" for x in results):
        ctx.oblige("harness exits cleanly", "correspondence", False, ierr[-1500:])
    ctx.exhaustive = False


def replay(ctx, path):
    d = json.load(open(path))
    first = d.get("first")
    if not first:
        print("no concrete input in", path)
        return 1
    ctx.build("hooks")
    common.lake_build(["xm_c16"])
    model = ctx.exe("xm_c16")
    harness = common.build_harness("c16_sort", ["c16_sort.cpp"], flavor="hooks")
    if ".asan" in first.get("key", ""):
        os.environ.setdefault("ASAN_OPTIONS", "detect_leaks=0")
        ctx.build("asan")
        harness = common.build_harness("c16_sort", ["c16_sort.cpp"], flavor="asan")
        ENV["ASAN_OPTIONS"] = "detect_leaks=0:abort_on_error=0"
    work = os.path.join(common.CACHE, "work")
    os.makedirs(work, exist_ok=True)
    def load(c):
        c["rows"] = [[(v[0], tuple(v[1]) if isinstance(v[1], list) else v[1]) + ((float(v[2]),) if v[0] == "n" else ())
                      for v in row] for row in c["rows"]]
        return c
    first["input"]["case"].pop("matrix", None)
    for h in first["input"].get("history", []):
        h.pop("matrix", None)
    case = load(first["input"]["case"])
    hist = [load(h) for h in first["input"].get("history", [])]
    res, _, _ = run_cases(harness, model, hist + [case], work, "replay")
    r = res[-1]
    print("history:", len(hist), "earlier sort(s) by the same transformer")
    print("case   :", G.describe(case))
    print("impl   :", r["impl"])
    print("model  :", r["model"])
    print("verdict:", r.get("verdict"), "| status:", r["status"], r["detail"])
    return 0 if r["status"] == "ok" else 1
