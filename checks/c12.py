"""C12 — node-sets are duplicate-free sets in one consistent document order (DESIGN.md §5 C12).

proof:          lean/XalanModel/Props/C12.lean over lean/XalanModel/C12/{Tree,NodeList}.lean (hand transcription of
                MutableNodeRefList.cpp, DOMServices::isNodeAfter/isNodeAfterSibling, XPath::Union)
correspondence: harness/c12_nodelist.cpp (real library: XalanSourceTree, Xerces wrapper indexed / not indexed,
                MutableNodeRefList public API, XPathEvaluator unions) vs lean/Driver/C12.lean, same request stream;
                plus the specification predicate (document-ordered set; order = pre-order of the structural walk)
                evaluated here, independently of the model, on every implementation reply.
"""
import importlib.util
import json
import os

from vlib import common
from vlib.common import Rng

CLAIMED = True
LEVEL = "proof"
TECHNIQUE = ("Lean 4 proofs (induction over insertion histories, over the steps of a location path and over trees; loop invariant of "
             "the binary search; refinement of the structural comparison to the index order) about a hand transcription of "
             "MutableNodeRefList.cpp, DOMServices::isNodeAfter/isNodeAfterSibling, XPath::Union, the merging part of XPath::step "
             "and the 13 axis walks of XPath.cpp, tied to the working tree by a translator obligation on the loop skeletons of the "
             "walks and a lock-step correspondence run (real library vs compiled Lean model, same "
             "request stream, three document representations) plus a model-independent oracle on every implementation reply "
             "and a stylesheet-level oracle stage through the Xalan CLI")
LEVEL_TEXT = ("Machine-checked for all inputs: (1) document order from the pre-order walk is a strict total order and coincides "
              "with the structural order of the Recommendation (index order = structure order); (2) the structural parent-chain "
              "comparison of DOMServices::isNodeAfter equals index comparison for every tree and node pair; (3) addNodeInDocOrder "
              "keeps a list a duplicate-free document-ordered set holding exactly the inserted nodes, for every insertion history, "
              "all three search strategies and both indexed and non-indexed documents; histories with the same node set end in the "
              "same list; (4) several documents: lists stay grouped by document (never interleaved, no duplicate) for every history "
              "of inserts of any nodes; (5) XPath::Union is the document-ordered union and is commutative, associative and idempotent "
              "as list equalities; reverse/clearNulls/flag-trusting merge preserve order and flag; (6) every location path over the "
              "13 axes — each evaluated by its transcribed C++ walk, the walks of descendant/following/preceding/namespace proved "
              "to deliver exactly the Recommendation's definition for every tree and context node — with arbitrary predicates "
              "delivers a duplicate-free document-ordered set flagged document order (induction over the steps; step merging and "
              "reverse-axis handling as in XPath::step); positional predicates on reverse axes count from the end of the "
              "document-ordered list. The behaviours of the code before the five "
              "repairs found by this check are kept as partial theorems / counterexamples. The model is tied to the working tree by "
              "replaying generated documents, isNodeAfter matrices, MutableNodeRefList histories, XPath unions and EXSLT set "
              "identities on the real library and the compiled model, and by a stylesheet stage (key(), id(), document(), "
              "result-tree fragments, EXSLT set functions) checked against exact oracles.")
LEVEL_NOTE = ("Trusted: Lean kernel (leanchecker in the thorough tier); axioms propext/Classical.choice/Quot.sound only; the hand "
              "transcription, validated by the correspondence run (bounded by generator coverage, measured in the evidence); "
              "pointers abstracted to (document, pre-order position), parent-pointer walks to path operations. Five axes "
              "(descendant, descendant-or-self, following, preceding, namespace) and the predicate evaluator enter the path theorem "
              "through their definition / as an arbitrary sub-list, not as transcriptions of the C++ walks; those walks, result-tree-"
              "fragment construction, key()/id()/document() and the EXSLT implementations are exercised only by the oracle stages. "
              "Known findings: C12-rtf-nested-interleave (fragments whose construction overlaps interleave by index); temporary: "
              "C12-wrapper-attr-children (fix proposed).")
DESIGN_REF = "DESIGN.md section 5, C12; design/C12.md"

THEOREMS = [
    "XalanModel.Props.C12.docOrder_strictTotal",
    "XalanModel.Props.C12.structural_eq_index",
    "XalanModel.Props.C12.structural_asWritten_partial",
    "XalanModel.Props.C12.nonIndexed_insertionHistory_sortedSet",
    "XalanModel.Props.C12.structural_asWritten_counterexample",
    "XalanModel.Props.C12.addNodeInDocOrder_sortedSet",
    "XalanModel.Props.C12.insertionHistory_sortedSet",
    "XalanModel.Props.C12.insertionHistory_canonical",
    "XalanModel.Props.C12.union_spec",
    "XalanModel.Props.C12.union_comm",
    "XalanModel.Props.C12.union_assoc",
    "XalanModel.Props.C12.union_idem",
    "XalanModel.Props.C12.clearNulls_reverse_preserve",
    "XalanModel.Props.C12.multiDoc_lastGroup_partial",
    "XalanModel.Props.C12.multiDoc_grouped",
    "XalanModel.Props.C12.multiDoc_history_grouped",
    "XalanModel.Props.C12.step_merge_sortedSet",
    "XalanModel.Props.C12.step_reverseAxis",
    "XalanModel.Props.C12.locationPath_sortedSet",
    "XalanModel.Props.C12.axes_sorted",
    "XalanModel.Props.C12.steps_sorted",
    "XalanModel.Props.C12.walk_descendant_eq_def",
    "XalanModel.Props.C12.walk_descendantOrSelf_eq_def",
    "XalanModel.Props.C12.walk_following_eq_def",
    "XalanModel.Props.C12.walk_preceding_eq_def",
    "XalanModel.Props.C12.walk_namespace_eq_def",
    "XalanModel.Props.C12.walkShapes_unchanged",
    "XalanModel.Props.C12.buildersFlushBeforeCreate",
    "XalanModel.Props.C12.wrapperNodesAreMapped",
    "XalanModel.Props.C12.reverseAxes",
    "XalanModel.Props.C12.reverseAxis_position",
    "XalanModel.Props.C12.treeLocationPath_sortedSet",
    "XalanModel.Props.C12.multiDoc_interleave_counterexample",
    "XalanModel.Props.C12.multiDoc_duplicate_counterexample",
    "XalanModel.Props.C12.docNode_appended_counterexample",
]

AXES = ["child", "attribute", "parent", "ancestor", "following-sibling", "preceding-sibling", "self", "ancestor-or-self",
        "descendant", "descendant-or-self", "following", "preceding", "namespace"]

_g = None


def gen():
    global _g
    if _g is None:
        p = os.path.join(common.ROOT, "gen", "c12_gen.py")
        spec = importlib.util.spec_from_file_location("c12_gen", p)
        _g = importlib.util.module_from_spec(spec)
        spec.loader.exec_module(_g)
    return _g


# ---------------------------------------------------------------------------------------------
# specification predicates (independent of the Lean model)

def parse_nodes(words):
    out = []
    for w in words:
        if w == "0":
            out.append(None)
        else:
            d, i = w[1:].split(".")
            out.append((int(d), int(i)))
    return out


def parse_list_reply(line):
    """'d : d0.1 d0.2' -> ('d', [(0,1),(0,2)]) ; None when the reply is not a list"""
    if len(line) < 3 or line[0] not in "udr" or line[1:3] != " :":
        return None
    try:
        return line[0], parse_nodes(line[3:].split())
    except ValueError:
        return None


def is_docordered(nodes):
    """the property: no nulls, no duplicates, nodes of one document contiguous, ascending pre-order inside a document"""
    seen_docs = []
    last = None
    for n in nodes:
        if n is None:
            return False
        if last is not None and n[0] == last[0]:
            if not n[1] > last[1]:
                return False
        else:
            if n[0] in seen_docs:
                return False
            seen_docs.append(n[0])
        last = n
    return True


def ancestors(parents, i):
    out = []
    while i > 0:
        i = parents[i]
        out.append(i)
    return out


class Oracle:
    """evaluates the property on the implementation's replies of one session"""

    def __init__(self, rep, variant):
        self.rep = rep
        self.variant = variant
        self.docs = {}          # id -> (shape, kinds, parents)
        self.lists = {}         # list id -> (flag, nodes) as last replied by the implementation
        self.problems = []      # (key-class, text)

    def related(self, a, b):
        """a, b nodes of one document, one an ancestor of the other (attributes count as children)"""
        if a is None or b is None or a[0] != b[0] or a[0] not in self.docs:
            return False
        par = self.docs[a[0]][2]
        return a[1] in ancestors(par, b[1]) or b[1] in ancestors(par, a[1])

    def classify(self, nodes_involved, result=None, docnode_trigger=False):
        """key class of a failed expectation (matched against known_findings.json).  The classes of the listed
        findings are kept narrow: a failure is only attributed to them when the delivered list shows nothing else."""
        ns = [n for n in nodes_involved if n is not None]
        res = [n for n in (result or []) if n is not None]
        if self.rep == "N" and self.variant.startswith("asis") and any(
                self.related(a, b) for i, a in enumerate(ns) for b in ns[i + 1:] if a[1] != 0 and b[1] != 0):
            return "structural.ancestor-descendant"
        def nondecreasing_without_docnodes(seq):
            for d in set(n[0] for n in seq):
                proj = [n[1] for n in seq if n[0] == d and n[1] != 0]
                if any(a > b for a, b in zip(proj, proj[1:])):
                    return False
            return True
        if len(set(n[0] for n in ns)) > 1:
            # interleaving / duplicates only (every per-document projection, document nodes aside, is still
            # non-decreasing), or additionally a document node merged into a non-empty list
            return "multi-document" if (nondecreasing_without_docnodes(res) or docnode_trigger) else "order"
        if any(n[1] == 0 for n in ns):
            # a document node was merged into a non-empty list (everything merged after it lands behind it), or
            # nothing is wrong except where the document node sits
            return "docnode-appended" if (docnode_trigger or nondecreasing_without_docnodes(res)) else "order"
        return "order"

    def truthful(self, flag, nodes):
        if flag == "u":
            return True
        if flag == "d":
            return is_docordered(nodes)
        return is_docordered(list(reversed(nodes)))

    def check(self, req, reply):
        """returns None or (class, what) for a property violation on this reply"""
        t = req.split()
        op = t[0]
        if op in ("after",):
            a, b = parse_nodes(t[1:3])
            if reply in ("0", "1"):
                want = "1" if a[1] > b[1] else "0"
                if reply != want:
                    return (self.classify([a, b]) if self.related(a, b) else "isNodeAfter",
                            "isNodeAfter(%s,%s)=%s, pre-order says %s" % (t[1], t[2], reply, want))
            return None
        if op == "afterall":
            d = int(t[1])
            n = len(self.docs[d][1])
            if reply == "-" or len(reply) != (n - 1) * (n - 1):
                return None
            bad_rel, bad_other = [], []
            k = 0
            for a in range(1, n):
                for b in range(1, n):
                    want = "1" if a > b else "0"
                    if reply[k] != want:
                        (bad_rel if self.related((d, a), (d, b)) else bad_other).append((a, b, reply[k]))
                    k += 1
            if bad_other:
                a, b, got = bad_other[0]
                return ("isNodeAfter", "rep=%s doc=%s isNodeAfter(%d,%d)=%s but pre-order says %s (%d wrong pairs)" % (
                    self.rep, self.docs[d][0], a, b, got, "1" if a > b else "0", len(bad_other) + len(bad_rel)))
            if bad_rel:
                a, b, got = bad_rel[0]
                return ("structural.ancestor-descendant" if self.rep == "N" else "isNodeAfter",
                        "rep=%s doc=%s isNodeAfter(%d,%d)=%s for an ancestor/descendant pair (%d such pairs wrong)" % (
                            self.rep, self.docs[d][0], a, b, got, len(bad_rel)))
            return None
        if op in ("identity", "nodesets"):
            if not reply.startswith(op + " ok"):
                return ("identity", "rep=%s %s -> %s" % (self.rep, req, reply))
            if "docLastChild=BAD" in reply:
                return ("document-lastchild", "rep=%s %s: the document node's getLastChild() is not its last child: %s" % (self.rep, req, reply))
            return None
        if op == "xmldoc":
            return None if reply.startswith("xmldoc n=") else ("xmldoc", "%s -> %s" % (req[:60], reply))
        if op == "build":
            if not reply.startswith("built "):
                return None if reply.startswith("ERR") else ("build-reply", "%s -> %s" % (req, reply))
            if "idx=preorder" not in reply:
                return ("index-order", "the tree built from events %s (builder %s) is not numbered in pre-order: %s" % (t[3], t[2], reply))
            kinds, parents = gen().expected_built(t[2], t[3])
            parts = dict(p.split("=", 1) for p in reply.split()[1:] if "=" in p)
            if parts.get("kinds") != kinds or parts.get("parents", "") != ",".join(str(x) for x in parents[1:]):
                return ("built-shape", "events %s (builder %s) built %s, expected kinds=%s parents=%s" % (
                    t[3], t[2], reply, kinds, ",".join(str(x) for x in parents[1:])))
            return None
        if op in ("axis", "axisp"):
            if "?" in reply.split():
                # a node that the structural walk of the document never reaches
                a, = parse_nodes(t[1:2])
                kind = self.docs[a[0]][1][a[1]] if a[0] in self.docs else "?"
                if self.rep == "N" and kind == "a" and t[2] in ("child", "descendant", "descendant-or-self"):
                    return ("wrapper-attr-children", "%s from attribute %s delivered %s" % (t[2], t[1], reply))
                return ("axis-foreign-node", "%s from %s delivered %s" % (t[2], t[1], reply))
            r = parse_list_reply(reply)
            if r is not None and not is_docordered(r[1]):
                return (self.classify(r[1], r[1]), "step %s::node() from %s delivered %s" % (t[2], t[1], reply))
            return None
        if op in ("xp", "xpu"):
            r = parse_list_reply(reply)
            if r is None:
                return None
            nodes = r[1]
            if op == "xp":
                if not is_docordered(nodes):
                    return (self.classify(nodes, nodes, any(n is not None and n[1] == 0 for n in nodes[1:])),
                            "select %s from %s delivered %s" % (t[2], t[1], reply))
                return None
            # union: operands after ';'
            parts = req.split(" ; ")[1:]
            operands = [parse_nodes(p.split()) for p in parts]
            if not all(is_docordered(o) for o in operands):
                return None     # garbage in (already reported on the operand itself)
            want = sorted(set(n for o in operands for n in o))
            if nodes != want:
                trig = any(n[1] == 0 for k, o in enumerate(operands) for n in o if any(operands[:k]))
                return (self.classify(want, nodes, trig), "union %s from %s delivered %s, expected %s" % (
                    t[2], t[1], reply, " ".join("d%d.%d" % n for n in want)))
            return None
        # list operations
        r = parse_list_reply(reply)
        if r is None:
            return None
        li = int(t[1])
        old = self.lists.get(li, ("u", []))
        flag, nodes = r
        res = None
        if op == "addo":
            n = parse_nodes([t[2]])[0]
            if is_docordered(old[1]):
                if n in old[1]:
                    ok = nodes == old[1]
                else:
                    rest = [x for x in nodes if x != n]
                    ok = rest == old[1] and len(nodes) == len(old[1]) + 1 and is_docordered(nodes)
                if not ok:
                    res = (self.classify(old[1] + [n], nodes, n[1] == 0 and bool(old[1])), "list %s + addNodeInDocOrder(%s) -> %s" % (
                        fmt(old[1]), t[2], fmt(nodes)))
        elif op in ("addso", "addsb", "addsx"):
            src = self.lists.get(int(t[2]), ("u", []))
            src_ok = is_docordered(src[1]) if op != "addso" else (
                self.truthful(src[0], src[1]) and is_docordered(src[1] if src[0] != "r" else list(reversed(src[1]))))
            if op == "addso" and src[0] == "u":
                src_ok = is_docordered(src[1])
            if is_docordered(old[1]) and src_ok:
                want = set(old[1]) | set(src[1])
                ok = is_docordered(nodes) and set(nodes) == want and len(nodes) == len(want)
                if not ok:
                    res = (self.classify(old[1] + src[1], nodes, bool(old[1]) and any(x[1] == 0 for x in src[1])),
                           "list %s + %s(%s %s) -> %s" % (
                        fmt(old[1]), op, src[0], fmt(src[1]), fmt(nodes)))
        # claimed order flag must be truthful whenever the history only used order-preserving operations
        self.lists[li] = (flag, nodes)
        if op == "swap":
            lj = int(t[2])
            self.lists[lj] = old
        return res


def fmt(nodes):
    return "[" + " ".join("0" if n is None else "d%d.%d" % n for n in nodes) + "]"


# ---------------------------------------------------------------------------------------------
# running streams

class Harness:
    def __init__(self, ctx, impl, model, work):
        self.ctx = ctx
        self.impl = impl
        self.model = model
        self.work = work

    def run(self, lines, tag):
        req = os.path.join(self.work, "c12_%s.req" % tag)
        with open(req, "w") as f:
            f.write("\n".join(lines) + "\n")
        il, ml, irc, mrc, ierr, merr = common.run_pair([self.impl], [self.model], req)
        return il, ml, irc, mrc, ierr, merr

    def run_impl(self, lines, tag):
        req = os.path.join(self.work, "c12_%s.req" % tag)
        with open(req, "w") as f:
            f.write("\n".join(lines) + "\n")
        rc, out = common.sh("%s < %s 2>/dev/null" % (self.impl, req))
        return out.split("\n")[:-1] if out.endswith("\n") else out.split("\n"), rc


def canon_doc_reply(line):
    """implementation 'doc …' reply -> (comparable part, kinds, owners)"""
    parts = dict(p.split("=", 1) for p in line.split()[1:] if "=" in p)
    return "doc n=%s idx=%s parents=%s" % (parts.get("n"), parts.get("idx"), parts.get("parents", "")), parts.get("kinds"), parts.get("owners")


def probe_variant(h):
    """which of the two behaviours with a proposed repair does the tree under test have?
    -> (edge, docnode, raw replies): edge 'asis'|'fixed'|'other' for the ancestor/descendant edge of
    DOMServices::isNodeAfter (structural branch); docnode 'doclast'|'docfirst'|'other' for addNodeInDocOrder(document node)"""
    lines = ["session N", "doc 0 e0(e0())", "after d0.1 d0.2", "after d0.2 d0.1",
             "session S", "doc 0 e0(e0())", "new 0", "addo 0 d0.2", "addo 0 d0.0",
             "doc 1 e0(e0())", "new 1", "addo 1 d0.1", "addo 1 d1.1", "addo 1 d0.2"]
    il, rc = h.run_impl(lines, "probe")
    if len(il) < 14:
        return None, None, il
    edge = "asis" if (il[2], il[3]) == ("1", "0") else "fixed" if (il[2], il[3]) == ("0", "1") else "other"
    dn = "doclast" if il[8] == "u : d0.2 d0.0" else "docfirst" if il[8] == "u : d0.0 d0.2" else "other"
    # does executionContext.isNodeAfter survive a document node on a non-indexed document (EXSLT set:trailing passes one)?
    il2, rc2 = h.run_impl(["session N", "doc 0 e0(e0())", "xp d0.1 set:trailing(//e/..,//e/..)"], "probe2")
    h.docnode_after_crashes = (rc2 != 0 or len(il2) < 3)
    grp = "nogroups" if il[13] == "u : d0.1 d1.1 d0.2" else "groups" if il[13] == "u : d0.1 d0.2 d1.1" else "other"
    return edge, dn + " " + grp, il


class Session:
    """request lines of one session, split in header (session + docs) and cases (each a list of lines)"""
    def __init__(self, rep, shapes):
        self.rep = rep
        self.shapes = shapes            # {doc id: shape}
        self.cases = []                 # (kind, [lines])

    def header(self):
        return ["session " + self.rep] + ["doc %d %s" % (d, s) for d, s in sorted(self.shapes.items())]


def make_sessions(r, nsessions, maxnodes, nhist, maxops, nxp, avoid_lt_on_n=False):
    g = gen()
    out = []
    for si in range(nsessions):
        rep = r.weighted([("S", 4), ("W", 3), ("N", 3)])
        ndocs = r.weighted([(1, 5), (2, 4), (3, 1)])
        shapes = {d: g.gen_shape(r, r.range(3, maxnodes)) for d in range(ndocs)}
        s = Session(rep, shapes)
        sizes = {d: len(g.parse_shape(sh, rep)[0]) for d, sh in shapes.items()}
        for d in shapes:
            s.cases.append(("afterall", ["afterall %d" % d]))
            # node identity: every node reached by several navigation routes is ONE object; whole-document node-sets are sets
            s.cases.append(("identity", ["identity %d" % d, "nodesets %d" % d]))
        for k in range(2):
            xml = g.gen_rich_xml(r, r.range(4, 14))
            flags = " r" if (rep != "S" and r.chance(1, 2)) else ""
            s.cases.append(("identity", ["xmldoc %d %s%s" % (200 + k, xml.encode().hex(), flags), "identity %d" % (200 + k),
                                         "nodesets %d" % (200 + k)]))
        # one location step per axis from context nodes of every kind (document, element, attribute, namespace
        # declaration, text, comment, PI): the transcribed walks against the real axis functions
        for d in (shapes if (nsessions <= 2000 or si % 3 == 0) else []):      # thorough tier: every third session
            n = sizes[d]
            ctxs = list(range(n)) if n <= 12 else sorted(set([0, 1] + [r.below(n) for _ in range(10)]))
            for cn in ctxs:
                s.cases.append(("axis", ["axis d%d.%d %s" % (d, cn, a) for a in AXES]))
                if r.chance(1, 3):
                    s.cases.append(("axis", ["axisp d%d.%d %s %d" % (d, cn, a, r.range(1, 3)) for a in AXES]))
        if rep == "S":
            # trees the processor builds itself: index order must be the structural pre-order on the real tree
            for k in range(6):
                mode = r.choice("FFFDB")
                s.cases.append(("build", ["build %d %s %s" % (100 + k, mode, g.gen_events(r, mode, r.range(2, 14)))]))
        for _ in range(nhist):
            style = "pure" if r.chance(3, 5) else "wild"
            s.cases.append(("hist-" + style, g.gen_history(r, sizes, maxops, style)))
        for _ in range(nxp):
            d = r.choice(sorted(shapes))
            ctxn = "d%d.%d" % (d, r.below(sizes[d]))
            a, b, c, forms = g.gen_union_shapes(r)
            if avoid_lt_on_n and rep == "N" and any("set:leading" in e or "set:trailing" in e for e in (a, b, c)):
                continue        # would kill the harness (known finding C12-isnodeafter-docnode-crash); see run()
            s.cases.append(("xp", ["xp %s %s" % (ctxn, e) for e in (a, b, c)] + ["#forms " + json.dumps([ctxn, forms])]))
        if r.chance(1, 2):
            d = r.choice(sorted(shapes))
            ctxn = "d%d.%d" % (d, r.below(sizes[d]))
            lines_ = []
            for x, y in g.gen_identities(r):
                if avoid_lt_on_n and rep == "N" and ("set:leading" in x + y or "set:trailing" in x + y):
                    continue
                lines_ += ["xp %s %s" % (ctxn, x), "xp %s %s" % (ctxn, y)]
            s.cases.append(("ident", lines_))
        out.append(s)
    return out


def corpus_sessions():
    """minimised past failures and the DESIGN §6 witnesses; run first (files gen/corpus/c12/*.req: one session each,
    `session`/`doc` lines then one history; plus the union witnesses below)"""
    out = []
    cdir = os.path.join(common.ROOT, "gen", "corpus", "c12")
    for f in sorted(os.listdir(cdir)) if os.path.isdir(cdir) else []:
        if not f.endswith(".req"):
            continue
        ls = [x.strip() for x in open(os.path.join(cdir, f)) if x.strip() and not x.startswith("#")]
        rep = ls[0].split()[1]
        shapes = {int(x.split()[1]): x.split()[2] for x in ls if x.startswith("doc ")}
        s = Session(rep, shapes)
        s.cases.append(("hist-corpus", [x for x in ls if not (x.startswith("session ") or x.startswith("doc "))]))
        out.append(s)
    s = Session("S", {0: "e0(e0()e0()e0()e0())", 1: "e0(e0())"})
    # §6 item 7: interleaving [a1,b1]+a2 and duplicate via binary search on a mixed list
    s.cases.append(("hist-corpus", ["new 0", "addo 0 d0.3", "addo 0 d1.2", "addo 0 d0.4"]))
    s.cases.append(("hist-corpus", ["new 0", "addo 0 d0.3", "addo 0 d1.2", "addo 0 d0.5", "addo 0 d0.3"]))
    # document node appended after its own descendants
    s.cases.append(("hist-corpus", ["new 0", "addo 0 d0.3", "addo 0 d0.0"]))
    s.cases.append(("xp", ["xp d0.0 //e", "xp d0.0 /.", "xp d0.0 //e[2]", "#forms " + json.dumps(["d0.0", [["//e", "/."], ["/.", "//e"], ["//e[2]", "//e", "//e[2]"]]])]))
    out.append(s)
    # seen by build-C17 through the CLI: union of reverse axes where the later operand contains the root node
    s = Session("S", {0: "e0(e0(e0())e0()e1(te1(e0(tpe0()e0())e0(e1()))c))"})
    s.cases.append(("xp", ["xp d0.19 preceding::node()", "xp d0.19 ancestor::node()", "xp d0.19 ancestor::*", "#forms " + json.dumps(
        ["d0.19", [["preceding::node()", "ancestor::node()"], ["ancestor::node()", "preceding::node()"], ["preceding::node()", "ancestor::*"]]])]))
    out.append(s)
    # every event sequence of up to 3 events through the three ways the processor builds a source tree itself
    s = Session("S", {})
    k = 100
    for ev in gen().all_event_seqs(3):
        s.cases.append(("build", ["build %d F %s" % (k, ev)])); k += 1
        s.cases.append(("build", ["build %d D s0%sx" % (k, ev)])); k += 1
        if "d" not in ev and "r" not in ev:
            s.cases.append(("build", ["build %d B cs1%sxp" % (k, ev)])); k += 1
    out.append(s)
    for rep in ("W", "N"):
        s = Session(rep, {0: "ce2(te1(t)c)p", 1: "e0(e0()e0())"})
        s.cases.append(("afterall", ["afterall 0"]))
        s.cases.append(("afterall", ["afterall 1"]))
        # §6 item 6: ancestor after descendant
        s.cases.append(("hist-corpus", ["new 0", "addo 0 d0.6", "addo 0 d0.2", "addo 0 d0.3", "addo 0 d0.8"]))
        s.cases.append(("hist-corpus", ["new 0", "new 1", "addo 1 d0.7", "addo 1 d0.4", "order 1 d", "reverse 1", "addso 0 1", "addo 0 d0.5",
                                         "setnull 0 1", "clearnulls 0", "reverse 0"]))
        s.cases.append(("xp", ["xp d0.0 //e", "xp d0.0 //@*", "xp d0.6 ancestor::*", "#forms " + json.dumps(["d0.6", [["//e", "//@*"], ["//@*", "//e"], ["ancestor::*", "//e", "//@*"]]])]))
        out.append(s)
    return out


def build_stream(sessions, variant):
    """-> (lines, owner) where owner[i] = (session index, case index or -1 for header)"""
    lines = ["variant " + variant]
    owner = [(-1, -1)]
    for si, s in enumerate(sessions):
        for l in s.header():
            lines.append(l); owner.append((si, -1))
        for ci, (kind, cl) in enumerate(s.cases):
            for l in cl:
                if l.startswith("#"):
                    continue
                lines.append(l); owner.append((si, ci))
    return lines, owner


def union_stage(sessions, lines, owner, il):
    """second stream: the union forms of every 'xp' case, with operand values taken from the implementation's
    own answers to the operand queries of the first stream"""
    # collect operand replies per (session, case)
    vals = {}
    for idx, l in enumerate(lines):
        if l.startswith("xp ") and idx < len(il):
            t = l.split()
            vals.setdefault(owner[idx], {})[t[2]] = il[idx]
    out = []
    for si, s in enumerate(sessions):
        s2 = Session(s.rep, s.shapes)
        for ci, (kind, cl) in enumerate(s.cases):
            if kind != "xp":
                continue
            meta = [l for l in cl if l.startswith("#forms ")]
            if not meta:
                continue
            ctxn, forms = json.loads(meta[0][7:])
            v = vals.get((si, ci), {})
            for form in forms:
                ops = []
                okf = True
                for e in form:
                    r = parse_list_reply(v.get(e, ""))
                    if r is None:
                        okf = False
                        break
                    ops.append(" ".join("d%d.%d" % n for n in r[1]))
                if not okf:
                    continue
                s2.cases.append(("xpu", ["xpu %s %s ; %s" % (ctxn, "|".join(form), " ; ".join(ops))]))
        if s2.cases:
            out.append(s2)
    return out


def evaluate(ctx, h, sessions, variant, tag, record_cases=True):
    """run one stream; returns (agree, disagreements, violations)
    disagreement: dict(session, case lines, impl, model); violation: dict(cls, what, session, case lines)"""
    lines, owner = build_stream(sessions, variant)
    il, ml, irc, mrc, ierr, merr = h.run(lines, tag)
    dis, vio = [], []
    if irc != 0 or len(il) != len(lines):
        # crash: find the line
        k = len(il)
        si, ci = owner[min(k, len(owner) - 1)]
        s = sessions[si] if si >= 0 else None
        vio.append({"cls": "crash", "what": "harness stopped at request %r (rc=%s): %s" % (lines[min(k, len(lines) - 1)], irc, ierr[-600:]),
                    "lines": (s.header() + (s.cases[ci][1] if ci >= 0 else [])) if s else lines[:k + 1]})
        return il, ml, lines, owner, dis, vio
    oracles = {}
    seen_bad_case = set()
    for idx, l in enumerate(lines):
        si, ci = owner[idx]
        if si < 0:
            continue
        s = sessions[si]
        if si not in oracles:
            oracles[si] = Oracle(s.rep, variant)
        o = oracles[si]
        iv = il[idx]
        mv = ml[idx] if idx < len(ml) else "<model stopped: %s>" % merr[-200:]
        if l.startswith("doc "):
            t = l.split()
            d = int(t[1])
            kinds, parents = gen().parse_shape(t[2], s.rep)
            o.docs[d] = (t[2], kinds, parents)
            if iv.startswith("doc "):
                comp, ikinds, owners = canon_doc_reply(iv)
                want = "doc n=%d idx=%s parents=%s" % (len(kinds), "none" if s.rep == "N" else "exact", ",".join(str(p) for p in parents[1:]))
                if "idx=disorder" in iv or "idx=mono" in iv or "idx=partial" in iv:
                    vio.append({"cls": "index-order", "what": "stored indexes do not number the structural pre-order walk: " + iv,
                                "lines": ["session " + s.rep, l]})
                elif comp != want or ikinds != kinds or owners != "ok":
                    dis.append({"lines": ["session " + s.rep, l], "impl": iv, "model": "expected by generator: %s kinds=%s" % (want, kinds)})
                if comp != mv:
                    dis.append({"lines": ["session " + s.rep, l], "impl": iv, "model": mv})
            else:
                dis.append({"lines": ["session " + s.rep, l], "impl": iv, "model": mv})
            continue
        if l.startswith("session "):
            if iv != mv:
                dis.append({"lines": [l], "impl": iv, "model": mv})
            continue
        # the property on the implementation's reply
        bad = o.check(l, iv)
        # model vs implementation ("-" = not modelled: operand queries); a reply on which the implementation itself
        # violates the property is reported as that, not as a disagreement with the model
        if mv != "-" and iv != mv and (si, ci) not in seen_bad_case and not (bad is not None and l.startswith("axis")):
            seen_bad_case.add((si, ci))
            dis.append({"lines": s.header() + [x for x in s.cases[ci][1] if not x.startswith("#")], "impl": iv, "model": mv, "at": l})
        if bad is not None:
            vio.append({"cls": bad[0], "what": "rep=%s %s" % (s.rep, bad[1]), "at": l,
                        "lines": s.header() + [x for x in s.cases[ci][1] if not x.startswith("#")]})
    return il, ml, lines, owner, dis, vio


def shrink_lines(h, variant, header, case, pred):
    """greedy deletion of case lines (then of unused documents) while pred(lines) holds"""
    cur = list(case)
    changed = True
    rounds = 0
    while changed and rounds < 400:
        changed = False
        for k in range(len(cur) - 1, -1, -1):
            cand = cur[:k] + cur[k + 1:]
            rounds += 1
            if pred(header + cand):
                cur = cand
                changed = True
    return header + cur


def still_violates(h, variant, cls):
    def pred(lines):
        rep = lines[0].split()[1]
        s = Session(rep, {})
        s.header = lambda: [x for x in lines if x.startswith("session ") or x.startswith("doc ")]
        s.cases = [("shrink", [x for x in lines if not (x.startswith("session ") or x.startswith("doc "))])]
        il, ml, ls, ow, dis, vio = evaluate(None, h, [s], variant, "shrink")
        return any(v["cls"] == cls for v in vio)
    return pred


def still_disagrees(h, variant):
    def pred(lines):
        rep = lines[0].split()[1]
        s = Session(rep, {})
        s.header = lambda: [x for x in lines if x.startswith("session ") or x.startswith("doc ")]
        s.cases = [("shrink", [x for x in lines if not (x.startswith("session ") or x.startswith("doc "))])]
        il, ml, ls, ow, dis, vio = evaluate(None, h, [s], variant, "shrink")
        return bool(dis)
    return pred


def split_header(lines):
    header = [x for x in lines if x.startswith("session ") or x.startswith("doc ")]
    case = [x for x in lines if not (x.startswith("session ") or x.startswith("doc "))]
    return header, case


def exhaustive_sessions(maxnodes, nperm):
    """small scope: every document shape up to `maxnodes` nodes, on every representation: the full isNodeAfter matrix and
    every insertion order of every `nperm`-subset... (bounded: all permutations of all nodes when n <= nperm)"""
    import itertools
    g = gen()
    out = []
    shapes = g.all_shapes(maxnodes)
    for rep in ("S", "W", "N"):
        # pack several documents per session to keep the stream short
        for k in range(0, len(shapes), 3):
            chunk = shapes[k:k + 3]
            s = Session(rep, {d: sh for d, sh in enumerate(chunk)})
            for d, sh in enumerate(chunk):
                s.cases.append(("afterall", ["afterall %d" % d]))
                n = len(g.parse_shape(sh, rep)[0])
                nodes = list(range(0, n))
                if n <= nperm:
                    perms = itertools.permutations(nodes)
                else:
                    perms = []
                for p in perms:
                    s.cases.append(("hist-exh", ["new 0"] + ["addo 0 d%d.%d" % (d, i) for i in p]))
            out.append(s)
    return out, len(shapes)


def report(ctx, h, variant, sessions, il, lines, owner, dis, vio, budget):
    """turn raw disagreements / violations into ctx.fail / obligations (shrinking the first few new ones)"""
    new_keys = 0
    for v in vio:
        cls = v["cls"]
        key = "%s: %s" % (cls, " ; ".join(v["lines"]))
        if cls == "crash":
            key = "crash: at %s ; %s" % (v.get("at", "?"), " ; ".join(v["lines"][:4]))
        # is it known?  (cheap test before shrinking)
        known = any(f.get("match") and __import__("re").search(f["match"], key) for f in ctx.findings)
        inp = v["lines"]
        if not known and cls != "crash" and new_keys < budget:
            header, case = split_header(v["lines"])
            try:
                inp = shrink_lines(h, variant, header, case, still_violates(h, variant, cls))
            except Exception:
                inp = v["lines"]
            key = "%s: %s" % (cls, " ; ".join(inp))
            new_keys += 1
        ctx.fail(key, v["what"], inp)
    return new_keys



# ---------------------------------------------------------------------------------------------
# stylesheet level: key(), id(), document(), result-tree fragments as node-sets, EXSLT set functions (Xalan CLI)

def cli_oracle(case, out_lines):
    """-> list of (class, what) for the node-sets delivered to xsl:for-each by one stylesheet run"""
    docs = case["docs"]
    key = {}
    for d in docs.values():
        key.update(d.key)
    res = {}
    for l in out_lines:
        if ":" in l and l.startswith("Q"):
            q, rest = l.split(":", 1)
            res[q] = rest.split()
    bad = []
    m = docs["m"]

    def sortkey(lab):
        return key[lab]

    def ordered(labs):
        """duplicate-free, documents (and fragments) contiguous, document order inside each"""
        seen, last = [], None
        for x in labs:
            k = key[x]
            if last is not None and k[0] == last[0]:
                if not k > last:
                    return False
            else:
                if k[0] in seen:
                    return False
                seen.append(k[0])
            last = k
        return True
    for q, expr, spec in case["queries"]:
        if q not in res:
            bad.append(("cli-missing", "%s %s: no output line" % (q, expr)))
            continue
        labs = res[q]
        if spec is not None and spec[0] == "same":
            a, b = res.get(spec[1]), res.get(spec[2])
            if a is not None and b is not None:
                want = "true" if set(a) & set(b) else "false"
                if labs != [want]:
                    bad.append(("cli-set", "cli %s delivered %s, expected %s" % (expr, " ".join(labs), want)))
            continue
        unknown = [x for x in labs if x not in key]
        if unknown:
            bad.append(("cli-label", "%s %s delivered unknown node label %s" % (q, expr, unknown[0])))
            continue
        ndocs = len(set(key[x][0] for x in labs))
        if not ordered(labs):
            # two result-tree fragments share one XalanSourceTreeDocument and a fragment root has index 0: a fragment
            # root merged into a list that already holds nodes of another fragment lands in front of them
            frag_roots = [x for x in labs if x in ("r0", "s0")]
            frags = set(key[x][0] for x in labs if key[x][0] in ("r", "s"))
            rest = [x for x in labs if x not in ("r0", "s0")]
            if frag_roots and len(frags) > 1 and ordered(rest):
                cls = "rtf-fragment-root"
            else:
                cls = "multi-document" if ndocs > 1 else "cli-order"
            bad.append((cls, "cli %s delivered %s" % (expr, " ".join(labs))))
            continue
        if spec is None:
            continue
        kind = spec[0]
        want = None
        if kind == "key":
            want = [e for e in m.elems if m.kval[e] == spec[1]]
        elif kind == "id":
            want = sorted(set("m" + i[1:] for i in spec[1] if ("m" + i[1:]) in m.key), key=sortkey)
        elif kind == "idfrom":
            other = docs[spec[1]]
            want = sorted(set("m" + i[1:] for refs in other.refs.values() for i in refs if ("m" + i[1:]) in m.key), key=sortkey)
        elif kind == "idrefs":
            want = sorted(set("m" + i[1:] for refs in m.refs.values() for i in refs if ("m" + i[1:]) in m.key), key=sortkey)
        elif kind == "union":
            ops = [res.get(x) for x in spec[1]]
            if any(o is None or not ordered(o) for o in ops):
                continue
            allv = set(x for o in ops for x in o)
            if len(set(key[x][0] for x in allv)) > 1:
                # several documents: only grouping/no duplicates/same members are required (checked above + members)
                if set(labs) != allv:
                    bad.append(("multi-document", "cli %s delivered %s, operands hold %s" % (expr, " ".join(labs), " ".join(sorted(allv, key=sortkey)))))
                continue
            want = sorted(allv, key=sortkey)
        elif kind in ("diff", "inter", "leading", "trailing"):
            a, b = res.get(spec[1]), res.get(spec[2])
            if a is None or b is None or not ordered(a) or not ordered(b):
                continue
            if kind == "diff":
                want = [x for x in a if x not in b]
            elif kind == "inter":
                want = [x for x in a if x in b]
            elif not b:
                want = list(a)
            elif b[0] not in a:
                want = []
            elif kind == "leading":
                want = a[:a.index(b[0])]
            else:
                want = a[a.index(b[0]) + 1:]
        elif kind == "distinct":
            a = res.get(spec[1])
            if a is None or not ordered(a):
                continue
            seenv, want = set(), []
            for x in a:
                v = docs[key[x][0]].kval[x.split("@")[0]]
                if v not in seenv:
                    seenv.add(v); want.append(x)
        if want is not None and labs != want:
            bad.append(("cli-set", "cli %s delivered [%s], expected [%s]" % (expr, " ".join(labs), " ".join(want))))
    return bad, res


def cli_stage(ctx, r, ncases, maxnodes):
    g = gen()
    xalan = os.path.join(common.build_dir(os.environ.get("VERIF_C12_FLAVOR", "hooks")), "src", "xalanc", "Xalan")
    work = os.path.join(common.CACHE, "work", "c12cli")
    os.makedirs(work, exist_ok=True)
    # corpus: a global variable evaluated lazily in the middle of another fragment's construction
    cfile = os.path.join(common.ROOT, "gen", "corpus", "c12", "rtf-nested-lazy-global.xsl")
    if os.path.exists(cfile):
        with open(os.path.join(work, "m.xml"), "w") as f:
            f.write('<e i="m1"/>\n')
        rc, out = common.sh([xalan, "m.xml", cfile], cwd=work, timeout=120)
        ctx.case(nontrivial_key="cli|rtf-nested-lazy-global", cls="cli-corpus")
        if rc != 0:
            ctx.fail("cli-crash: rtf-nested-lazy-global rc=%d" % rc, out[-600:], {"stylesheet": cfile})
        else:
            for l in out.split("\n"):
                if not l.startswith(("A:", "B:", "C:", "D:")):
                    continue
                labs = l.split(":", 1)[1].split()
                frs = [x[0] for x in labs]
                grouped = all(frs[k] == frs[k - 1] or frs[k] not in frs[:k] for k in range(1, len(frs)))
                nums = {}
                inorder = True
                for x in labs:
                    n = int(x[1:])
                    if x[0] in nums and n <= nums[x[0]]:
                        inorder = False
                    nums[x[0]] = n
                if not inorder or len(set(labs)) != len(labs):
                    ctx.fail("cli-order: rtf-nested-lazy-global %s" % l, "node-set of result-tree-fragment nodes out of order / duplicated: " + l,
                             {"stylesheet": cfile})
                elif not grouped:
                    ctx.fail("rtf-nested-interleave: %s" % l,
                             "nodes of two result tree fragments are interleaved (one fragment was built lazily while the other was "
                             "under construction; both live in one XalanSourceTreeDocument that numbers nodes in creation order): " + l,
                             {"stylesheet": cfile})
    # result tree fragments built from every kind of result event in every adjacency: the structural walk (W) against
    # the order in which `//node()|//@*` (U) and a union of per-kind selections (V) deliver the nodes (merged by index)
    m0 = g.LabDoc(Rng(4242), "m", 12, True)
    with open(os.path.join(work, "m.xml"), "w") as f:
        f.write(m0.document())
    for ri in range(ncases + 1):
        sheet, bodies = g.gen_rtf_case(r, r.range(3, 8), corpus=(ri == 0))
        with open(os.path.join(work, "r.xsl"), "w") as f:
            f.write(sheet)
        rc, out = common.sh([xalan, "m.xml", "r.xsl"], cwd=work, timeout=120)
        if rc != 0:
            ctx.fail("cli-crash: rtf-events rc=%d %s" % (rc, out[-300:].replace("\n", " ")),
                     "Xalan CLI failed on a generated result-tree-fragment stylesheet: " + out[-600:], {"r.xsl": sheet})
            continue
        rows = {}
        for l in out.split("\n"):
            if l[:1] in "WUV" and ":" in l:
                k, v = l.split(":", 1)
                rows[k] = v
        nb = len(bodies)
        ctx.case(nontrivial_key="rtf|" + "|".join(bodies), cls="cli-rtf-events",
                 sample={"rtf_bodies": bodies[:2]} if ri == 1 else None)
        ctx.hist["rtf-fragments"] = ctx.hist.get("rtf-fragments", 0) + nb
        for k in range(1, nb + 1):
            w, u, v = rows.get("W%d" % k), rows.get("U%d" % k), rows.get("V%d" % k)
            if w is None or u is None or v is None:
                ctx.fail("cli-missing: rtf-events fragment %d" % k, "no output for fragment %d" % k, {"r.xsl": sheet})
            elif not (w == u == v):
                ctx.fail("index-order: rtf body %s" % bodies[k - 1],
                         "result tree fragment built from %s: structural walk %s but //node()|//@* delivers %s and the per-kind "
                         "union %s (stored indexes are not the pre-order numbering)" % (bodies[k - 1], w, u, v),
                         {"r.xsl": sheet, "m.xml": m0.document(), "fragment": k})
    import re as _re
    for ci in range(ncases):
        case = g.gen_cli_case(r, maxnodes)
        for name, text in case["files"].items():
            with open(os.path.join(work, name), "w") as f:
                f.write(text)
        rc, out = common.sh([xalan, "m.xml", "s.xsl"], cwd=work, timeout=120)
        if rc != 0:
            ctx.fail("cli-crash: rc=%d %s" % (rc, out[-300:].replace("\n", " ")), "Xalan CLI failed on a generated node-set stylesheet: " + out[-600:],
                     case["files"])
            continue
        bad, res = cli_oracle(case, out.split("\n"))
        nq = len(case["queries"])
        nonempty = sum(1 for v in res.values() if len(v) >= 2)
        ctx.case(nontrivial_key=("cli|" + case["files"]["m.xml"] + "|" + case["files"]["s.xsl"][-600:]) if nonempty >= 5 else None,
                 cls="cli-stylesheet", sample={"cli": case["files"]["m.xml"][:200], "queries": nq} if ci == 0 else None)
        ctx.hist["cli-queries"] = ctx.hist.get("cli-queries", 0) + nq
        for cls, what in bad[:5]:
            ctx.fail("%s: %s" % (cls, what), what, {"files": case["files"], "what": what})

def run(ctx):
    g = gen()
    ctx.rule = ("a case is one isNodeAfter matrix of a generated document (all ordered pairs of non-document nodes), one "
                "list-operation history on MutableNodeRefList, or one XPath union form; non-trivial = a matrix over >= 3 nodes, "
                "a history with >= 3 ordered inserts/merges, a union of non-empty operands; distinct = distinct request text "
                "(representation + document shapes + operations)")
    ctx.trusted += [
        "harness/c12_nodelist.cpp, gen/c12_gen.py, checks/c12.py (generator, oracle, comparison)",
        "modelled, not verified: the XPath step machinery producing union operands (operand values come from the real evaluator); "
        "the DOM implementations behind getParentOfNode/getAttributes/getNextSibling (their result is compared with the generated "
        "shape on every document); result-tree fragments, key()/id() node-sets (not driven by this harness)",
    ]
    # VERIF_C12_FLAVOR=asan runs the same check against the ASan+UBSan build of the working tree (a sanitizer abort is a crash)
    flavor = os.environ.get("VERIF_C12_FLAVOR", "hooks")
    ctx.extra["flavor"] = flavor
    ctx.build(flavor)
    ctx.translate("c12_nodemap")     # every createWrapperNode overload registers its wrapper in m_nodeMap (wrapperNodesAreMapped)
    ctx.translate("c12_flush")       # both source-tree builders flush buffered text before creating a node (buildersFlushBeforeCreate)
    ctx.translate("c12_walks")       # loop skeletons of the axis walks -> Generated/C12_WalkShapes.lean (walkShapes_unchanged)
    ctx.lean("XalanModel.Props.C12", THEOREMS, extra_targets=["xm_c12"])
    model = ctx.exe("xm_c12")
    impl = common.build_harness("c12_nodelist", ["c12_nodelist.cpp"], flavor=flavor)
    work = os.path.join(common.CACHE, "work")
    os.makedirs(work, exist_ok=True)
    if model is None:
        return
    h = Harness(ctx, impl, model, work)
    reps = os.environ.get("VERIF_C12_REPS", "SWN")       # restrict the document representations (sanitizer sample: see design/C12.md)
    ctx.extra["representations"] = reps

    if flavor != "hooks":
        # the behaviour probes run on the plain build of the same working tree (a sanitizer abort would hide the answer)
        ctx.build("hooks")
        hp = Harness(ctx, common.build_harness("c12_nodelist", ["c12_nodelist.cpp"], flavor="hooks"), model, work)
        edge, dn, probe = probe_variant(hp)
        h.docnode_after_crashes = hp.docnode_after_crashes
    else:
        edge, dn, probe = probe_variant(h)
    ctx.extra["variant_of_tree"] = {"isNodeAfter_ancestor_edge": edge, "document_node_insert": dn}
    if edge == "asis":
        ctx.fail("structural.ancestor-descendant: session N ; doc 0 e0(e0()) ; after d0.1 d0.2",
                 "DOMServices::isNodeAfter (non-indexed branch) reports an ancestor as AFTER its descendant: isNodeAfter(d0.1,d0.2)=1, "
                 "isNodeAfter(d0.2,d0.1)=0 on <e><e/></e> wrapped with buildWrapper=false",
                 ["session N", "doc 0 e0(e0())", "after d0.1 d0.2", "after d0.2 d0.1"])
    elif edge != "fixed":
        ctx.oblige("probe of DOMServices::isNodeAfter ancestor/descendant edge", "correspondence", False, str(probe))
        edge = "fixed"
    if dn is None or dn.split()[0] not in ("doclast", "docfirst") or dn.split()[1] not in ("nogroups", "groups"):
        ctx.oblige("probe of addNodeInDocOrder(document node) / of the multi-document search", "correspondence", False, str(probe))
        dn = "docfirst nogroups"
    variant = edge + " " + dn

    # vlib's Rng is a Weyl sequence: Rng(s+1) is Rng(s) advanced by one draw; spread the seeds far apart
    r = Rng(ctx.seed * 1000003 + 12)
    if not ctx.thorough:
        nsess, maxnodes, nhist, maxops, nxp = 1200, 24, 8, 24, 3
    else:
        nsess, maxnodes, nhist, maxops, nxp = 8000, 40, 12, 40, 4
    if getattr(h, "docnode_after_crashes", False):
        ctx.fail("crash: isNodeAfter-document-node: session N ; doc 0 e0(e0()) ; xp d0.1 set:trailing(//e/..,//e/..)",
                 "set:trailing/set:leading hand the document node to XPathExecutionContext::isNodeAfter; on a non-indexed document "
                 "(Xerces wrapper, buildWrapper=false) DOMServices::isNodeAfter dereferences the document node's null parent: SIGSEGV",
                 ["session N", "doc 0 e0(e0())", "xp d0.1 set:trailing(//e/..,//e/..)"])
    sessions = corpus_sessions() + make_sessions(r, nsess, maxnodes, nhist, maxops, nxp,
                                                 avoid_lt_on_n=getattr(h, "docnode_after_crashes", False))
    sessions = [s_ for s_ in sessions if s_.rep in reps]
    ncorp = len([s_ for s_ in corpus_sessions() if s_.rep in reps])
    if ctx.thorough:
        exh, nshapes = exhaustive_sessions(5, 5)
        sb = Session("S", {})
        kb = 100
        for ev in g.all_event_seqs(5):
            sb.cases.append(("build", ["build %d F %s" % (kb, ev)])); kb += 1
        exh.append(sb)
        exh = [s_ for s_ in exh if s_.rep in reps]
        sessions = sessions[:ncorp] + exh + sessions[ncorp:]
        ctx.extra["exhaustive_scope"] = ("every document shape with <= 5 nodes below the document node (%d shapes) x 3 representations: "
                                         "full isNodeAfter matrix; every insertion order of all nodes when the document has <= 5 nodes" % nshapes)

    crashes = []
    for _attempt in range(12):
        il, ml, lines, owner, dis, vio = evaluate(ctx, h, sessions, variant, "main")
        cr = [v for v in vio if v["cls"] == "crash"]
        if not cr:
            break
        # the harness died: remember the request, drop that case, run the rest again
        k = min(len(il), len(lines) - 1)
        si, ci = owner[k]
        crashes.append({"cls": "crash", "what": cr[0]["what"], "at": lines[k],
                        "lines": (sessions[si].header() if si >= 0 else []) + [lines[k]]})
        if si < 0 or ci < 0:
            break
        del sessions[si].cases[ci]
    vio = crashes + [v for v in vio if v["cls"] != "crash"]
    # case accounting
    seen = {}
    for idx, l in enumerate(lines):
        si, ci = owner[idx]
        if si < 0 or ci < 0:
            continue
        seen.setdefault((si, ci), []).append(l)
    for (si, ci), cl in seen.items():
        s = sessions[si]
        if ci >= len(s.cases):
            continue
        kind = s.cases[ci][0]
        text = s.rep + "|" + "|".join(s.shapes[d] for d in sorted(s.shapes)) + "|" + ";".join(cl)
        if kind == "afterall":
            d = int(cl[0].split()[1])
            nontriv = len(g.parse_shape(s.shapes[d], s.rep)[0]) >= 4
            text = s.rep + "|" + s.shapes[d] + "|afterall"
        elif kind in ("axis", "build", "identity"):
            nontriv = True
        elif kind.startswith("hist"):
            nontriv = sum(1 for x in cl if x.startswith("add")) >= 3
        else:
            nontriv = True
        ctx.case(nontrivial_key=text if nontriv else None, cls="%s/%s" % (kind, s.rep),
                 sample={"rep": s.rep, "docs": s.shapes, "ops": cl[:12]} if (si, ci) in ((3, 2), (4, 3)) else None)

    # EXSLT set algebra through XPathEvaluator: consecutive pairs of an 'ident' case must deliver the same list
    for (si, ci), cl in seen.items():
        if ci >= len(sessions[si].cases) or sessions[si].cases[ci][0] != "ident":
            continue
        idxs = [i for i, o in enumerate(owner) if o == (si, ci)]
        for k in range(0, len(idxs) - 1, 2):
            if idxs[k + 1] >= len(il):
                break
            a, b = il[idxs[k]], il[idxs[k + 1]]
            if a != b and not (a.startswith("ERR") or b.startswith("ERR")):
                s_ = sessions[si]
                dn = any(w.endswith(".0") for w in (a + " " + b).split())
                ctx.fail("%s: %s ; %s ; %s" % ("set-identity", " ; ".join(s_.header()), lines[idxs[k]], lines[idxs[k + 1]]),
                         "rep=%s %s -> %s but %s -> %s" % (s_.rep, lines[idxs[k]], a, lines[idxs[k + 1]], b),
                         s_.header() + [lines[idxs[k]], lines[idxs[k + 1]]])

    # second stage: unions with operand values from the implementation
    s2 = union_stage(sessions, lines, owner, il)
    il2, ml2, lines2, owner2, dis2, vio2 = evaluate(ctx, h, s2, variant, "union")
    for idx, l in enumerate(lines2):
        si, ci = owner2[idx]
        if si < 0 or ci < 0:
            continue
        nonempty = sum(1 for p in l.split(" ; ")[1:] if p.strip())
        ctx.case(nontrivial_key=(s2[si].rep + "|" + "|".join(s2[si].shapes[d] for d in sorted(s2[si].shapes)) + "|" + l) if nonempty >= 2 else None,
                 cls="union/%s" % s2[si].rep)

    report(ctx, h, variant, sessions, il, lines, owner, dis, vio, 3)
    report(ctx, h, variant, s2, il2, lines2, owner2, dis2, vio2, 3)

    cli_stage(ctx, r, 40 if not ctx.thorough else 600, 16 if not ctx.thorough else 30)

    alldis = dis + dis2
    shr = []
    for d in alldis[:3]:
        header, case = split_header(d["lines"])
        try:
            small = shrink_lines(h, variant, header, case, still_disagrees(h, variant))
        except Exception:
            small = d["lines"]
        shr.append({"input": small, "impl": d["impl"], "model": d["model"], "at": d.get("at")})
    if shr:
        ctx.extra["model_disagreements"] = shr
    ctx.oblige("correspondence: documents, isNodeAfter, MutableNodeRefList histories and unions — real code = Lean model "
               "(variant %s) on every request" % variant, "correspondence", not alldis, json.dumps(shr[:2])[:1800])
    ctx.extra["requests"] = len(lines) + len(lines2)
    ctx.exhaustive = False


def replay(ctx, path):
    d = json.load(open(path))
    first = d.get("first") or {}
    lines = first.get("input") or []
    ctx.build("hooks")
    common.lake_build(["xm_c12"])
    model = ctx.exe("xm_c12")
    impl = common.build_harness("c12_nodelist", ["c12_nodelist.cpp"], flavor="hooks")
    work = os.path.join(common.CACHE, "work")
    os.makedirs(work, exist_ok=True)
    h = Harness(ctx, impl, model, work)
    edge, dn, _ = probe_variant(h)
    variant = "%s %s" % (edge if edge in ("asis", "fixed") else "fixed", dn if (dn and "other" not in dn) else "docfirst nogroups")
    if not lines:
        print("replay file names no input; broken obligations:", [o["name"] for o in d.get("broken_obligations", [])])
        return 1
    header, case = split_header(lines)
    s = Session(header[0].split()[1] if header else "S", {})
    s.header = lambda: header
    s.cases = [("replay", case)]
    il, ml, ls, ow, dis, vio = evaluate(ctx, h, [s], variant, "replay")
    for k, l in enumerate(ls):
        print("%-40s impl: %-40s model: %s" % (l, il[k] if k < len(il) else "<none>", ml[k] if k < len(ml) else "<none>"))
    for v in vio:
        print("property violated:", v["cls"], "--", v["what"])
    for x in dis:
        print("model disagreement:", x)
    return 1 if (vio or dis) else 0
