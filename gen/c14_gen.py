"""C14: generator of result-constructing stylesheets, their token encoding for xm_c14, their XML text,
and the *specification oracle* (the expanded names XSLT 1.0 asks for), independent of the Lean model.

A case is a dict:
  rootdecls: [(prefix, uri)]   xmlns attributes of xsl:stylesheet in order (prefix '' = default; contains ('xsl', XSLT))
  rootexcl : [prefix]          exclude-result-prefixes of xsl:stylesheet ('' = #default)
  src      : source element    {'name','decls','atts','kids'}
  body     : [instr]           children of <xsl:template match="/">
instr:
  {'k':'L','name','decls','atts','excl','body'}   literal result element
  {'k':'E','name','ns','body'}                    xsl:element   (ns None = no namespace attribute)
  {'k':'A','name','ns','value'}                   xsl:attribute
  {'k':'T'}                                       text "t"
  {'k':'C','n'}                                   xsl:copy-of select="(//*)[n]"
  {'k':'Y','n','body'}                            xsl:for-each select="(//*)[n]" / xsl:copy
"""
import copy

XSLT = "http://www.w3.org/1999/XSL/Transform"
XML = "http://www.w3.org/XML/1998/namespace"


# ------------------------------------------------------------------------------------------------
# helpers

def split(q):
    i = q.find(":")
    return ("", q) if i < 0 else (q[:i], q[i + 1:])


def tok(s):
    return s if s != "" else "-"


def ptok(p):
    return p if p != "" else "#"


def esc(s):
    return s.replace("&", "&amp;").replace("<", "&lt;").replace('"', "&quot;")


# ------------------------------------------------------------------------------------------------
# source document

def src_index(src):
    """pre-order list of (node, scope dict) ; scope = in-scope prefix->uri ('' default)"""
    out = []

    def go(n, scope):
        sc = dict(scope)
        for p, u in n["decls"]:
            sc[p] = u
        out.append((n, sc))
        for k in n["kids"]:
            go(k, sc)
    go(src, {})
    return out


def src_uri(n, scope):
    p, _ = split(n["name"])
    return scope.get(p, "")


def src_xml(n):
    s = "<" + n["name"]
    for p, u in n["decls"]:
        s += ' xmlns%s="%s"' % (":" + p if p else "", esc(u))
    for q, v in n["atts"]:
        s += ' %s="%s"' % (q, esc(v))
    if not n["kids"]:
        return s + "/>"
    return s + ">" + "".join(src_xml(k) for k in n["kids"]) + "</" + n["name"] + ">"


def src_tokens(n, scope):
    sc = dict(scope)
    for p, u in n["decls"]:
        sc[p] = u
    t = [n["name"], tok(src_uri(n, sc))]
    atts = [("xmlns" + (":" + p if p else ""), u) for p, u in n["decls"]] + list(n["atts"])
    t.append(str(len(atts)))
    for q, v in atts:
        t += [q, tok(v)]
    t.append(str(len(n["kids"])))
    for k in n["kids"]:
        t += src_tokens(k, sc)
    return t


# ------------------------------------------------------------------------------------------------
# stylesheet text and tokens

def instr_xml(i, var):
    """var: list collecting (name, value) of xsl:variable used for computed AVTs"""
    k = i["k"]
    if k == "T":
        return "<xsl:text>t</xsl:text>"
    if k == "C":
        return '<xsl:copy-of select="(//*)[%d]"/>' % i["n"]
    if k == "K":
        return '<xsl:call-template name="t%d"/>' % i["m"]
    if k == "V":
        return ('<xsl:variable name="f%d">' % i["v"]) + "".join(instr_xml(b, var) for b in i["body"]) + "</xsl:variable>"
    if k == "CV":
        return '<xsl:copy-of select="$f%d"/>' % i["v"]
    if k == "CA":
        sel = "(//*)[%d]/@*[name()='%s']" % (i["n"], i["q"])
        if i.get("copy"):
            return '<xsl:for-each select="%s"><xsl:copy/></xsl:for-each>' % sel
        return '<xsl:copy-of select="%s"/>' % sel
    if k == "Y":
        if i.get("use"):
            return ('<xsl:for-each select="(//*)[%d]"><xsl:copy use-attribute-sets="%s">' % (i["n"], " ".join("s%d" % u for u in i["use"]))) + "".join(instr_xml(b, var) for b in i["body"]) + "</xsl:copy></xsl:for-each>"
        return ('<xsl:for-each select="(//*)[%d]"><xsl:copy>' % i["n"]) + "".join(instr_xml(b, var) for b in i["body"]) + "</xsl:copy></xsl:for-each>"

    def avt(s, computed):
        if computed:
            var.append(s)
            return "{$v%d}" % (len(var) - 1)
        return esc(s)
    if k == "A":
        s = '<xsl:attribute name="%s"' % avt(i["name"], i.get("cn"))
        if i["ns"] is not None:
            s += ' namespace="%s"' % avt(i["ns"], i.get("cs"))
        return s + ">" + esc(i["value"]) + "</xsl:attribute>"
    if k == "E":
        s = '<xsl:element name="%s"' % avt(i["name"], i.get("cn"))
        if i["ns"] is not None:
            s += ' namespace="%s"' % avt(i["ns"], i.get("cs"))
        if i.get("use"):
            s += ' use-attribute-sets="%s"' % " ".join("s%d" % u for u in i["use"])
        return s + ">" + "".join(instr_xml(b, var) for b in i["body"]) + "</xsl:element>"
    if k == "L":
        s = "<" + i["name"]
        for p, u in i["decls"]:
            s += ' xmlns%s="%s"' % (":" + p if p else "", esc(u))
        for q, v in i["atts"]:
            s += ' %s="%s"' % (q, esc(v))
        if i["excl"]:
            s += ' xsl:exclude-result-prefixes="%s"' % " ".join(p if p else "#default" for p in i["excl"])
        if i.get("use"):
            s += ' xsl:use-attribute-sets="%s"' % " ".join("s%d" % u for u in i["use"])
        if not i["body"]:
            return s + "/>"
        return s + ">" + "".join(instr_xml(b, var) for b in i["body"]) + "</" + i["name"] + ">"
    raise ValueError(k)


def module_head(decls, excl, imports):
    s = '<xsl:stylesheet version="1.0"'
    for p, u in decls:
        s += ' xmlns%s="%s"' % (":" + p if p else "", esc(u))
    if excl:
        s += ' exclude-result-prefixes="%s"' % " ".join(p if p else "#default" for p in excl)
    s += ">"
    for k in imports:
        s += '<xsl:import href="m%d.xsl"/>' % k
    return s


def module_children(c, m):
    return [k + 1 for k, md in enumerate(c.get("mods", [])) if md["parent"] == m]


def module_xsl(c, k):
    """text of imported module k (1-based): its imports, aliases and the named template t<k>"""
    md = c["mods"][k - 1]
    s = module_head(md["rootdecls"], md["rootexcl"], module_children(c, k))
    for sp, rp in md["aliases"]:
        s += '<xsl:namespace-alias stylesheet-prefix="%s" result-prefix="%s"/>' % (sp or "#default", rp or "#default")
    s += '<xsl:template name="t%d">' % k + "".join(instr_xml(b, []) for b in md["body"]) + "</xsl:template>"
    return s + "</xsl:stylesheet>"


def case_xsl(c):
    var = []
    body = "".join(instr_xml(b, var) for b in c["body"])
    s = module_head(c["rootdecls"], c["rootexcl"], module_children(c, 0))
    s += '<xsl:output method="xml" indent="no"/>'
    for sp, rp in c.get("aliases", []):
        s += '<xsl:namespace-alias stylesheet-prefix="%s" result-prefix="%s"/>' % (sp or "#default", rp or "#default")
    for n, aset in enumerate(c.get("sets", [])):
        s += '<xsl:attribute-set name="s%d">' % n + "".join(instr_xml(a, []) for a in aset) + "</xsl:attribute-set>"
    s += '<xsl:template match="/">'
    for n, v in enumerate(var):
        s += '<xsl:variable name="v%d" select="\'%s\'"/>' % (n, v)
    return s + body + "</xsl:template></xsl:stylesheet>"


def use_tokens(i):
    """use-attribute-sets of xsl:element / xsl:copy: a pseudo first child `U n k*`"""
    u = i.get("use", [])
    return ["U", str(len(u))] + [str(x) for x in u] if u else []


def instr_tokens(i):
    k = i["k"]
    if k == "T":
        return ["T"]
    if k == "C":
        return ["C", str(i["n"])]
    if k == "CA":
        return ["CA", str(i["n"]), i["q"]]
    if k == "K":
        return ["K", str(i["m"])]
    if k == "CV":
        return ["CV", str(i["v"])]
    if k == "V":
        t = ["V", str(i["v"]), str(len(i["body"]))]
        for b in i["body"]:
            t += instr_tokens(b)
        return t
    if k == "Y":
        u = use_tokens(i)
        t = ["Y", str(i["n"]), str(len(i["body"]) + (1 if u else 0))] + u
        for b in i["body"]:
            t += instr_tokens(b)
        return t
    if k == "A":
        return ["A", i["name"], "1" if i["ns"] is not None else "0", tok(i["ns"] or ""), tok(i["value"])]
    if k == "E":
        u = use_tokens(i)
        t = ["E", i["name"], "1" if i["ns"] is not None else "0", tok(i["ns"] or ""), str(len(i["body"]) + (1 if u else 0))] + u
        for b in i["body"]:
            t += instr_tokens(b)
        return t
    if k == "L":
        t = ["L", i["name"], str(len(i["decls"]))]
        for p, u in i["decls"]:
            t += [ptok(p), tok(u)]
        t.append(str(len(i["atts"])))
        for q, v in i["atts"]:
            t += [q, tok(v)]
        t.append(str(len(i["excl"])))
        t += [ptok(p) for p in i["excl"]]
        t.append(str(len(i.get("use", []))))
        t += [str(u) for u in i.get("use", [])]
        t.append(str(len(i["body"])))
        for b in i["body"]:
            t += instr_tokens(b)
        return t
    raise ValueError(k)


def case_tokens(c):
    t = [str(len(c["rootdecls"]))]
    for p, u in c["rootdecls"]:
        t += [ptok(p), tok(u)]
    t.append(str(len(c["rootexcl"])))
    t += [ptok(p) for p in c["rootexcl"]]
    al = c.get("aliases", [])
    t.append(str(len(al)))
    for sp, rp in al:
        t += [ptok(sp), ptok(rp)]
    sets = c.get("sets", [])
    t.append(str(len(sets)))
    for aset in sets:
        t.append(str(len(aset)))
        for a in aset:
            t += [a["name"], "1" if a["ns"] is not None else "0", tok(a["ns"] or ""), tok(a["value"])]
    mods = c.get("mods", [])
    t.append(str(len(mods)))
    for md in mods:
        t.append(str(md["parent"]))
        t.append(str(len(md["rootdecls"])))
        for p, u in md["rootdecls"]:
            t += [ptok(p), tok(u)]
        t.append(str(len(md["rootexcl"])))
        t += [ptok(p) for p in md["rootexcl"]]
        t.append(str(len(md["aliases"])))
        for sp, rp in md["aliases"]:
            t += [ptok(sp), ptok(rp)]
        t.append(str(len(md["body"])))
        for b in md["body"]:
            t += instr_tokens(b)
    t += src_tokens(c["src"], {})
    t.append(str(len(c["body"])))
    for b in c["body"]:
        t += instr_tokens(b)
    return " ".join(t)


# ------------------------------------------------------------------------------------------------
# validity (the stylesheet compiles and every instruction has a defined meaning)

def valid(c):
    scope = {}
    for p, u in c["rootdecls"]:
        if p in scope or u == "":
            return False
        scope[p] = u
    if scope.get("xsl") != XSLT:
        return False
    for p in c["rootexcl"]:
        if p not in scope:
            return False
    seen_alias = set()
    for sp, rp in c.get("aliases", []):
        if sp not in scope or rp not in scope or scope[sp] == XSLT or scope[rp] == XSLT:
            return False
        if scope[sp] in seen_alias or scope[sp] == scope[rp]:
            return False          # one alias per stylesheet URI, no identity alias
        seen_alias.add(scope[sp])
    mods = c.get("mods", [])
    nsets = len(c.get("sets", []))
    for aset in c.get("sets", []):
        for a in aset:
            ap, _ = split(a["name"])
            if a["k"] != "A" or a.get("cn") or a.get("cs") or a["name"] == "xmlns" or ap == "xmlns":
                return False
            if a["ns"] is None and ap and ap != "xml" and ap not in scope:
                return False
    srcs_v = src_index(c["src"])
    nsrc = len(srcs_v)
    for n, sc in srcs_v:
        for q in [n["name"]] + [a for a, _ in n["atts"]]:
            p, _ = split(q)
            if p and p not in sc:
                return False

    allow_calls = [True]
    bound = [frozenset()]       # variables in scope (following siblings and their descendants)

    def has_kind(body, kinds):
        return any(b["k"] in kinds or has_kind(b.get("body", []), kinds) for b in body)

    def ok_list(body, sc, in_elem):
        saved = bound[0]
        r_ = True
        for i in body:
            if not ok(i, sc, in_elem):
                r_ = False
                break
        bound[0] = saved
        return r_

    def ok(i, sc, in_elem):
        k = i["k"]
        if any(not (0 <= u < nsets) for u in i.get("use", [])):
            return False
        if k == "T":
            return True
        if k == "K":
            return in_elem and allow_calls[0] and 1 <= i["m"] <= len(mods)
        if k == "V":
            # fragment body: elements only at its top level (no text: the model's fragments hold elements), own scope
            if not allow_calls[0] or i["v"] in bound[0]:
                return False
            if any(b["k"] not in ("L", "E") for b in i["body"]) or has_kind(i["body"], ("T", "V", "CV", "K")):
                return False
            if not ok_list(i["body"], sc, False):
                return False
            bound[0] = bound[0] | {i["v"]}
            return True
        if k == "CV":
            return allow_calls[0] and i["v"] in bound[0]
        if i.get("cn") or i.get("cs") or i.get("use"):
            if not allow_calls[0]:
                return False          # module templates: no variables of the main template, no attribute sets
        if k == "CA":
            if not in_elem or not (1 <= i["n"] <= nsrc):
                return False
            return any(q == i["q"] for q, _ in srcs_v[i["n"] - 1][0]["atts"])
        if k in ("C", "Y"):
            if not (1 <= i["n"] <= nsrc):
                return False
            return True if k == "C" else ok_list(i["body"], sc, True)
        if k == "A":
            if not in_elem:
                return False
            p, l = split(i["name"])
            if i["name"] == "xmlns" or p in ("xmlns",):
                return False
            if i["ns"] is None and p and p != "xml" and p not in sc:
                return False
            return True
        if k == "E":
            p, l = split(i["name"])
            if p in ("xmlns", "xml"):
                return False
            if i["ns"] is None and p and p not in sc:
                return False
            if i["ns"] is not None and i["ns"] != "" and p and p not in sc:
                pass
            if i["ns"] == "" and p and p not in sc:
                return False      # xsl:element name="zz:e" namespace="" with zz undeclared: kept out (see design notes)
            return ok_list(i["body"], sc, True)
        if k == "L":
            s2 = dict(sc)
            seen = set()
            for p, u in i["decls"]:
                if p in seen or u == "" or u == XSLT:
                    return False
                seen.add(p)
                s2[p] = u
            p, l = split(i["name"])
            if p and (p not in s2 or s2[p] == XSLT):
                return False
            names = set()
            for q, v in i["atts"]:
                ap, al = split(q)
                if q in names or ap == "xmlns" or q == "xmlns":
                    return False
                names.add(q)
                if ap and ap != "xml" and (ap not in s2 or s2[ap] == XSLT):
                    return False
            for e in i["excl"]:
                if e not in s2:
                    return False
            return ok_list(i["body"], s2, True)
        return False
    if len(c["body"]) != 1 or c["body"][0]["k"] not in ("L", "E"):
        return False          # exactly one document element
    depth = {0: 0}
    for k, md in enumerate(mods):
        if not (0 <= md["parent"] <= k):
            return False
        depth[k + 1] = depth[md["parent"]] + 1
        if depth[k + 1] > 3:
            return False
        msc = {}
        for p, u in md["rootdecls"]:
            if p in msc or u == "":
                return False
            msc[p] = u
        if msc.get("xsl") != XSLT or any(p not in msc for p in md["rootexcl"]):
            return False
        seen_alias = set()
        for sp, rp in md["aliases"]:
            if sp not in msc or rp not in msc or msc[sp] == XSLT or msc[rp] == XSLT:
                return False
            if msc[sp] in seen_alias or msc[sp] == msc[rp]:
                return False
            seen_alias.add(msc[sp])
        allow_calls[0] = False
        okm = ok_list(md["body"], msc, True)
        allow_calls[0] = True
        if not okm:
            return False
    return ok_list(c["body"], scope, False)


# ------------------------------------------------------------------------------------------------
# specification oracle: the result tree XSLT 1.0 asks for, as expanded names

def expected(c):
    """returns list of nodes; element = {'name':(uri,local),'atts':{(uri,local):value},'kids':[...],
    'id':instr index,'kind':..,'excluded':set(uris) for LRE, 'attsrc':{(uri,local):instr index}}; text = 'T'.
    Instruction indices: pre-order over A/E/L/C/Y instructions in execution order."""
    srcs = src_index(c["src"])
    counter = [0]
    feats = set()
    scope0 = {}
    for p, u in c["rootdecls"]:
        scope0[p] = u
    excl0 = set(scope0[p] for p in c["rootexcl"])
    mods = c.get("mods", [])
    own = [dict((scope0[sp], scope0[rp]) for sp, rp in c.get("aliases", []))]
    for md in mods:
        msc = dict(md["rootdecls"])
        own.append(dict((msc[sp], msc[rp]) for sp, rp in md["aliases"]))
    kids = lambda m: [k + 1 for k, md in enumerate(mods) if md["parent"] == m]

    def order(m):
        out = [m]
        for k in reversed(kids(m)):
            out += order(k)
        return out
    # XSLT 1.0 7.1.1: several aliases for one namespace URI -> the one with the highest import precedence, for the
    # whole stylesheet (importing module before imported, later import before earlier import)
    amap = {}
    for m in order(0):
        for u, v in own[m].items():
            amap.setdefault(u, v)
    if amap:
        feats.add("alias")
    if mods:
        feats.add("imports")
        # what the code as first repaired (push-down only) computes per module: used only to LABEL the known deviation
        tbl = [dict(d) for d in own]

        def post(m):
            for k in kids(m):       # the code post-constructs the imports from the first xsl:import to the last
                tbl[k].update(tbl[m])
                post(k)
                for u, v in tbl[k].items():
                    tbl[m].setdefault(u, v)
        post(0)
        if any(tbl[m] != amap for m in range(len(tbl))):
            feats.add("aliasNotCollected")

    def al(u):
        return amap.get(u, u)

    def copy_src(n, sc, iid):
        s2 = dict(sc)
        for p, u in n["decls"]:
            s2[p] = u
        p, l = split(n["name"])
        e = {"name": (s2.get(p, ""), l), "atts": {}, "kids": [], "id": iid, "kind": "C", "attsrc": {}}
        for q, v in n["atts"]:
            ap, al = split(q)
            uri = XML if ap == "xml" else (s2[ap] if ap else "")
            e["atts"][(uri, al)] = v
            e["attsrc"][(uri, al)] = iid
        for k in n["kids"]:
            e["kids"].append(copy_src(k, s2, iid))
        return e

    frags = {}

    def retag(n, iid):
        if n == "T":
            return
        n["id"] = iid
        n["kind"] = "C"          # a copied node: no exclusion / alias clauses of its own
        n["attsrc"] = dict((k_, iid) for k_ in n["atts"])
        n.pop("excluded", None)
        n.pop("aliased", None)
        n.pop("hasAlias", None)
        for c_ in n["kids"]:
            retag(c_, iid)

    def apply_sets(i, e):
        # XSLT 7.1.4: the attributes of the used sets are added first (later additions replace them); their names
        # are expanded in the context of the xsl:attribute inside the (top-level) xsl:attribute-set
        for u in i.get("use", []):
            for a in c.get("sets", [])[u]:
                iid = counter[0]
                counter[0] += 1
                p, l = split(a["name"])
                if a["ns"] is not None:
                    name = (a["ns"], l)
                elif p == "xml":
                    name = (XML, l)
                elif p:
                    name = (scope0[p], l)
                    if scope0[p] in amap:
                        feats.add("aliasAttr")
                else:
                    name = ("", l)
                e["atts"][name] = a["value"]
                e["attsrc"][name] = iid

    def run(body, sc, excl, parent):
        for i in body:
            k = i["k"]
            if k == "V":
                # XSLT 11.2: the variable holds a result tree fragment - a tree of its own, whose nodes have the
                # expanded names the instructions ask for, whatever the result context is where it is built
                counter[0] += 1
                holder = {"name": ("", "#frag"), "atts": {}, "kids": [], "attsrc": {}, "id": -1, "kind": "V"}
                run(i["body"], sc, excl, holder)
                frags[i["v"]] = holder["kids"]
                counter[0] += 1          # the model's end-of-fragment tag
                continue
            if k == "CV":
                iid = counter[0]
                counter[0] += 1
                if parent is None:
                    continue
                for n in copy.deepcopy(frags.get(i["v"], [])):
                    retag(n, iid)
                    if n == "T" and parent["kids"] and parent["kids"][-1] == "T":
                        continue
                    parent["kids"].append(n)
                    parent["closed"] = True
                continue
            if k == "K":
                md = mods[i["m"] - 1]
                msc = dict(md["rootdecls"])
                run(md["body"], msc, set(msc[p] for p in md["rootexcl"]), parent)
                continue
            if k == "T":
                if parent is not None:
                    if parent["kids"] and parent["kids"][-1] == "T":
                        pass
                    else:
                        parent["kids"].append("T")
                    parent["closed"] = True
                continue
            iid = counter[0]
            counter[0] += 1
            if k == "A":
                p, l = split(i["name"])
                if i["ns"] is not None:
                    name = (i["ns"], l)
                elif p == "xml":
                    name = (XML, l)
                elif p:
                    name = (sc[p], l)
                else:
                    name = ("", l)
                if i["ns"] is None and p and p != "xml" and sc[p] in amap:
                    feats.add("aliasAttr")     # known deviation: the alias is applied to the xsl:attribute name
                if parent is None or parent.get("closed"):
                    feats.add("lateattr")
                    continue
                parent["atts"][name] = i["value"]
                parent["attsrc"][name] = iid
                continue
            if k == "CA":
                n, s = srcs[i["n"] - 1]
                ap, aloc = split(i["q"])
                uri = XML if ap == "xml" else (s[ap] if ap else "")
                val = dict(n["atts"])[i["q"]]
                if parent is None or parent.get("closed"):
                    continue          # no start tag pending: the attribute is ignored (error recovery)
                parent["atts"][(uri, aloc)] = val
                parent["attsrc"][(uri, aloc)] = iid
                continue
            if k == "C":
                n, s = srcs[i["n"] - 1]
                # scope of the *parent* of n: recompute by passing the node's own scope (decls re-applied harmlessly)
                e = copy_src(n, s, iid)
            elif k == "Y":
                n, s = srcs[i["n"] - 1]
                p, l = split(n["name"])
                e = {"name": (s.get(p, ""), l), "atts": {}, "kids": [], "id": iid, "kind": "Y", "attsrc": {}}
                apply_sets(i, e)
                run(i["body"], sc, excl, e)
            elif k == "E":
                p, l = split(i["name"])
                if i["ns"] is not None:
                    name = (i["ns"], l)
                else:
                    name = (sc.get(p, ""), l)
                e = {"name": name, "atts": {}, "kids": [], "id": iid, "kind": "E", "attsrc": {}}
                apply_sets(i, e)
                run(i["body"], sc, excl, e)
            elif k == "L":
                s2 = dict(sc)
                for p, u in i["decls"]:
                    s2[p] = u
                ex2 = set(excl) | set(s2[p] for p in i["excl"])
                if any(k in ex2 for k in amap):
                    # the stylesheet side of an alias is also excluded: the excluded entry keeps the un-aliased URI and
                    # NamespacesHandler::getNamespace answers from it first (same root cause as exclShadow)
                    feats.add("exclAlias")
                for dp, du in i["decls"]:
                    # a prefix whose outer binding is excluded is re-bound to another URI here: the handler keeps
                    # answering with the stale excluded binding (NamespacesHandler::getNamespace looks there first)
                    if dp in sc and sc[dp] != du and sc[dp] in ex2:
                        feats.add("exclShadow")
                    if dp == "" and du in ex2:
                        feats.add("exclOwnDefault")
                p, l = split(i["name"])
                # XSLT 7.1.1: the namespace URI of a literal result element / of its attributes that is the
                # stylesheet side of an xsl:namespace-alias is replaced by the result side
                e = {"name": (al(s2.get(p, "")), l), "atts": {}, "kids": [], "id": iid, "kind": "L", "attsrc": {},
                     "excluded": ex2, "hasAlias": bool(amap), "aliased": set(amap) - set(amap.values())}   # a URI that is also a result side may appear
                apply_sets(i, e)
                litp = set(split(q)[0] for q, _ in i["atts"]) - {""}
                for u in i.get("use", []):
                    for a in c.get("sets", [])[u]:
                        sp = split(a["name"])[0]
                        if a["ns"] is not None and sp in litp and a["ns"] != s2.get(sp):
                            # the set's attribute runs before the literal attributes are added and may re-bind, on this
                            # element, a prefix that a literal attribute uses (known finding)
                            feats.add("setRebindsAttrPrefix")
                for q, v in i["atts"]:
                    ap, aloc = split(q)
                    uri = XML if ap == "xml" else (al(s2[ap]) if ap else "")
                    e["atts"][(uri, aloc)] = v
                    e["attsrc"][(uri, aloc)] = iid
                run(i["body"], s2, ex2, e)
            else:
                raise ValueError(k)
            e.pop("closed", None)
            if parent is not None:
                parent["kids"].append(e)
                parent["closed"] = True
            else:
                top.append(e)
    top = []
    run(c["body"], scope0, excl0, None)
    return top, feats


# ------------------------------------------------------------------------------------------------
# random generation

PFX = ["p", "q", "r"]
# prefixes spelled like the ones getUniqueNamespaceValue invents (ns<N>): declared in the stylesheet, on ancestors, on
# the pending element and in copied source nodes, so that the uniqueness loop is exercised against inherited and local
# declarations (an invented prefix must not capture one that the pending element already uses)
NSPFX = ["ns0", "ns1"]


def pool(r):
    """prefix pool of one case: p,q,r and, in about half of the cases, ns0 and/or ns1"""
    P = list(PFX)
    k = r.below(6)
    if k in (0, 1, 2):
        P.append("ns0")
    if k in (2, 3):
        P.append("ns1")
    # prefixes that merely START with "xml" (ElemAttribute tests startsWith(name, "xml")), and an upper-case look-alike
    if r.chance(1, 4):
        P.append("xmlq")
    if r.chance(1, 8):
        P.append("XMLq")
    return P
URI = ["urn:a", "urn:b", "urn:c"]
LOC = ["e", "f", "g"]
ALOC = ["x", "y"]


def gen_src(r, P=None):
    P = P or PFX

    def node(depth, sc):
        decls = []
        for p in r.shuffle(P + [""]):
            if r.chance(1, 4):
                decls.append((p, r.choice(URI)))
        s2 = dict(sc)
        for p, u in decls:
            s2[p] = u
        avail = [p for p in s2 if p]
        p = r.choice(avail) if avail and r.chance(1, 2) else ""
        name = (p + ":" if p else "") + r.choice(LOC)
        atts = []
        seen = set()
        for _ in range(r.below(3)):
            ap = r.choice(avail) if avail and r.chance(1, 2) else ""
            q = (ap + ":" if ap else "") + r.choice(ALOC)
            key = (s2.get(ap, "") if ap else "", split(q)[1])
            if q in seen or key in seen:
                continue
            seen.add(q)
            seen.add(key)
            atts.append((q, "s" + str(r.below(9))))
        kids = []
        if depth < 2:
            for _ in range(r.below(3)):
                kids.append(node(depth + 1, s2))
        return {"name": name, "decls": decls, "atts": atts, "kids": kids}
    root = node(0, {})
    root["name"] = "doc" if r.chance(1, 2) else root["name"]
    if root["name"] == "doc" and any(p == "" for p, _ in root["decls"]):
        pass
    return root


def strip_template_local(body):
    """module templates cannot see the variables of the main template nor (in this generator) attribute sets"""
    for i in body:
        i.pop("cn", None)
        i.pop("cs", None)
        if "use" in i:
            i["use"] = []
        strip_template_local(i.get("body", []))
    return body


def gen_case(r, size=None):
    P = pool(r)
    rootdecls = [("xsl", XSLT)]
    for p in r.shuffle(P + [""]):
        if r.chance(1, 2):
            rootdecls.append((p, r.choice(URI)))
    if r.chance(1, 4):
        rootdecls = r.shuffle(rootdecls)
    sc0 = dict(rootdecls)
    rootexcl = [p for p in sc0 if p != "xsl" and r.chance(1, 4)]
    aliases = []
    cand = [p for p in sc0 if p != "xsl"]
    if len(cand) >= 2 and r.chance(1, 4):
        sp = r.choice(cand)
        rp = r.choice([p for p in cand if p != sp])
        if sc0[sp] != sc0[rp]:
            aliases.append((sp, rp))
    src = gen_src(r, P)
    nsrc = len(src_index(src))
    src_attrs = [(n + 1, q) for n, (nd, _sc) in enumerate(src_index(src)) for q, _v in nd["atts"]]
    pref = [x for x in src_attrs if ":" in x[1]]
    if pref:
        src_attrs = src_attrs + pref + pref      # favour namespaced attributes
    budget = [size if size is not None else r.range(2, 9)]
    nsets = [0]
    nmods = [0]
    nvars = [0]
    in_frag = [False]

    def pick_use():
        if nsets[0] and r.chance(1, 3):
            return [r.below(nsets[0]) for _ in range(r.range(1, 2))]
        return []

    def qname(sc, allow_default=True, new_prefix_ok=False):
        avail = [p for p in sc if p and sc[p] != XSLT]
        if new_prefix_ok and r.chance(1, 4):
            return r.choice(P)
        if avail and r.chance(3, 5):
            return r.choice(avail)
        return ""

    def body(depth, sc, in_elem, vars_in_scope=()):
        vars_in_scope = list(vars_in_scope)
        out = []
        n = r.weighted([(0, 1), (1, 4), (2, 4), (3, 2)]) if depth else 1
        had_child = False
        for _ in range(n):
            if budget[0] <= 0:
                break
            budget[0] -= 1
            kinds = [("L", 6), ("E", 6), ("T", 1), ("C", 2), ("Y", 2)]
            if in_elem and (not had_child or r.chance(1, 12)):
                kinds.append(("A", 9))
                if src_attrs:
                    kinds.append(("CA", 3))
            if depth >= 3:
                kinds = [(k, w) for k, w in kinds if k in ("A", "T", "C", "CA")] or [("T", 1)]
            if in_elem and nmods[0] and depth >= 1:
                kinds.append(("K", 4))
            if in_elem and depth >= 1 and not in_frag[0] and r.chance(1, 2):
                kinds.append(("V", 6))
            if in_elem and depth >= 1 and not in_frag[0] and vars_in_scope:
                kinds.append(("CV", 8))
            if depth == 0:
                kinds = [("L", 3), ("E", 2)]     # exactly one document element
            k = r.weighted(kinds)
            if k == "V":
                # a result tree fragment built HERE, i.e. where the enclosing result elements bind prefixes (and maybe
                # the default namespace); copied later into contexts that bind them differently
                nvars[0] += 1
                vid = nvars[0]
                in_frag[0] = True
                fb = [b for b in body(max(depth, 2), sc, False) if b["k"] in ("L", "E")][:2]
                in_frag[0] = False
                if fb:
                    out.append({"k": "V", "v": vid, "body": fb})
                    vars_in_scope = vars_in_scope + [vid]
                    if r.chance(2, 3):
                        # copy it straight into a context that (re-)binds a prefix or the default namespace
                        wp = r.choice(P + [""])
                        out.append({"k": "E", "name": (wp + ":" if wp else "") + r.choice(LOC), "ns": r.choice(URI), "use": [],
                                    "body": [{"k": "CV", "v": vid}]})
                        had_child = True
            elif k == "CV":
                out.append({"k": "CV", "v": r.choice(vars_in_scope)}); had_child = True
            elif k == "K":
                out.append({"k": "K", "m": r.range(1, nmods[0])}); had_child = True
            elif k == "CA":
                n, q = r.choice(src_attrs)
                i = {"k": "CA", "n": n, "q": q}
                if r.chance(1, 3):
                    i["copy"] = True
                out.append(i)
            elif k == "T":
                out.append({"k": "T"}); had_child = True
            elif k == "C":
                out.append({"k": "C", "n": r.range(1, nsrc)}); had_child = True
            elif k == "Y":
                out.append({"k": "Y", "n": r.range(1, nsrc), "use": pick_use(), "body": body(depth + 1, sc, True, vars_in_scope)}); had_child = True
            elif k == "A":
                ns = None
                p = qname(sc)
                if r.chance(1, 2):
                    ns = r.weighted([(r.choice(URI), 8), ("", 1)])
                    if r.chance(1, 2):
                        p = r.choice(P + [""])
                if r.chance(1, 16):
                    p = "xml"          # xml:x without namespace (XML namespace) or with an explicit other namespace
                i = {"k": "A", "name": (p + ":" if p else "") + r.choice(ALOC), "ns": ns, "value": "v" + str(r.below(9))}
                if r.chance(1, 6):
                    i["cn"] = True
                if ns is not None and r.chance(1, 6):
                    i["cs"] = True
                out.append(i)
            elif k == "E":
                ns = None
                p = qname(sc)
                if r.chance(1, 2):
                    ns = r.weighted([(r.choice(URI), 8), ("", 2)])
                    if ns != "" and r.chance(1, 2):
                        p = r.choice(P + [""])
                    if ns == "" and r.chance(4, 5):
                        p = ""          # namespace="" with a prefixed name is a known deviation: keep it rare
                i = {"k": "E", "name": (p + ":" if p else "") + r.choice(LOC), "ns": ns, "use": pick_use()}
                if r.chance(1, 6):
                    i["cn"] = True
                if ns is not None and r.chance(1, 6):
                    i["cs"] = True
                i["body"] = body(depth + 1, sc, True, vars_in_scope)
                if ns not in (None, "") and p == "" and depth < 3 and r.chance(1, 4):
                    # a default namespace that only exists at run time (declared by this xsl:element) and an
                    # unprefixed xsl:element namespace="" below it: xmlns="" must be emitted
                    inner = {"k": "E", "name": r.choice(LOC), "ns": "", "body": []}
                    if r.chance(1, 2):
                        inner["body"] = [{"k": "E", "name": r.choice(LOC), "ns": None, "body": []}]
                    i["body"] = [b for b in i["body"] if b["k"] in ("A", "CA")] + [inner] + [b for b in i["body"] if b["k"] not in ("A", "CA")]
                out.append(i); had_child = True
            elif k == "L":
                decls = []
                for p in r.shuffle(P + [""]):
                    if r.chance(1, 5):
                        decls.append((p, r.choice(URI)))
                s2 = dict(sc)
                for p, u in decls:
                    s2[p] = u
                p = qname(s2)
                atts = []
                seen = set()
                for _ in range(r.weighted([(0, 3), (1, 3), (2, 1)])):
                    ap = qname(s2)
                    q = (ap + ":" if ap else "") + r.choice(ALOC)
                    key = (s2.get(ap, "") if ap else "", split(q)[1])
                    if q in seen or key in seen:
                        continue
                    seen.add(q); seen.add(key)
                    atts.append((q, "w" + str(r.below(9))))
                excl = [e for e in s2 if e != "xsl" and r.chance(1, 8)]
                availp = [x for x in s2 if x and s2[x] != XSLT]
                if len(availp) >= 2 and r.chance(1, 8):
                    # several differently-prefixed attributes whose prefixes are all excluded: every one of the
                    # prefixes must stay declared (AVTPrefixChecker::isActive looks at all attributes)
                    atts = []
                    seen = set()
                    for ap in r.shuffle(availp)[:r.range(2, 3)]:
                        q = ap + ":" + r.choice(ALOC)
                        key = (s2[ap], split(q)[1])
                        if key in seen:
                            continue
                        seen.add(key)
                        atts.append((q, "w" + str(r.below(9))))
                    excl = sorted(set(excl) | set(split(q)[0] for q, _ in atts))
                i = {"k": "L", "name": (p + ":" if p else "") + r.choice(LOC), "decls": decls, "atts": atts, "excl": excl,
                     "use": pick_use()}
                i["body"] = body(depth + 1, s2, True, vars_in_scope)
                out.append(i); had_child = True
        return out
    sets = []
    if r.chance(1, 3):
        for _ in range(r.range(1, 2)):
            aset = []
            for _ in range(r.range(1, 2)):
                avail0 = [p for p in sc0 if p and p != "xsl"]
                ap = r.choice(avail0) if avail0 and r.chance(1, 2) else ""
                ns = None
                if r.chance(1, 2):
                    ns = r.choice(URI)
                    if r.chance(1, 2):
                        ap = r.choice(P + [""])
                aset.append({"k": "A", "name": (ap + ":" if ap else "") + r.choice(ALOC), "ns": ns, "value": "u" + str(r.below(9))})
            sets.append(aset)
    # import tree (depth <= 3) with competing xsl:namespace-alias declarations at every level
    mods = []
    if r.chance(1, 3):
        depth_of = {0: 0}
        for k in range(1, r.range(1, 4) + 1):
            par = r.choice([m for m in depth_of if depth_of[m] < 3])
            # keep pre-order numbering: a module's imports must follow it and precede later siblings of its ancestors;
            # choosing the parent among the last module's ancestor chain guarantees that
            chain = [k - 1] if k > 1 else [0]
            while chain[-1] != 0:
                chain.append(mods[chain[-1] - 1]["parent"])
            par = r.choice([m for m in chain if depth_of[m] < 3])
            depth_of[k] = depth_of[par] + 1
            mdecls = [("xsl", XSLT)]
            for p in r.shuffle(P + [""]):
                if r.chance(1, 2):
                    mdecls.append((p, r.choice(URI)))
            msc = dict(mdecls)
            mexcl = [p for p in msc if p != "xsl" and r.chance(1, 6)]
            mal = []
            cand = [p for p in msc if p != "xsl"]
            if len(cand) >= 2 and r.chance(3, 4):
                sp = r.choice(cand)
                rp = r.choice([p for p in cand if p != sp])
                if msc[sp] != msc[rp]:
                    mal.append((sp, rp))
            mods.append({"parent": par, "rootdecls": mdecls, "rootexcl": mexcl, "aliases": mal, "body": [], "_sc": msc})
        if not aliases and len(cand0 := [p for p in sc0 if p != "xsl"]) >= 2 and r.chance(1, 2):
            sp = r.choice(cand0)
            rp = r.choice([p for p in cand0 if p != sp])
            if sc0[sp] != sc0[rp]:
                aliases.append((sp, rp))
        save = (nsets[0], budget[0])
        nsets[0] = 0
        for md in mods:
            in_frag[0] = True        # no variables / fragment copies inside module templates
            budget[0] = r.range(1, 4)
            md["body"] = strip_template_local(body(2, md.pop("_sc"), True))
        in_frag[0] = False
        nsets[0], budget[0] = save
    nmods[0] = len(mods)
    nsets[0] = len(sets)
    c = {"rootdecls": rootdecls, "rootexcl": rootexcl, "aliases": aliases, "sets": sets, "mods": mods, "src": src,
         "body": body(0, sc0, False)}
    return c


def instr_list(c):
    """A/E/L/C/Y instructions in execution (pre-)order, the numbering used by expected() and by the model's tags"""
    out = []

    def go(body):
        for i in body:
            if i["k"] == "T":
                continue
            if i["k"] == "K":
                go(c["mods"][i["m"] - 1]["body"])
                continue
            out.append(i)
            if i["k"] == "V":
                go(i["body"])
                out.append({"k": "Vend"})
                continue
            for u in i.get("use", []):
                out.extend(c.get("sets", [])[u])
            go(i.get("body", []))
    go(c["body"])
    return out


def describe(i):
    if i is None:
        return "?"
    k = i["k"]
    if k in ("A", "E"):
        p, _ = split(i["name"])
        return "%s[%s,ns=%s]" % (k, "pfx" if p else "nopfx", "none" if i["ns"] is None else ("empty" if i["ns"] == "" else "uri"))
    if k == "CA":
        return "CA[%s]" % ("pfx" if split(i["q"])[0] else "nopfx")
    return k


def shrink_candidates(c):
    """one-step simplifications of a case (each a deep copy)"""
    out = []

    def paths(body, prefix):
        for n, i in enumerate(body):
            yield prefix + [n]
            if "body" in i:
                yield from paths(i["body"], prefix + [n, "body"])

    def get(c2, path):
        cur = c2["body"]
        for p in path[:-1]:
            cur = cur[p]
        return cur, path[-1]
    for path in list(paths(c["body"], [])):
        c2 = copy.deepcopy(c)
        lst, idx = get(c2, path)
        node = lst[idx]
        del lst[idx]
        out.append(c2)
        if node.get("body"):
            c3 = copy.deepcopy(c)
            lst, idx = get(c3, path)
            lst[idx:idx + 1] = node["body"]
            out.append(c3)
        for fld in ("decls", "atts", "excl", "use"):
            for j in range(len(node.get(fld, []))):
                c4 = copy.deepcopy(c)
                lst, idx = get(c4, path)
                del lst[idx][fld][j]
                out.append(c4)
        if node["k"] in ("A", "E") and node.get("ns") is not None:
            c5 = copy.deepcopy(c)
            lst, idx = get(c5, path)
            lst[idx]["ns"] = None
            out.append(c5)
        for fld in ("cn", "cs"):
            if node.get(fld):
                c6 = copy.deepcopy(c)
                lst, idx = get(c6, path)
                lst[idx].pop(fld)
                out.append(c6)
        if node["k"] in ("C", "Y") and node["n"] != 1:
            c7 = copy.deepcopy(c)
            lst, idx = get(c7, path)
            lst[idx]["n"] = 1
            out.append(c7)
    for j in range(len(c["rootdecls"])):
        c2 = copy.deepcopy(c)
        del c2["rootdecls"][j]
        out.append(c2)
    for j in range(len(c["rootexcl"])):
        c2 = copy.deepcopy(c)
        del c2["rootexcl"][j]
        out.append(c2)
    for j in range(len(c.get("aliases", []))):
        c2 = copy.deepcopy(c)
        del c2["aliases"][j]
        out.append(c2)
    for k, md in enumerate(c.get("mods", [])):
        for fld in ("aliases", "rootexcl"):
            for j in range(len(md[fld])):
                c2 = copy.deepcopy(c)
                del c2["mods"][k][fld][j]
                out.append(c2)
        for j in range(len(md["body"])):
            c2 = copy.deepcopy(c)
            del c2["mods"][k]["body"][j]
            out.append(c2)
    if c.get("mods") and not any(md["parent"] == len(c["mods"]) for md in c["mods"]):
        last = len(c["mods"])
        c2 = copy.deepcopy(c)

        def drop_calls(body):
            body[:] = [b for b in body if not (b["k"] == "K" and b["m"] == last)]
            for b in body:
                drop_calls(b.get("body", []))
        drop_calls(c2["body"])
        c2["mods"].pop()
        out.append(c2)
    if c["src"]["kids"] or c["src"]["decls"] or c["src"]["atts"]:
        c2 = copy.deepcopy(c)
        c2["src"] = {"name": "doc", "decls": [], "atts": [], "kids": []}
        out.append(c2)
        for fld in ("kids", "decls", "atts"):
            for j in range(len(c["src"][fld])):
                c3 = copy.deepcopy(c)
                del c3["src"][fld][j]
                out.append(c3)
    return out
