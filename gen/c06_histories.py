"""C06: catalog of stylesheets / sources and the generator of API histories on one XalanTransformer.

Stylesheets come in three groups
  observers   use as many pieces of per-transformation state as possible and print what they see
              (top-level params, extension functions, keys, xsl:number counters, modes, sort, result tree
              fragments, variables, recursion, strip-space), so that state leaking from an earlier call changes
              their output;
  aborters    stop part-way with the engine's stacks loaded: xsl:message terminate="yes" at depth (inside a
              mode, a for-each with sort, a result-tree-fragment variable, an attribute value, a called
              template), a run-time XPath error, an unknown output encoding, a missing document(), an
              unserialisable character, an unknown extension function -- several of them switched on by a
              top-level param so that the same compiled stylesheet succeeds or fails depending on the history;
  bad         do not compile / do not parse (for compile/parse failures inside a history).
All randomness comes from the Rng passed in.
"""

XSL = 'xmlns:xsl="http://www.w3.org/1999/XSL/Transform"'
HEAD = '<xsl:stylesheet version="1.0" %s xmlns:ext="urn:c06" exclude-result-prefixes="ext">' % XSL

OBS_BODY = """
<xsl:param name="p1" select="'d1'"/><xsl:param name="p2" select="'d2'"/><xsl:param name="p3"/>
<xsl:key name="k" match="a" use="@id"/>
<xsl:key name="kc" match="c" use="."/>
<xsl:variable name="g" select="count(//c)"/>
<xsl:attribute-set name="as"><xsl:attribute name="s"><xsl:value-of select="$g"/></xsl:attribute></xsl:attribute-set>
<xsl:template name="rec"><xsl:param name="n"/><xsl:if test="$n &gt; 0"><i><xsl:value-of select="$n"/></i><xsl:call-template name="rec"><xsl:with-param name="n" select="$n - 1"/></xsl:call-template></xsl:if></xsl:template>
<xsl:template match="b" mode="m"><b><xsl:apply-templates select="c" mode="m"/></b></xsl:template>
<xsl:template match="w" mode="w"><xsl:value-of select="."/></xsl:template>
<xsl:template match="c" mode="m"><xsl:value-of select="position()"/>/<xsl:value-of select="last()"/>;</xsl:template>
<xsl:template name="observe">
  <xsl:variable name="tv">T</xsl:variable><xsl:variable name="tw"><q a="1"/>W</xsl:variable>
  <o p1="{$p1}" p2="{$p2}" p3="{$p3}" g="{$g}" t="{count(//text())}" xsl:use-attribute-sets="as">
   <tv l="{string-length($tv)}" w="{string-length($tw)}"><xsl:value-of select="$tv"/>|<xsl:copy-of select="$tw"/></tv>
   <inf><xsl:value-of select="format-number(1 div 0, '#,##0.0')"/>|<xsl:value-of select="format-number(-1 div 0, '#,##0.0')"/>|<xsl:value-of select="format-number(0 div 0, '#,##0.0')"/></inf>
   <xsl:if test="function-available('ext:f1')"><f1><xsl:value-of select="ext:f1()"/></f1></xsl:if>
   <xsl:if test="function-available('ext:f2')"><f2><xsl:value-of select="ext:f2()"/></f2></xsl:if>
   <xsl:if test="function-available('ext:g1')"><g1><xsl:value-of select="ext:g1()"/></g1></xsl:if>
   <xsl:if test="function-available('ext:g2')"><g2><xsl:value-of select="ext:g2()"/></g2></xsl:if>
   <p3n><xsl:value-of select="boolean($p3)"/>:<xsl:value-of select="string-length(string($p3))"/></p3n>
   <k><xsl:value-of select="key('k','2')"/>|<xsl:value-of select="count(key('kc','1'))"/></k>
   <xsl:apply-templates select="doc/b" mode="m"/>
   <xsl:for-each select="//c"><xsl:sort select="." data-type="number"/><n><xsl:number level="any" count="c"/>:<xsl:number level="multiple" count="b|c" format="1.a"/>:<xsl:value-of select="."/></n></xsl:for-each>
   <s1><xsl:for-each select="//c"><xsl:sort select="string-length(.)"/><xsl:value-of select="."/>,</xsl:for-each></s1>
   <s2><xsl:for-each select="//a|//c"><xsl:sort select="name()" order="descending"/><xsl:value-of select="."/>,</xsl:for-each></s2>
   <s3><xsl:apply-templates select="//c" mode="m"><xsl:sort select="count(*)" data-type="number"/></xsl:apply-templates></s3>
   <s4><xsl:for-each select="//w"><xsl:sort select="." lang="sv"/><xsl:value-of select="."/></xsl:for-each>|<xsl:for-each select="//w"><xsl:sort select="." lang="fr" order="descending"/><xsl:value-of select="."/></xsl:for-each>|<xsl:for-each select="//w"><xsl:sort select="."/><xsl:value-of select="."/></xsl:for-each></s4>
   <nn><xsl:for-each select="//*"><xsl:number level="any" count="*"/>,</xsl:for-each></nn>
   <na><xsl:for-each select="//a"><xsl:number level="any" count="a|c" from="b"/>.</xsl:for-each></na>
   <fn><xsl:value-of select="format-number(1234.5, '#,##0.00')"/>|<xsl:value-of select="format-number(-0.126, '0.0#%')"/></fn>
   <xsl:variable name="rtf"><r><xsl:copy-of select="doc/a"/></r></xsl:variable>
   <xsl:copy-of select="$rtf"/>
   <xsl:call-template name="rec"><xsl:with-param name="n" select="3"/></xsl:call-template>
   <xsl:comment><xsl:value-of select="name(/*)"/></xsl:comment>
  </o>
</xsl:template>
"""

OUT_XML = '<xsl:output method="xml" omit-xml-declaration="yes"/>'

def _sheet(output, extra_top, root_body):
    return (HEAD + output + OBS_BODY + extra_top +
            '<xsl:template match="/">' + root_body + '</xsl:template></xsl:stylesheet>')

# where an aborter stops: (name, wrapper producing the template body with ABORT inside loaded stacks)
def _deep(abort):
    """abort statement wrapped in: mode'd apply-templates -> for-each+sort -> RTF variable -> attribute -> called template"""
    return ('<out><xsl:call-template name="observe"/>'
            '<xsl:apply-templates select="doc/b" mode="boom"/></out>',
            '<xsl:template match="b" mode="boom"><xsl:for-each select="c"><xsl:sort select="." order="descending"/>'
            '<xsl:variable name="v"><w><xsl:attribute name="q"><xsl:call-template name="deep"><xsl:with-param name="n" select="2"/></xsl:call-template></xsl:attribute></w></xsl:variable>'
            '<xsl:copy-of select="$v"/></xsl:for-each></xsl:template>'
            '<xsl:template name="deep"><xsl:param name="n"/><xsl:variable name="loc" select="$n * 2"/><xsl:choose><xsl:when test="$n &gt; 0"><xsl:call-template name="deep"><xsl:with-param name="n" select="$n - 1"/></xsl:call-template></xsl:when>'
            '<xsl:otherwise>' + abort + '</xsl:otherwise></xsl:choose></xsl:template>')

def _mk_deep(abort, output=OUT_XML):
    body, extra = _deep(abort)
    return _sheet(output, extra, body)

MSG = '<xsl:message terminate="yes">stop <xsl:value-of select="$p1"/></xsl:message>'
IFBOOM = lambda inner: '<xsl:if test="$p2 = \'boom\'">' + inner + '</xsl:if>x'

NEST = ('<out><xsl:for-each select="//c"><xsl:sort select="." data-type="number"/><xsl:variable name="outer" select="."/>'
        '<xsl:for-each select="//a|//c"><xsl:sort select="name()"/><xsl:sort select="."/>'
        '<xsl:variable name="v"><r><xsl:attribute name="q"><xsl:value-of select="concat(., \'-\', $outer)"/>'
        '<xsl:for-each select="key(\'kc\', $outer)"><xsl:value-of select="position()"/>'
        '<xsl:if test="$outer = 1 and position() = last()">%s</xsl:if></xsl:for-each></xsl:attribute>'
        '<xsl:copy-of select="key(\'k\', \'2\')"/></r></xsl:variable>'
        '<xsl:copy-of select="$v"/><xsl:comment><xsl:value-of select="count(key(\'kc\', .))"/></xsl:comment>'
        '</xsl:for-each></xsl:for-each></out>')


def _coll(lang, co, order=""):
    attrs = ' lang="%s"' % lang + (' case-order="%s"' % co if co else "") + (' order="%s"' % order if order else "")
    return _sheet(OUT_XML, "", '<out l="%s" c="%s"><xsl:for-each select="//w"><xsl:sort select="."%s/><xsl:value-of select="."/></xsl:for-each>|'
                  '<xsl:apply-templates select="//w" mode="w"><xsl:sort select="translate(., \'ABC\', \'abc\')"%s/><xsl:sort select="."%s/></xsl:apply-templates>'
                  '<xsl:call-template name="observe"/></out>' % (lang, co, attrs, attrs, attrs))

# one stylesheet per decimal-format symbol: identical to `sym_base` except for that one symbol (and the pattern characters
# that the symbol redefines)
_SYMS = {"base": {}, "inf": {"infinity": "INF"}, "nan": {"NaN": "nan!"}, "minus": {"minus-sign": "~"}, "percent": {"percent": "P"},
         "permille": {"per-mille": "M"}, "decimal": {"decimal-separator": "!"}, "grouping": {"grouping-separator": "_"},
         "patsep": {"pattern-separator": "|"}, "digit": {"digit": "@"}, "zero": {"zero-digit": "a"}}


def _sym(attrs):
    dec = attrs.get("decimal-separator", "."); grp = attrs.get("grouping-separator", ","); dig = attrs.get("digit", "#")
    zero = attrs.get("zero-digit", "0"); pct = attrs.get("percent", "%"); pm = attrs.get("per-mille", "\u2030")
    psep = attrs.get("pattern-separator", ";")
    pat = "%s%s%s%s%s%s%s%s" % (dig, grp, dig, dig, zero, dec, zero, dig)
    pat2 = pat + psep + "(" + pat + ")"
    df = '<xsl:decimal-format name="d"%s/>' % "".join(' %s="%s"' % kv for kv in sorted(attrs.items()))
    vals = ["1234.5", "-0.5", "1 div 0", "-1 div 0", "0 div 0", "1234567.891"]
    body = "".join('<v><xsl:value-of select="format-number(%s, \'%s\', \'d\')"/></v>' % (v, pat) for v in vals)
    body += '<v2><xsl:value-of select="format-number(-7.25, \'%s\', \'d\')"/></v2>' % pat2
    body += '<pc><xsl:value-of select="format-number(0.256, \'%s%s\', \'d\')"/>|<xsl:value-of select="format-number(0.256, \'%s%s\', \'d\')"/></pc>' % (zero, pct, zero, pm)
    return _sheet(OUT_XML, df, '<out>' + body + '<xsl:call-template name="observe"/></out>')


# aborts at many points inside variable bodies (result tree fragments under construction)
_RTF_ABORTS = {
    "text": '<xsl:variable name="v">leak-text' + MSG + '</xsl:variable><xsl:copy-of select="$v"/>',
    "text_in_elem": '<xsl:variable name="v"><e>inner-text' + MSG + '</e></xsl:variable><xsl:copy-of select="$v"/>',
    "attr": '<xsl:variable name="v"><e><xsl:attribute name="a">attr-text' + MSG + '</xsl:attribute></e></xsl:variable><xsl:copy-of select="$v"/>',
    "nested": '<xsl:variable name="v">outer-text<xsl:variable name="w">inner-text' + MSG + '</xsl:variable><xsl:copy-of select="$w"/></xsl:variable><xsl:copy-of select="$v"/>',
    "tail": '<xsl:variable name="v"><e/><xsl:comment>c</xsl:comment>tail-text' + MSG + '</xsl:variable><xsl:copy-of select="$v"/>',
    "valueof_err": '<xsl:variable name="v"><xsl:value-of select="name(/*)"/>-vo-<xsl:value-of select="ext:nosuch()"/></xsl:variable><xsl:copy-of select="$v"/>',
    "withparam": '<xsl:call-template name="rec"><xsl:with-param name="n">param-text' + MSG + '</xsl:with-param></xsl:call-template>',
    "foreach": '<xsl:variable name="v"><xsl:for-each select="//c">item-<xsl:value-of select="."/><xsl:if test="position() = 2">' + MSG + '</xsl:if></xsl:for-each></xsl:variable><xsl:copy-of select="$v"/>',
    "text_deep": '<xsl:variable name="v"><a1><a2>deep-text<xsl:variable name="w">w-text<xsl:variable name="x">x-text' + MSG + '</xsl:variable></xsl:variable></a2></a1></xsl:variable><xsl:copy-of select="$v"/>',
}

# pairs of stylesheets that differ in one output property
_OUTS = {"decl": 'method="xml"', "standalone": 'method="xml" standalone="yes"', "doctype": 'method="xml" doctype-system="x.dtd"',
         "utf16": 'method="xml" encoding="UTF-16"', "latin1": 'method="xml" encoding="ISO-8859-1"', "ver11": 'method="xml" version="1.1"',
         "indent": 'method="xml" indent="yes"', "media": 'method="xml" media-type="text/x" omit-xml-declaration="yes"'}

# run-time QName resolution (one scratch QName per execution context serves every such lookup): declared, undeclared and
# unprefixed names, through every function that resolves a QName at run time
_QN = {
    "fa_undecl": "function-available('q:f')", "fa_decl": "function-available('ext:f1')", "fa_plain": "function-available('concat')",
    "ea_undecl": "element-available('q:e')", "ea_decl": "element-available('xsl:if')", "ea_plain": "element-available('e')",
    "fn_undecl": "format-number(1.5, '0.0', 'q:df')", "fn_plain": "format-number(1.5, '0.0', 'nodf')",
    "key_undecl": "count(key('q:k', 1))", "key_plain": "count(key('k', 1))",
    "sp_undecl": "system-property('q:p')", "sp_decl": "system-property('xsl:version')", "sp_plain": "system-property('p')",
    "fa_xml": "function-available('xml:f')", "fa_empty_prefix": "function-available(':f')",
}

SHEETS = {
    # ---- observers
    "obs": _sheet(OUT_XML, "", '<out><xsl:call-template name="observe"/></out>'),
    "obs_strip": _sheet(OUT_XML, '<xsl:strip-space elements="*"/>', '<out strip="y"><xsl:call-template name="observe"/></out>'),
    "obs_html": _sheet('<xsl:output method="html"/>', "", '<html><head><title>t</title></head><body><a href="a b&#233;.html?x=1&amp;y=&#233;">l</a><xsl:call-template name="observe"/></body></html>'),
    "obs_text": _sheet('<xsl:output method="text"/>', "", '<xsl:call-template name="observe"/>'),
    "obs_cdata": _sheet('<xsl:output method="xml" omit-xml-declaration="yes" cdata-section-elements="n i"/>', "", '<out><xsl:call-template name="observe"/></out>'),
    "obs_ind": _sheet('<xsl:output method="xml" indent="yes" encoding="ISO-8859-1"/>', "", '<out><xsl:call-template name="observe"/></out>'),
    # ---- aborters (always)
    "msg_deep": _mk_deep(MSG),
    "msg_top": _sheet(OUT_XML, "", '<out>' + MSG + '</out>'),
    "msg_rtf": _sheet(OUT_XML, "", '<out><xsl:variable name="v"><a1><a2>' + MSG + '</a2></a1></xsl:variable><xsl:copy-of select="$v"/></out>'),
    "msg_attr": _sheet(OUT_XML, "", '<out><e><xsl:attribute name="a">x' + MSG + '</xsl:attribute></e></out>'),
    "msg_attrset": _sheet(OUT_XML, '<xsl:attribute-set name="as2"><xsl:attribute name="z">' + MSG + '</xsl:attribute></xsl:attribute-set>',
                          '<out><e xsl:use-attribute-sets="as as2"><xsl:call-template name="observe"/></e></out>'),
    "msg_sortkey": _sheet(OUT_XML, "", '<out><xsl:for-each select="//c"><xsl:sort select="."/><xsl:if test=". = 2">' + MSG + '</xsl:if><z/></xsl:for-each></out>'),
    "msg_param": _sheet(OUT_XML, '<xsl:template name="t2"><xsl:param name="q"/><xsl:value-of select="$q"/></xsl:template>',
                        '<out><xsl:call-template name="t2"><xsl:with-param name="q"><y>' + MSG + '</y></xsl:with-param></xsl:call-template></out>'),
    "msg_globalvar": _sheet(OUT_XML, '<xsl:variable name="gv"><y>' + MSG + '</y></xsl:variable>', '<out><xsl:copy-of select="$gv"/></out>'),
    "xperr_deep": _mk_deep('<xsl:for-each select="$p1"><q/></xsl:for-each>'),       # string -> node-set: run-time error
    "xperr_fn": _mk_deep('<xsl:value-of select="ext:nosuch()"/>'),
    "xperr_key": _mk_deep('<xsl:value-of select="key(\'nokey\', 1)"/>'),
    "enc_unknown": _sheet('<xsl:output method="xml" encoding="no-such-encoding-c06"/>', "", '<out><xsl:call-template name="observe"/></out>'),
    "doc_missing": _mk_deep('<xsl:copy-of select="document(\'c06-no-such-file.xml\')/x"/>'),
    "char_unser": _sheet('<xsl:output method="text" encoding="US-ASCII"/>', "", '<xsl:call-template name="observe"/><xsl:text>&#233;&#x4e2d;</xsl:text>'),
    "char_comment": _sheet('<xsl:output method="xml" encoding="US-ASCII" omit-xml-declaration="yes"/>', "", '<out><xsl:call-template name="observe"/><xsl:comment>&#233;</xsl:comment><xsl:processing-instruction name="pi">&#233;</xsl:processing-instruction></out>'),
    "recurse": _sheet(OUT_XML, '<xsl:template name="inf"><xsl:param name="n"/><xsl:if test="$n &lt; 300"><d><xsl:call-template name="inf"><xsl:with-param name="n" select="$n + 1"/></xsl:call-template></d></xsl:if><xsl:if test="$n = 300">' + MSG + '</xsl:if></xsl:template>',
                      '<out><xsl:call-template name="inf"><xsl:with-param name="n" select="0"/></xsl:call-template></out>'),
    # (generated families are added below: sym_*, rtf_abort_*, out_*)
    # collation: one collator per lang is cached for the transformer's life; case-order is mutable state of it
    "coll_sv_upper": _coll("sv", "upper-first"), "coll_sv_lower": _coll("sv", "lower-first"), "coll_sv": _coll("sv", ""),
    "coll_fr_upper": _coll("fr", "upper-first"), "coll_fr": _coll("fr", ""), "coll_de_lower_desc": _coll("de", "lower-first", "descending"),
    "coll_de": _coll("de", ""), "coll_en_upper": _coll("en", "upper-first"), "coll_en": _coll("en", ""),
    # xsl:number level="any" failing inside the count / from pattern after some nodes were already collected
    "num_any_err": _sheet(OUT_XML, "", '<out><xsl:for-each select="//a"><xsl:sort select="@id" data-type="number" order="descending"/>'
                          '<n><xsl:number level="any" count="a[@ok or key(\'no-such-key\', @id)]"/></n></xsl:for-each></out>'),
    "num_from_err": _sheet(OUT_XML, "", '<out><xsl:for-each select="//c"><n><xsl:number level="any" count="c|a" from="b[@k = 1 or key(\'no-such-key\', @k)]"/></n></xsl:for-each>'
                           '<xsl:for-each select="//w"><n><xsl:number level="any" count="*" from="a[key(\'no-such-key\', @id)]"/></n></xsl:for-each></out>'),
    "num_any_all": _sheet(OUT_XML, "", '<out><xsl:for-each select="//*"><xsl:number level="any" count="*"/>,</xsl:for-each>|'
                          '<xsl:for-each select="//a"><xsl:number level="any" count="a"/>,</xsl:for-each><xsl:call-template name="observe"/></out>'),
    # format-number with decimal-formats: the ICU formatters are cached per symbol set for the transformer's life
    "fmt_df1": _sheet(OUT_XML, '<xsl:decimal-format name="df" decimal-separator="," grouping-separator="."/>',
                      '<out><xsl:value-of select="format-number(1234567.891, \'#.##0,00\', \'df\')"/>|<xsl:value-of select="format-number(0.5, \'0,0%\', \'df\')"/><xsl:call-template name="observe"/></out>'),
    "fmt_df2": _sheet(OUT_XML, '<xsl:decimal-format name="df" decimal-separator="!" grouping-separator="_" minus-sign="~" percent="P"/>',
                      '<out><xsl:value-of select="format-number(-1234567.891, \'#_##0!00\', \'df\')"/>|<xsl:value-of select="format-number(0.5, \'0!0P\', \'df\')"/><xsl:call-template name="observe"/></out>'),
    "fmt_dfdefault": _sheet(OUT_XML, '<xsl:decimal-format decimal-separator="," grouping-separator="."/>',
                            '<out><xsl:value-of select="format-number(1234567.891, \'#.##0,00\')"/></out>'),
    # failures INSIDE xsl:sort processing (after one or more keys were set up), xsl:key building, xsl:number, format-number,
    # document() in the middle of a for-each
    "sort_avt": _sheet(OUT_XML, "", '<out><xsl:for-each select="//c"><xsl:sort select="." data-type="number" order="descending"/>'
                       '<xsl:sort select="@x" order="{$p1}"/><v><xsl:value-of select="."/></v></xsl:for-each><xsl:call-template name="observe"/></out>'),
    "sort_avt3": _sheet(OUT_XML, "", '<out><xsl:apply-templates select="//c|//a" mode="m"><xsl:sort select="name()" order="descending"/>'
                        '<xsl:sort select="." order="descending"/><xsl:sort select="@id" data-type="{$p2}"/></xsl:apply-templates></out>'),
    "sort_fnerr": _sheet(OUT_XML, "", '<out><xsl:for-each select="//c"><xsl:sort select="string-length(.)" order="descending"/>'
                         '<xsl:sort select="ext:nosuch(.)"/><v><xsl:value-of select="."/></v></xsl:for-each></out>'),
    "sort_caseorder": _sheet(OUT_XML, "", '<out><xsl:for-each select="//a"><xsl:sort select="@id" data-type="number" order="descending"/>'
                             '<xsl:sort select="." case-order="{$p1}"/><v><xsl:value-of select="."/></v></xsl:for-each></out>'),
    "key_err": _sheet(OUT_XML, '<xsl:key name="kb" match="c" use="ext:nosuch(.)"/>',
                      '<out><xsl:for-each select="//c"><xsl:sort select="." order="descending"/><v><xsl:value-of select="count(key(\'kc\', .))"/>'
                      '<xsl:if test="position() = 2"><xsl:value-of select="count(key(\'kb\', 1))"/></xsl:if></v></xsl:for-each></out>'),
    "num_err": _sheet(OUT_XML, "", '<out><xsl:for-each select="//c"><xsl:sort select="." order="descending"/><xsl:number level="any" count="c"/>'
                      '<xsl:if test="position() = 2"><xsl:number value="ext:nosuch()" format="1.a"/></xsl:if></xsl:for-each></out>'),
    "num_group": _sheet(OUT_XML, "", '<out><xsl:for-each select="//c"><xsl:number value="position() * 1000" grouping-separator="," grouping-size="{$p1}"/></xsl:for-each></out>'),
    "fmt_err": _sheet(OUT_XML, '<xsl:decimal-format name="df" decimal-separator="," grouping-separator="."/>',
                      '<out><xsl:for-each select="//c"><xsl:sort select="." order="descending"/><f><xsl:value-of select="format-number(., \'0,0\', \'df\')"/></f>'
                      '<xsl:if test="position() = 2"><xsl:value-of select="format-number(1, \'0.0.0;;#\', \'nosuchformat\')"/>' + MSG + '</xsl:if></xsl:for-each></out>'),
    "doc_foreach": _sheet(OUT_XML, "", '<out><xsl:for-each select="//c"><xsl:sort select="." order="descending"/><v><xsl:value-of select="."/></v>'
                          '<xsl:if test="position() = 2"><xsl:copy-of select="document(\'c06-missing.xml\')/x"/>' + MSG + '</xsl:if></xsl:for-each></out>'),
    # nested for-each / sort / key / RTF / string building: the same body once aborting in the innermost place, once not
    "nest_abort": _sheet(OUT_XML, "", NEST % MSG),
    "nest_ok": _sheet(OUT_XML, "", NEST % ""),
    # ---- aborters switched by the sticky param p2 = 'boom'
    "sw_msg": _mk_deep(IFBOOM(MSG)),
    "sw_xperr": _mk_deep(IFBOOM('<xsl:for-each select="$p1"><q/></xsl:for-each>')),
    "sw_fn": _mk_deep('<xsl:value-of select="ext:f1()"/>'),          # fails unless f1 is installed
    # ---- bad
    "bad": HEAD + '<xsl:template match="///"><x/></xsl:template></xsl:stylesheet>',
    "bad_wf": HEAD + '<xsl:template match="/"><x></xsl:template></xsl:stylesheet>',
}
for _k, _a in _SYMS.items():
    SHEETS["sym_" + _k] = _sym(_a)
for _k, _b in _RTF_ABORTS.items():
    SHEETS["rtf_abort_" + _k] = _sheet(OUT_XML, "", "<out>" + _b + "</out>")
for _k, _e in _QN.items():
    # the lookup alone first, then the observer (which itself resolves declared-prefix names)
    SHEETS["qn_" + _k] = _sheet(OUT_XML, "", '<out><q><xsl:value-of select="%s"/></q><xsl:call-template name="observe"/><q2><xsl:value-of select="%s"/></q2></out>' % (_e, _e))
for _k, _o in _OUTS.items():
    SHEETS["out_" + _k] = _sheet("<xsl:output %s/>" % _o, "", '<out><xsl:call-template name="observe"/></out>')
BAD_SHEETS = {"bad", "bad_wf"}

SOURCES = {
    "d1": '<doc><a id="1">x</a><a id="2">y</a> <b k="1"><c>3</c><c>1</c> <c>2</c></b></doc>',
    "d2": '<doc><b k="7"><c>8</c><c>1</c></b><a id="9">p</a>\n<a id="2">q</a><b><c>1</c></b></doc>',
    "d3": '<doc xml:space="preserve"> <a id="2">only</a> </doc>',
    "d4": '<doc><a id="1">x</a><a id="2" ok="1">y</a><b k="1"><c>3</c><c>1</c></b><a id="3" ok="1">z</a><w>b</w><w>A</w><w>a</w><w>B</w><w>c</w><w>C</w><w>\u00e4</w><w>z</w></doc>',
    "dbad": '<doc><a></doc>',
}
BAD_SOURCES = {"dbad"}

GOOD_SHEETS = sorted(k for k in SHEETS if k not in BAD_SHEETS)
OBSERVERS = [k for k in GOOD_SHEETS if k.startswith(("obs", "coll_", "fmt_df", "sym_", "out_", "qn_")) or k in ("nest_ok", "num_any_all")]
ABORTERS = [k for k in GOOD_SHEETS if k not in OBSERVERS]
# (stylesheet, source) pairs for the memory probe: live bytes of the transformer's MemoryManager must not grow per call
LEAK_PROBES = [("obs", "d1"), ("rtf_abort_nested", "d1"), ("num_any_err", "d4"), ("coll_sv_upper", "d4"), ("sort_avt", "d1"), ("sort_fnerr", "d2"), ("key_err", "d1"), ("msg_deep", "d1"), ("xperr_deep", "d1"), ("msg_rtf", "d2"), ("nest_abort", "d2"), ("enc_unknown", "d1")]
GOOD_SOURCES = sorted(k for k in SOURCES if k not in BAD_SOURCES)

PARAM_EXPRS = ["'v1'", "'boom'", "'ascending'", "'descending'", "'text'", "'upper-first'", "3", "1+2", "'x_y'", "concat('a','b')", "''", "//no/such", "2*3"]
PARAM_EXPRS = [e for e in PARAM_EXPRS if " " not in e]
PARAM_NUMS = ["5", "0", "-2.5", "1e3"]
PARAM_OBJS = ["B:true", "B:false", "S:text", "S:boom"]
GFUNCS = ["g1", "g2", "f1"]          # f1 also exists as a local name: local wins while installed
IMPLS = ["1", "2", "3"]
CONFIGS = [("indent", ["0", "2", "7"]), ("enc", ["UTF-8", "ISO-8859-1", "US-ASCII", "UTF-16", "-"]), ("escurl", ["0", "1", "2"]),
           ("omitmeta", ["0", "1", "2"]), ("plistener", ["0", "1"]), ("tlistener", ["0", "1"])]
KEYS = ["p1", "p2", "p3", "unused"]
FUNCS = ["f1", "f2"]
NSLOT = 4


def defs():
    out = []
    for k in sorted(SHEETS):
        out.append("def sheet %s %s" % (k, SHEETS[k].encode("utf-8").hex()))
    for k in sorted(SOURCES):
        out.append("def src %s %s" % (k, SOURCES[k].encode("utf-8").hex()))
    return out


def gen_history(r, maxops):
    """one history: list of op lines (without 'new').  Handles are only used while live."""
    ops = []
    sheets, sources = {}, {}
    n = r.range(2, maxops)
    aborted = False
    while len(ops) < n:
        k = r.weighted([("compile", 5), ("parse", 4), ("setexpr", 5), ("setnum", 3), ("clear", 2), ("install", 3),
                        ("uninstall", 1), ("dsheet", 2), ("dsource", 2), ("transform", 12), ("transformsrc", 7),
                        ("compilebad", 1), ("parsebad", 1), ("setobj", 2), ("setnode", 2), ("ginstall", 1), ("guninstall", 1),
                        ("config", 4)])
        seed = r.below(100000)
        if k == "compile":
            s = r.choice(GOOD_SHEETS if not r.chance(1, 2) else (OBSERVERS if aborted else ABORTERS))
            slot = r.below(NSLOT)
            ops.append("compile %d %s ok" % (slot, s)); sheets[slot] = s
        elif k == "compilebad":
            ops.append("compile %d %s bad" % (r.below(NSLOT), r.choice(sorted(BAD_SHEETS))))
        elif k == "parse":
            s = r.choice(GOOD_SOURCES)
            slot = r.below(NSLOT)
            ops.append("parse %d %s ok" % (slot, s)); sources[slot] = s
        elif k == "parsebad":
            ops.append("parse %d dbad bad" % r.below(NSLOT))
        elif k == "setexpr":
            ops.append("setexpr %s %s" % (r.choice(KEYS), r.choice(PARAM_EXPRS)))
        elif k == "setnum":
            ops.append("setnum %s %s" % (r.choice(KEYS), r.choice(PARAM_NUMS)))
        elif k == "setobj":
            ops.append("setobj %s %s" % (r.choice(KEYS), r.choice(PARAM_OBJS)))
        elif k == "setnode":
            ops.append("setnode %s %s" % (r.choice(KEYS), r.choice(GOOD_SOURCES)))
        elif k == "ginstall":
            ops.append("ginstall %s G%s" % (r.choice(GFUNCS), r.choice(IMPLS)))
        elif k == "guninstall":
            ops.append("guninstall %s" % r.choice(GFUNCS))
        elif k == "config":
            cn, vs = r.choice(CONFIGS)
            ops.append("config %s %s" % (cn, r.choice(vs)))
        elif k == "clear":
            ops.append("clearparams")
        elif k == "install":
            ops.append("install %s L%s" % (r.choice(FUNCS), r.choice(IMPLS)))
        elif k == "uninstall":
            ops.append("uninstall %s" % r.choice(FUNCS))
        elif k == "dsheet":
            slot = r.below(NSLOT)
            ops.append("dsheet %d" % slot); sheets.pop(slot, None)
        elif k == "dsource":
            slot = r.below(NSLOT)
            ops.append("dsource %d" % slot); sources.pop(slot, None)
        elif k == "transform":
            if not sheets or not sources:
                # make one available instead
                if not sheets:
                    s = r.choice(ABORTERS if r.chance(1, 2) else OBSERVERS); slot = r.below(NSLOT)
                    ops.append("compile %d %s ok" % (slot, s)); sheets[slot] = s
                if not sources:
                    s = r.choice(GOOD_SOURCES); slot = r.below(NSLOT)
                    ops.append("parse %d %s ok" % (slot, s)); sources[slot] = s
                continue
            a = r.choice(sorted(sheets)); b = r.choice(sorted(sources))
            ops.append("transform %d %d %d" % (a, b, seed))
            aborted = sheets[a] in ABORTERS
        elif k == "transformsrc":
            pool = OBSERVERS if (aborted and r.chance(2, 3)) else GOOD_SHEETS + sorted(BAD_SHEETS)
            s = r.choice(pool)
            d = r.choice(GOOD_SOURCES + (["dbad"] if r.chance(1, 6) else []))
            ops.append("transformsrc %s %s %d" % (s, d, seed))
            aborted = s in ABORTERS
    return ops


def gen_session(r, maxops):
    """a history that compiles a few stylesheets and parses one or two sources ONCE and then keeps transforming with them
    (most state that can leak is keyed by the stylesheet or the source document), with parameter / configuration changes
    and an occasional text transformation in between"""
    ops = []
    nsh = r.range(2, NSLOT)
    chosen = [r.choice(ABORTERS)] + [r.choice(OBSERVERS) for _ in range(nsh - 1)]
    if r.chance(1, 2):
        chosen[-1] = r.choice(ABORTERS)
    chosen = r.shuffle(chosen)
    for i, sh in enumerate(chosen):
        ops.append("compile %d %s ok" % (i, sh))
    srcs = [r.choice(["d4", "d4", "d1", "d2", "d3"])]
    if r.chance(1, 2):
        srcs.append(r.choice(GOOD_SOURCES))
    for i, so in enumerate(srcs):
        ops.append("parse %d %s ok" % (i, so))
    n = r.range(4, maxops)
    while len(ops) < n + len(chosen) + len(srcs):
        k = r.weighted([("transform", 14), ("setexpr", 3), ("setnum", 1), ("setobj", 1), ("clear", 1), ("config", 2), ("install", 2),
                        ("uninstall", 1), ("transformsrc", 2), ("ginstall", 1), ("guninstall", 1), ("transformfl", 4)])
        seed = r.below(100000)
        if k == "transform":
            ops.append("transform %d %d %d" % (r.below(len(chosen)), r.below(len(srcs)), seed))
        elif k == "transformfl":
            ops.append("transformfl %d %d %d" % (r.below(len(chosen)), r.below(len(srcs)), seed))
        elif k == "ginstall":
            ops.append("ginstall %s G%s" % (r.choice(GFUNCS), r.choice(IMPLS)))
        elif k == "guninstall":
            ops.append("guninstall %s" % r.choice(GFUNCS))
        elif k == "transformsrc":
            ops.append("transformsrc %s %s %d" % (r.choice(GOOD_SHEETS), r.choice(srcs), seed))
        elif k == "setexpr":
            ops.append("setexpr %s %s" % (r.choice(KEYS), r.choice(PARAM_EXPRS)))
        elif k == "setnum":
            ops.append("setnum %s %s" % (r.choice(KEYS), r.choice(PARAM_NUMS)))
        elif k == "setobj":
            ops.append("setobj %s %s" % (r.choice(KEYS), r.choice(PARAM_OBJS)))
        elif k == "clear":
            ops.append("clearparams")
        elif k == "config":
            cn, vs = r.choice(CONFIGS)
            ops.append("config %s %s" % (cn, r.choice(vs)))
        elif k == "install":
            ops.append("install %s L%s" % (r.choice(FUNCS), r.choice(IMPLS)))
        elif k == "uninstall":
            ops.append("uninstall %s" % r.choice(FUNCS))
    return ops


# minimised past failures / design candidates; run first
CORPUS = [
    # one case per break of the independent seeding rounds (D, C, B, ...), first so that they run at every seed before anything else
    ("counters-after-pattern-error", ["compile 0 num_any_err ok", "compile 1 num_any_all ok", "compile 2 num_from_err ok", "compile 3 obs ok", "parse 0 d4 ok",
                                      "transform 1 0 1", "transform 0 0 2", "transform 1 0 3", "transform 2 0 4", "transform 1 0 5", "transform 3 0 6",
                                      "transform 0 0 7", "transform 3 0 8"]),
    ("collator-case-order", ["compile 0 coll_sv_upper ok", "compile 1 coll_sv ok", "compile 2 coll_sv_lower ok", "parse 0 d4 ok",
                             "transform 1 0 1", "transform 0 0 2", "transform 1 0 3", "transform 2 0 4", "transform 1 0 5", "transform 0 0 6",
                             "transformsrc coll_fr_upper d4 7", "transformsrc coll_fr d4 8", "transformsrc coll_de_lower_desc d4 9", "transformsrc coll_de d4 10",
                             "transformsrc obs d4 11", "transformsrc coll_en_upper d4 12", "transformsrc coll_en d4 13", "transformsrc obs d4 14"]),
    ("stale-sort-keys", ["compile 0 sort_avt ok", "compile 1 obs ok", "compile 2 sort_fnerr ok", "parse 0 d1 ok", "parse 1 d2 ok",
                         "transform 0 0 1", "transform 1 0 2", "transform 1 1 3", "transform 2 1 4", "transform 1 1 5", "transform 1 0 6",
                         "setexpr p1 'ascending'", "transform 0 0 7", "transform 1 0 8", "setexpr p1 'bogus'", "transform 0 1 9", "transform 1 1 10"]),
    ("decimal-formats", ["compile 0 fmt_df1 ok", "compile 1 fmt_df2 ok", "compile 2 obs ok", "parse 0 d1 ok", "transform 2 0 1", "transform 0 0 2", "transform 2 0 3",
                         "transform 1 0 4", "transform 0 0 5", "transformsrc fmt_dfdefault d1 6", "transform 2 0 7", "transformsrc fmt_err d1 8", "transform 1 0 9",
                         "transform 2 0 10"]),
    # F1: last write does not win when the same key is set as expression, then as number
    # breaks E/F of the third seeding: text left in a pooled fragment builder; cache key not carrying every symbol
    ("rtf-abort-points", sum([["transformsrc rtf_abort_%s d1 %d" % (k, i), "transformsrc obs d1 %d" % i] for i, k in enumerate(sorted(_RTF_ABORTS))], [])),
    ("decimal-format-symbol-pairs", sum([["transformsrc sym_%s d1 %d" % (k, i), "transformsrc sym_base d1 %d" % i, "transformsrc obs d1 %d" % i]
                                         for i, k in enumerate(sorted(_SYMS)) if k != "base"], [])),
    ("decimal-format-symbol-pairs-rev", sum([["transformsrc sym_base d1 %d" % i, "transformsrc sym_%s d1 %d" % (k, i)]
                                             for i, k in enumerate(sorted(_SYMS)) if k != "base"], [])),
    ("output-property-pairs", ["compile 0 out_decl ok", "parse 0 d1 ok"] + sum([["transformsrc out_%s d1 %d" % (k, i), "transform 0 0 %d" % i]
                                                                                for i, k in enumerate(sorted(_OUTS)) if k != "decl"], [])),
    # seeded break H: a second install under an installed name ignored (map insert instead of assignment); and the
    # configuration alphabet with repeats / overrides / removals, local and process-wide
    ("function-reinstall", ["install f1 L1", "transformsrc obs d1 1", "install f1 L2", "transformsrc obs d1 2", "install f2 L1", "install f1 L3",
                            "transformsrc obs d1 3", "uninstall f1", "transformsrc obs d1 4", "install f1 L1", "transformsrc obs d1 5",
                            "ginstall f1 G1", "transformsrc obs d1 6", "uninstall f1", "transformsrc obs d1 7", "ginstall f1 G2", "ginstall g1 G1",
                            "transformsrc obs d1 8", "ginstall g1 G3", "transformsrc obs d1 9", "guninstall f1", "guninstall g1", "transformsrc obs d1 10"]),
    ("config-overrides", ["config indent 2", "config indent 7", "config enc UTF-16", "config enc ISO-8859-1", "config escurl 1", "config escurl 2",
                          "config omitmeta 1", "config omitmeta 2", "config plistener 1", "config plistener 0", "config plistener 1", "config tlistener 1",
                          "config tlistener 0", "transformsrc obs_html d1 1", "transformsrc obs_ind d1 2", "config enc -", "config indent 0",
                          "config tlistener 1", "transformsrc obs_ind d1 3", "transformsrc msg_deep d1 4", "transformsrc obs_html d1 5"]),
    # seeded break G: cleanUpTransients skipped when the target is a caller-supplied FormatterListener
    ("formatter-listener-target", ["compile 0 obs_text ok", "compile 1 num_any_all ok", "parse 0 d4 ok", "parse 1 d1 ok", "transformfl 0 0 1", "transformfl 1 0 2",
                                   "dsource 0", "parse 0 d2 ok", "transformfl 0 0 3", "transformfl 1 0 4", "transform 0 0 5", "transformfl 0 1 6",
                                   "dsource 1", "parse 1 d4 ok", "transformfl 1 1 7", "transformfl 0 1 8", "transform 1 1 9"]),
    # run-time QName lookups in every order: each one alone on a new transformer history, after a declared-prefix lookup, after
    # an undeclared one, across transformations
    ("qname-lookups", sum([["transformsrc qn_%s d1 %d" % (k, i), "transformsrc obs d1 %d" % i, "transformsrc qn_%s d1 %d" % (k, i)]
                           for i, k in enumerate(sorted(_QN))], [])),
    ("qname-lookups-first", ["transformsrc qn_fa_undecl d1 1"]),
    ("param-overwrite", ["setexpr p1 'a'", "setnum p1 5", "transformsrc obs d1 1"]),
    ("param-overwrite-2", ["setnum p1 5", "setexpr p1 'a'", "setnum p1 7", "compile 0 obs ok", "parse 0 d1 ok", "transform 0 0 2"]),
    # abort at depth, then observe with another source at (very likely) the same address
    ("abort-then-observe", ["compile 0 msg_deep ok", "compile 1 obs ok", "parse 0 d1 ok", "transform 0 0 1", "dsource 0",
                            "parse 0 d2 ok", "transform 1 0 2", "transform 0 0 3", "transform 1 0 4"]),
    ("strip-then-nostrip", ["transformsrc obs_strip d1 1", "transformsrc obs d1 2", "transformsrc obs_strip d3 3", "transformsrc obs d3 4"]),
    ("keys-stale-doc", ["compile 0 obs ok", "parse 0 d1 ok", "transform 0 0 1", "dsource 0", "parse 0 d2 ok", "transform 0 0 2"]),
    ("every-aborter", sum([["transformsrc %s d1 %d" % (s, i), "transformsrc obs d2 %d" % i] for i, s in enumerate(ABORTERS)], [])),
    ("sticky-through-abort", ["setexpr p2 'boom'", "setexpr p1 'v'", "install f1 L1", "transformsrc sw_msg d1 1", "transformsrc obs d1 2",
                              "clearparams", "transformsrc sw_msg d1 3", "uninstall f1", "transformsrc sw_fn d1 4", "transformsrc obs d2 5"]),
    ("all-param-kinds-between-aborts", ["setexpr p1 'e'", "setnum p2 5", "setobj p3 B:true", "transformsrc msg_deep d1 1", "transformsrc obs d1 2",
                                        "setnode p3 d3", "setobj p1 S:boom", "transformsrc sw_xperr d2 3", "clearparams", "transformsrc obs d2 4",
                                        "setnode p1 d1", "transformsrc xperr_deep d1 5", "transformsrc obs d1 6", "clearparams", "transformsrc obs d1 7"]),
    ("config-sticky", ["config indent 7", "config enc ISO-8859-1", "config escurl 2", "config omitmeta 2", "config plistener 1", "config tlistener 1",
                       "transformsrc obs_html d1 1", "transformsrc msg_deep d1 2", "transformsrc obs_ind d2 3", "transformsrc obs_html d2 4",
                       "config plistener 0", "config tlistener 0", "config enc -", "transformsrc obs_ind d1 5", "transformsrc obs_html d1 6"]),
    ("global-functions", ["ginstall g1 G1", "transformsrc obs d1 1", "install f1 L1", "ginstall g2 G1", "transformsrc msg_deep d1 2", "transformsrc obs d1 3",
                          "guninstall g1", "transformsrc obs d1 4", "uninstall f1", "guninstall g2", "transformsrc obs d1 5"]),
    ("slot-reuse", ["compile 0 obs ok", "parse 0 d1 ok", "transform 0 0 1", "dsheet 0", "compile 0 msg_deep ok", "transform 0 0 2", "dsheet 0",
                    "compile 0 obs_strip ok", "dsource 0", "parse 0 d2 ok", "transform 0 0 3", "compile 1 obs ok", "transform 1 0 4", "dsource 0",
                    "parse 0 d3 ok", "transform 1 0 5", "transform 0 0 6"]),
    # F2: abort deep inside nested for-each/sort/key/RTF, then stylesheets that borrow the same cache slots
    ("objstack-reuse-after-abort", ["transformsrc nest_abort d2 1", "transformsrc nest_ok d2 2", "transformsrc nest_abort d1 3", "transformsrc nest_abort d2 4",
                                    "transformsrc nest_ok d1 5", "transformsrc obs d1 6", "transformsrc nest_ok d2 7"]),
    # break B of the independent seeding: sort keys surviving an abort inside sortChildren
    ("stale-sort-keys-src", ["transformsrc sort_avt d1 1", "transformsrc obs d1 2", "transformsrc sort_avt3 d2 3", "transformsrc obs d2 4",
                             "transformsrc sort_fnerr d1 5", "transformsrc obs_strip d1 6", "transformsrc sort_caseorder d2 7", "transformsrc nest_ok d2 8"]),
    ("abort-in-key-number-format", ["compile 0 obs ok", "parse 0 d1 ok", "parse 1 d2 ok", "transformsrc key_err d1 1", "transform 0 0 2", "transformsrc num_err d2 3",
                                    "transform 0 1 4", "transformsrc fmt_err d1 5", "transform 0 0 6", "transformsrc doc_foreach d2 7", "transform 0 1 8",
                                    "transformsrc num_group d1 9", "transform 0 0 10"]),
    # break C of the second seeding: case-order left on the cached per-lang collator
    # break D of the second seeding: CountersTable scratch list left behind by a failing count pattern, same parsed source
    ("destroy-twice", ["compile 0 obs ok", "dsheet 0", "dsheet 0", "dsource 1", "parse 1 d1 ok", "dsource 1", "dsource 1"]),
]
