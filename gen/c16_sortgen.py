"""Generator for C16: abstract sort cases -> (request line, XML document, stylesheet, expectations).

A case is
  mode      'fe' (xsl:for-each) | 'at' (xsl:apply-templates)
  nest      bool   the sorted instruction sits inside <xsl:for-each select="/r/g"> with a relative select
  keys      list of dict(number, desc, form, deco)    one per xsl:sort
  rows      list of list of value     value = ('t', text) | ('n', lexical-or-(a,b), float)
All random choices come from the Rng handed in.  String keys are fixed-length lower-case ASCII (or
empty) so that ICU collation coincides with code-unit order, which is what the Lean driver uses.
"""
import math
import struct

PROBE_NS = "urn:verif:c16"

SENTINEL = 135792468.0


def bits(x):
    return "%016x" % struct.unpack(">Q", struct.pack(">d", x))[0]


def fmt_num(v):
    """XPath number -> string for the (exactly representable, modest) values of the pool"""
    if v != v:
        return ["NaN"]
    if v == math.inf:
        return ["Infinity"]
    if v == -math.inf:
        return ["-Infinity"]
    if v == 0:
        return ["0", "-0"]
    if v == int(v):
        return [str(int(v))]
    return [repr(v)]


NAN = float("nan")


def xpath_number(s):
    """EXACT oracle for the XPath 1.0 string -> number conversion (the C18 statement): optional white space, optional
    '-', then `Digits ('.' Digits?)? | '.' Digits`, optional white space, converted as the exact rational rounded to
    nearest-even (python: float(Fraction)); anything else is NaN (no '+', no exponent, no inner space, no hex,
    no non-ASCII digits, no 'Infinity')."""
    import re
    from fractions import Fraction
    t = s.strip(" \t\r\n")
    if not re.fullmatch(r"-?(?:[0-9]+(?:\.[0-9]*)?|\.[0-9]+)", t):
        return NAN
    neg = t.startswith("-")
    t = t.lstrip("-")
    ip, _, fp = t.partition(".")
    fr = Fraction(int(ip or "0")) + (Fraction(int(fp), 10 ** len(fp)) if fp else 0)
    v = float(fr)
    return -v if neg else v


# lexical forms (string -> number per XPath 1.0 `Number` with optional surrounding white space and '-')
LEX_POOL = [
    ("0", 0.0), ("-0", -0.0), ("1", 1.0), ("2", 2.0), ("3", 3.0), ("-1", -1.0), ("-2", -2.0), ("10", 10.0),
    ("1.0", 1.0), ("01", 1.0), (" 2 ", 2.0), ("2.5", 2.5), ("-2.25", -2.25), ("0.5", 0.5), (".5", 0.5),
    ("100", 100.0), ("1000000", 1e6), ("1000000000000000", 1e15),
    ("135792468", SENTINEL), ("135792468.0", SENTINEL), (" 135792468", SENTINEL), ("135792467", 135792467.0),
    ("135792469", 135792469.0), ("-135792468", -SENTINEL),
    ("", NAN), ("ab", NAN), ("NaN", NAN), ("1e3", NAN), ("--1", NAN), ("1 2", NAN), ("Infinity", NAN),
]
# further spellings whose value is taken from the exact oracle (valid numerals incl. non-dyadic and > 2^53 ones,
# and strings that must be NaN)
for _lex in ["1.", "-.5", "-0.0", "00012.500", "0.1", "0.3", "123456789.125", "12345678901234567890", "9007199254740993",
             "  7\t\n", "0.000001", "1000000000000000000000", "- 1", "+1", "1,5", "0x10", "1e-3", ".", "-", "7 7", "\u0661",
             "1.5.2", "4.9e-324", "-Infinity"]:
    LEX_POOL.append((_lex, xpath_number(_lex)))
# the hand-written values above must agree with the oracle
for _lex, _v in LEX_POOL:
    _o = xpath_number(_lex)
    assert (_o != _o and _v != _v) or bits(_o) == bits(_v), (_lex, _v, _o)

# (a, b) pairs evaluated as `@a div @b`
DIV_POOL = [
    (("1", "0"), math.inf), (("-1", "0"), -math.inf), (("0", "0"), NAN), (("0", "-1"), -0.0), (("0", "1"), 0.0),
    (("1", "1"), 1.0), (("2", "1"), 2.0), (("3", "2"), 1.5), (("-1", "1"), -1.0), (("5", "2"), 2.5),
    (("135792468", "1"), SENTINEL), (("271584936", "2"), SENTINEL), (("x", "1"), NAN), (("10", "1"), 10.0),
]

# forms cur / curtab / curkey / genid depend on the CURRENT node during key evaluation (XSLT 10: the node being sorted);
# pos / rpos / tpos on the context position and size (the full unsorted list)
TEXT_FORMS = ["attr", "attr", "child", "string", "concat", "dot", "probe", "cur", "curtab", "curkey", "genid", "tpos"]
NUM_FORMS = ["attr", "attr", "child", "number", "div", "div", "dot", "probe", "pos", "rpos", "cur", "curtab", "curkey", "genid"]
TPOS = "zyxwvutsrqponmlkjihgfedcba"


def gen_value(r, key, profile):
    """profile narrows the pool so that duplicates are frequent"""
    if key["number"]:
        if key["form"] == "div":
            pool = DIV_POOL if profile != "few" else DIV_POOL[:6] + DIV_POOL[10:12]
            lex, v = r.choice(pool)
        else:
            if profile == "few":
                pool = [LEX_POOL[i] for i in (0, 1, 2, 3, 8, 18, 19, 24, 25)]
            elif profile == "sentinel":
                pool = [LEX_POOL[i] for i in (2, 18, 19, 20, 21, 22, 24)]
            else:
                pool = LEX_POOL
            lex, v = r.choice(pool)
        return ("n", lex, v)
    if profile == "few":
        alpha = ["", "aa", "ab"]
    elif profile == "sentinel":
        alpha = ["", "", "aa", "ba"]
    else:
        alpha = ["", "aa", "ab", "ac", "ba", "bb", "ca", "zz", "az"]
    return ("t", r.choice(alpha))


def finalize_key(k, j):
    """derive the attributes as written (`*_attr`, None = omitted) and as evaluated (`*_raw`; `~` absent, `^` empty)"""
    odd = k.get("odd", "")
    # data-type
    val = "number" if k["number"] else "text"
    if odd == "dt-ns":
        k["dt_attr"], k["dt_raw"] = "p:foo", "p:foo"
    elif odd == "dt-empty-avt":
        k["dt_attr"], k["dt_raw"] = "{/r/@nope}", "^"
    elif odd == "bad-dt":
        k["dt_attr"], k["dt_raw"] = "foo", "foo"
    elif odd == "bad-dt-case":
        k["dt_attr"], k["dt_raw"] = "Number", "Number"
    elif k["type_deco"] == "avt":
        k["dt_attr"], k["dt_raw"] = "{/r/@t%d}" % j, val
    elif k["type_deco"] == "lit" or k["number"]:
        k["dt_attr"], k["dt_raw"] = val, val
    else:
        k["dt_attr"], k["dt_raw"] = None, "~"
    # order
    val = "descending" if k["desc"] else "ascending"
    if odd == "order-empty-avt":
        k["order_attr"], k["order_raw"] = "{/r/@nope}", "^"
    elif odd == "bad-order":
        k["order_attr"], k["order_raw"] = "upwards", "upwards"
    elif odd == "bad-order-case":
        k["order_attr"], k["order_raw"] = "Descending", "Descending"
    elif k["order_deco"] == "avt":
        k["order_attr"], k["order_raw"] = "{/r/@o%d}" % j, val
    elif k["order_deco"] == "lit" or k["desc"]:
        k["order_attr"], k["order_raw"] = val, val
    else:
        k["order_attr"], k["order_raw"] = None, "~"
    # case-order / lang
    k["co_attr"], k["co_raw"], k["lang_attr"] = None, "~", None
    if odd == "bad-co":
        k["co_attr"], k["co_raw"] = "upper", "upper"
    elif k["extra"] == "case-upper" and not k["number"]:
        k["co_attr"], k["co_raw"] = "upper-first", "upper-first"
    elif k["extra"] == "case-lower" and not k["number"]:
        k["co_attr"], k["co_raw"] = "lower-first", "lower-first"
    elif k["extra"] == "lang-en" and not k["number"]:
        k["lang_attr"] = "en"
    return k


def expects_error(case):
    return len(case["rows"]) > 1 and (any(k.get("odd", "").startswith("bad-") for k in case["keys"]) or bool(case.get("abort")))


def gen_abort_pair(r, maxn=10):
    """a sort that ABORTS after some key values were cached (a run-time error in a later key expression, reached
    only when two nodes tie on the keys before it; or in an AVT of a later xsl:sort), followed on the same
    transformer by an ordinary sort with the same key types and no more nodes"""
    while True:
        first = gen_case(r, maxn=maxn, maxkeys=r.range(1, 3))
        if len(first["rows"]) >= 3 and not any(k.get("odd") for k in first["keys"]) \
                and not any(k["form"] in ("pos", "rpos", "tpos") for k in first["keys"]):
            break
    first["abort"] = r.weighted([("boom", 4), ("badkey", 3), ("nofunc", 2), ("avt", 2)])
    first.pop("reenter", None)
    if r.chance(1, 8):
        first["keys"], first["rows"] = [], [[] for _ in first["rows"]]      # the aborting key is the only key
    n = len(first["rows"])
    # make a tie on all ordinary keys likely: copy a row
    if n >= 2 and r.chance(3, 4):
        first["rows"][r.below(n)] = list(first["rows"][r.below(n)])
    import copy
    second = copy.deepcopy(first)
    second.pop("abort")
    second["rows"] = []
    m = r.range(2, n)
    prof = r.choice(["few", "wide", "sentinel"])
    for _ in range(m):
        second["rows"].append([gen_value(r, k, prof) for k in second["keys"]])
    if not second["keys"]:
        k = {"number": r.chance(1, 2), "desc": r.chance(1, 2), "form": "attr", "order_deco": "lit", "type_deco": "lit", "extra": "", "odd": ""}
        finalize_key(k, 0)
        second["keys"] = [k]
        second["rows"] = [[gen_value(r, k, prof)] for _ in range(m)]
    second["noise"] = [False] * (m + 1) if second.get("subset") else []
    second["mode"] = r.choice(["fe", "at"])
    return [first, second]


PRE_KINDS = ["anc", "self", "sib", "allsib", "pred", "predself", "sortdesc", "sortasc", "back", "backsib"]


def gen_reenter(r, keys):
    """a sort key (or an order AVT) whose evaluation is the FIRST reference to a lazily evaluated top-level
    variable/param the body of which runs another sort: the sorter is re-entered while the outer sort is active"""
    if not r.chance(1, 5) or not keys:
        return None
    kind = r.weighted([("var", 4), ("param", 2), ("tmpl", 2), ("avt", 2), ("var2", 2)])
    if kind == "avt":
        cand = [j for j, k in enumerate(keys) if not k.get("odd")]
    else:
        cand = [j for j, k in enumerate(keys) if k["form"] == "attr"]
    if not cand:
        return None
    return {"kind": kind, "key": r.choice(cand)}


def expected_global(case):
    """what {G:…} must print: the result of the sort run inside the variable body"""
    re_ = case.get("reenter") if not case.get("abort") else None
    if not re_ or re_["key"] >= len(case["keys"]):
        return None
    n = len(case["rows"])
    if re_["kind"] == "avt":
        if n == 0:
            return ""
        k = case["keys"][re_["key"]]
        return "descending" if k["desc"] else "ascending"
    return "".join("%d," % i for i in reversed(range(n)))


def gen_pre_body(r):
    """0-3 inner constructs run at the start of the sorted body (each kind at most once)"""
    k = r.weighted([(0, 2), (1, 5), (2, 3), (3, 1)])
    return r.shuffle(PRE_KINDS)[:k]


def gen_case(r, maxn=12, maxkeys=4):
    nkeys = r.weighted([(1, 4), (2, 5), (3, 3), (4, 2)])
    nkeys = min(nkeys, maxkeys)
    n = r.weighted([(0, 1), (1, 1), (2, 3), (3, 3), (r.range(4, max(4, maxn)), 12)])
    keys = []
    used_dot = False
    used_child = False
    for j in range(nkeys):
        number = r.chance(1, 2)
        desc = r.chance(1, 2)
        odd = r.weighted([("", 60), ("dt-ns", 1), ("dt-empty-avt", 1), ("order-empty-avt", 1), ("bad-order", 1),
                          ("bad-order-case", 1), ("bad-dt", 1), ("bad-dt-case", 1), ("bad-co", 1)])
        if odd in ("dt-ns", "dt-empty-avt", "bad-dt", "bad-dt-case"):
            number = False
        if odd in ("order-empty-avt", "bad-order", "bad-order-case"):
            desc = False
        forms = NUM_FORMS if number else TEXT_FORMS
        form = r.choice(forms)
        if form == "dot" and (used_dot or used_child):
            form = "attr"
        if form == "child" and used_dot:
            form = "attr"
        used_dot = used_dot or form == "dot"
        used_child = used_child or form == "child"
        k = {
            "number": number, "desc": desc, "form": form, "odd": odd,
            # how the attributes are written: lit = literal, omit = rely on the default, avt = {…} expression
            "order_deco": r.weighted([("lit", 5), ("omit", 3), ("avt", 2)]),
            "type_deco": r.weighted([("lit", 5), ("omit", 3), ("avt", 2)]),
            "extra": r.weighted([("", 12), ("case-upper", 1), ("case-lower", 1), ("lang-en", 1)]),
        }
        finalize_key(k, j)
        keys.append(k)
    profile = r.weighted([("few", 5), ("sentinel", 2), ("wide", 3)])
    rows = [[gen_value(r, k, profile) for k in keys] for _ in range(n)]
    for i, row in enumerate(rows):
        for j, k in enumerate(keys):
            # keys computed from the context position / size during key evaluation (document order of the selection)
            if k["form"] == "pos":
                row[j] = ("n", "#pos", float((i + 1) // 2))
            elif k["form"] == "rpos":
                row[j] = ("n", "#rpos", float(n - (i + 1)))
            elif k["form"] == "tpos":
                row[j] = ("t", TPOS[i:i + 1])
    # unselected nodes interleaved in the document (selection by @sel)
    subset = r.chance(1, 3)
    return {"mode": r.choice(["fe", "at"]), "nest": r.chance(1, 3), "keys": keys, "rows": rows,
            "subset": subset, "noise": [r.chance(1, 3) for _ in range(n + 1)] if subset else [],
            "selvar": r.chance(1, 5), "inner_sort": r.chance(1, 6),
            "at_mode": r.chance(1, 3), "with_param": r.weighted([(False, 4), ("first", 1), ("last", 1)]),
            "inner_same": r.chance(1, 6) and n <= 12,
            "pre_body": gen_pre_body(r), "pos_first": r.chance(3, 4),
            "reenter": gen_reenter(r, keys)}


UALPHA = ["a", "b", "A", "B", "z", "Z", "\u00e9", "\u00c9", "e\u0301", "\u00e0", "\u00e4", "\u00df", "ss", "1", "2", "10", " ",
          "-", "\u4e2d", "\u03b1", "\u0431", "\U0001d49c", "ae", "\u00e6", "o", "\u00f6", "\u00d8", "_", ".", "~"]


LONGTAG = "en-" + "a" * 160      # >= ULOC_FULLNAME_CAPACITY: ICU collator cannot be created -> code-unit fallback
LANGS = ["-", "en", "sv", "de", "da", "en-US", "-", "en", "sv", "de", "da", "en-US", "zz-unknown", LONGTAG]
UALPHA2 = ["a", "A", "b", "B", "o", "O", "\u00f6", "\u00d6", "z", "Z", "\u00e4", "y", "\u00fc", "v", "w", "e", "\u00e9"]


def gen_ucase(r, maxn=12):
    """second stream: arbitrary Unicode text keys; every xsl:sort has its OWN lang / case-order; the oracle is a fresh
    ICU collator per key (harness `coll`)"""
    case = gen_case(r, maxn=maxn, maxkeys=r.weighted([(1, 3), (2, 4), (3, 2), (4, 1)]))
    for k in case["keys"]:
        if k.get("odd", "").startswith("bad-"):
            k["odd"] = ""
        if k["form"] == "tpos":
            k["form"] = "cur"
    style = r.weighted([("mixed", 4), ("casey", 5)])
    pool = [""]
    if style == "casey":
        # words that differ only in case (and a few that differ in a language-sensitive letter)
        nbase = r.range(1, 3)
        for _ in range(nbase):
            w = "".join(r.choice(["a", "b", "o", "z", "\u00f6", "e"]) for _ in range(r.range(1, 2)))
            for v in (w, w.upper(), w.capitalize(), w + "z", w + "\u00f6"):
                if v not in pool and r.chance(3, 4):
                    pool.append(v)
    npool = max(len(pool), r.range(2, 7))
    guard = 0
    while len(pool) < npool and guard < 100:
        guard += 1
        w = "".join(r.choice(UALPHA if style == "mixed" else UALPHA2) for _ in range(r.range(1, 3)))
        if w not in pool and w.strip() == w:
            pool.append(w)
    case["pool"] = pool
    profile = r.weighted([("same", 3), ("mixed-lang", 4), ("mixed-co", 3), ("free", 2)])
    base = [r.choice([0, 0, 1, 2]), r.choice(LANGS)]
    for j, k in enumerate(case["keys"]):
        k["extra"] = ""
        finalize_key(k, j)
        if k["number"]:
            continue
        if profile == "same":
            co, lang = base
        elif profile == "mixed-lang":
            co, lang = base[0], r.choice(LANGS)
        elif profile == "mixed-co":
            co, lang = r.choice([0, 1, 2]), base[1]
        else:
            co, lang = r.choice([0, 1, 2]), r.choice(LANGS)
        k["coll"] = [co, lang]
        k["co_attr"], k["co_raw"] = {0: (None, "~"), 1: ("upper-first", "upper-first"), 2: ("lower-first", "lower-first")}[co]
        k["lang_attr"] = None if lang == "-" else lang
    for row in case["rows"]:
        for j, k in enumerate(case["keys"]):
            if not k["number"]:
                row[j] = ("t", r.choice(pool))
    # an earlier sort in the SAME transformation with the same lang and another case-order (result discarded):
    # a collator cached per language must not keep the earlier UCOL_CASE_FIRST
    text = [j for j, k in enumerate(case["keys"]) if not k["number"]]
    if text and r.chance(1, 2):
        j = r.choice(text)
        co, lang = case["keys"][j]["coll"]
        case["pre_sort"] = {"key": j, "co": r.choice([c for c in (0, 1, 2) if c != co]), "lang": lang}
    return case


def coll_lines(case):
    """one oracle request per text key: that key's own (case-order, lang)"""
    strs = " ".join(u16hex(w) for w in case["pool"])
    return ["coll %d %s %s" % (k["coll"][0], k["coll"][1], strs) for k in case["keys"] if not k["number"]]


def set_matrices(case, mats):
    it = iter(mats)
    case["matrix"] = ";".join("-" if k["number"] else next(it) for k in case["keys"])


def u16hex(w):
    b = w.encode("utf-16-be")
    return b.hex() if b else "-"


def esc(s):
    return (s.replace("&", "&amp;").replace("<", "&lt;").replace('"', "&quot;")
            .replace("\t", "&#9;").replace("\n", "&#10;").replace("\r", "&#13;"))


def key_expr(j, key):
    f = key["form"]
    if f == "attr":
        return "@k%d" % j
    if f == "child":
        return "c%d" % j
    if f == "string":
        return "string(@k%d)" % j
    if f == "concat":
        return "concat(@k%d,'')" % j
    if f == "number":
        return "number(@k%d)" % j
    if f == "div":
        return "@a%d div @b%d" % (j, j)
    if f == "dot":
        return "."
    if f == "probe":
        return "p:probe(%d,@id,@k%d)" % (j, j)
    if f == "pos":
        return "floor(position() div 2)"
    if f == "rpos":
        return "last() - position()"
    if f == "tpos":
        return "substring('%s', position(), 1)" % TPOS
    if f == "cur":
        return "current()/@k%d" % j
    if f == "curtab":
        return "/r/t/s[@ref = current()/@id]/@v%d" % j
    if f == "curkey":
        return "key('kid', current()/@id)/@v%d" % j
    if f == "genid":
        return "../e[generate-id() = generate-id(current())]/@k%d" % j
    raise ValueError(f)


def build(case):
    """-> (request_line, xml, xsl)"""
    keys, rows = case["keys"], case["rows"]
    # ---- document
    rootattrs = []
    for j, k in enumerate(keys):
        rootattrs.append('o%d="%s"' % (j, "descending" if k["desc"] else "ascending"))
        rootattrs.append('t%d="%s"' % (j, "number" if k["number"] else "text"))
    parts = ["<r %s><g>" % " ".join(rootattrs)]
    side = {}
    noise = case.get("noise") or []

    def noise_elem(i):
        return '<e id="x%d" sel="0" %s/>' % (i, " ".join('k%d="ab" a%d="1" b%d="1"' % (j, j, j) for j in range(len(keys))))
    for i, row in enumerate(rows):
        if noise and noise[i]:
            parts.append(noise_elem(i))
        attrs = ['id="%d"' % i, 'sel="1"']
        kids = []
        text = ""
        for j, (k, v) in enumerate(zip(keys, row)):
            lex = v[1]
            f = k["form"]
            if f == "div":
                attrs.append('a%d="%s" b%d="%s"' % (j, esc(lex[0]), j, esc(lex[1])))
            elif f == "child":
                kids.append("<c%d>%s</c%d>" % (j, esc(lex), j))
            elif f == "dot":
                text = esc(lex)
            elif f in ("pos", "rpos", "tpos"):
                pass
            elif f in ("curtab", "curkey"):
                side.setdefault(i, []).append('v%d="%s"' % (j, esc(lex)))
            else:
                attrs.append('k%d="%s"' % (j, esc(lex)))
        parts.append("<e %s>%s%s</e>" % (" ".join(attrs), "".join(kids), text))
    if noise and noise[len(rows)]:
        parts.append(noise_elem(len(rows)))
    parts.append("</g>")
    # side table looked up through current()/@id (rows in reverse order, so that document order does not help)
    parts.append("<t>" + "".join('<s ref="%d" %s/>' % (i, " ".join(side[i])) for i in sorted(side, reverse=True)) + "</t>")
    parts.append("</r>")
    xml = '<?xml version="1.0"?>' + "".join(parts)

    # ---- stylesheet
    sorts = []
    echo = []
    for j, k in enumerate(keys):
        a = []
        re_ = case.get("reenter") if not case.get("abort") else None
        if re_ and re_["key"] == j and re_["kind"] in ("var", "param", "tmpl", "var2") and k["form"] == "attr":
            # the FIRST reference to the top-level variable/param $g is inside this sort key; its body sorts
            # (re-entrant use of the execution context's NodeSorter).  The predicate is true: the key is unchanged.
            a.append('select="@k%d[string($g) != \'~\']"' % j)
        elif not (k["form"] == "dot" and j % 2 == 0):
            a.append('select="%s"' % key_expr(j, k))
        # else: no select attribute at all (default: string-value of the node)
        if "dt_raw" not in k:
            finalize_key(k, j)
        for nm, key in (("data-type", "dt_attr"), ("order", "order_attr"), ("case-order", "co_attr"), ("lang", "lang_attr")):
            if nm == "order" and re_ and re_["kind"] == "avt" and re_["key"] == j and not k.get("odd"):
                a.append('order="{$gord}"')      # the AVT's first reference to $gord runs a sort
            elif k.get(key) is not None:
                a.append('%s="%s"' % (nm, k[key]))
        sorts.append("<xsl:sort %s/>" % " ".join(a))
        e = key_expr(j, k).replace("p:probe(%d,@id,@k%d)" % (j, j), "@k%d" % j)
        if k["form"] in ("pos", "rpos", "tpos"):
            echo.append("|p")
        elif k["number"]:
            # exact observation of the key value: IEEE bits of number(expr)
            echo.append('|<xsl:value-of select="p:bits(%s)"/>' % e)
        else:
            echo.append('|<xsl:value-of select="string(%s)"/>' % e)
    ab = case.get("abort")
    if ab:
        expr = {"boom": "p:boom(@id)", "badkey": "key('undeclared', @id)", "nofunc": "q:nosuch(@id)"}.get(ab)
        if ab == "avt":
            sorts.append('<xsl:sort select="@id" order="{p:boom(1)}"/>')
        else:
            sorts.append('<xsl:sort select="%s"/>' % expr)
    extras = "|X"
    if case.get("with_param") and case["mode"] == "at":
        extras += 'W<xsl:value-of select="$w"/>;'
    if case.get("inner_same") and not case.get("abort"):
        # a sort of the same nodes with the same keys, started and finished INSIDE every iteration of the outer sorted
        # instruction (same NodeSorter): it must give the outer order, and must not disturb the outer iteration
        isorts = "".join(x.replace("p:probe(", "p:noprobe(") for x in sorts)
        extras += ('I:<xsl:for-each select="../e[@sel=\'1\']">%s<xsl:value-of select="@id"/>,</xsl:for-each>' % isorts)
    # inner constructs that push and pop context node lists (and evaluate position() inside, which fills the one-entry
    # position cache with an INNER position — for several of them of the outer current node itself), executed first;
    # position() and last() of the sorted list are then captured with NOTHING in between (any location step would
    # clear the cache) and printed afterwards
    POS0 = '<xsl:if test="position() = 0">x</xsl:if>'
    PRE = {
        "anc": '<xsl:for-each select="ancestor-or-self::*">%s</xsl:for-each>' % POS0,
        "self": '<xsl:for-each select=".">%s</xsl:for-each>' % POS0,
        "sib": '<xsl:for-each select="preceding-sibling::e | .">%s</xsl:for-each>' % POS0,
        "allsib": '<xsl:for-each select="../e">%s</xsl:for-each>' % POS0,
        "pred": '<xsl:variable name="q1" select="count((preceding-sibling::e | .)[position() = last()])"/>',
        "predself": '<xsl:if test="not(self::e[position() = 1])">x</xsl:if>',
        "sortdesc": ('<xsl:for-each select="../e[@sel=\'1\']"><xsl:sort select="@id" data-type="number" order="descending"/>%s'
                     '</xsl:for-each>' % POS0),
        "sortasc": ('<xsl:for-each select="../e[@sel=\'1\']"><xsl:sort select="@id" data-type="number"/>%s</xsl:for-each>' % POS0),
        "back": '<xsl:apply-templates select="." mode="back"/>',
        "backsib": '<xsl:apply-templates select="preceding-sibling::e | ." mode="back"/>',
    }
    prelude = "".join(PRE[k] for k in case.get("pre_body") or [])
    if case.get("pos_first", True):
        capture = '<xsl:variable name="vp" select="position()"/><xsl:variable name="vl" select="last()"/>'
    else:
        capture = '<xsl:variable name="vl" select="last()"/><xsl:variable name="vp" select="position()"/>'
    body = (prelude + capture + '[<xsl:value-of select="@id"/>|<xsl:value-of select="$vp"/>|<xsl:value-of select="$vl"/>'
            + extras + "".join(echo) + "]")
    if case.get("inner_sort"):
        # an unrelated sort between two iterations of the outer one (same NodeSorter, same caches); the body must not
        # be empty: ElemForEach::startElement does nothing at all when the instruction has no children besides xsl:sort
        body += ('<xsl:for-each select="../e"><xsl:sort select="@id" data-type="number" order="descending"/>'
                 '<xsl:sort select="@k0"/><xsl:value-of select="\'\'"/></xsl:for-each>')
    pred = "[@sel='1']" if case.get("subset") else ""
    sel = ("e" if case["nest"] else "/r/g/e") + pred
    pre = ""
    if case.get("selvar"):
        pre = '<xsl:variable name="s" select="%s"/>' % sel
        sel = "$s"
    if case["mode"] == "fe":
        inner = '<xsl:for-each select="%s">%s%s</xsl:for-each>' % (sel, "".join(sorts), body)
        templ = ""
    else:
        mode = ' mode="m"' if case.get("at_mode") else ""
        wp = '<xsl:with-param name="w" select="3 + 4"/>' if case.get("with_param") else ""
        wp_first = case.get("with_param") == "first"
        inner = '<xsl:apply-templates select="%s"%s>%s%s%s</xsl:apply-templates>' % (
            sel, mode, wp if wp_first else "", "".join(sorts), "" if wp_first else wp)
        templ = '<xsl:template match="e"%s>%s%s</xsl:template>' % (
            mode, '<xsl:param name="w" select="0"/>' if case.get("with_param") else "", body)
        if mode:
            templ += '<xsl:template match="e">[WRONG-MODE]</xsl:template>'
            if case.get("inner_same"):
                pass
    inner = pre + inner
    ps = case.get("pre_sort")
    if ps:
        kk = keys[ps["key"]]
        e = key_expr(ps["key"], kk).replace("p:probe(%d,@id,@k%d)" % (ps["key"], ps["key"]), "@k%d" % ps["key"])
        a = ['select="%s"' % e]
        if ps["lang"] != "-":
            a.append('lang="%s"' % ps["lang"])
        if ps["co"]:
            a.append('case-order="%s"' % ("upper-first" if ps["co"] == 1 else "lower-first"))
        presort = '<xsl:for-each select="/r/g/e[@sel=\'1\']"><xsl:sort %s/><xsl:value-of select="\'\'"/></xsl:for-each>' % " ".join(a)
    else:
        presort = ""
    if case["nest"]:
        inner = '<xsl:for-each select="/r/g">%s</xsl:for-each>' % inner
    globals_ = ""
    re_ = case.get("reenter") if not case.get("abort") else None
    if re_ and re_["key"] < len(keys):
        SORTED = ('<xsl:for-each select="/r/g/e[@sel=\'1\']"><xsl:sort select="@id" data-type="number" order="descending"/>'
                  '%s</xsl:for-each>')
        if re_["kind"] == "avt":
            kk = keys[re_["key"]] if re_["key"] < len(keys) else None
            word = "descending" if (kk and kk["desc"]) else "ascending"
            globals_ = '<xsl:variable name="gord">%s</xsl:variable>' % (SORTED % ('<xsl:if test="position() = 1">%s</xsl:if>' % word))
            inner += '{G:<xsl:value-of select="$gord"/>}'
        else:
            if re_["kind"] == "tmpl":
                gbody = ('<xsl:apply-templates select="/r/g/e[@sel=\'1\']" mode="gsort"><xsl:sort select="@id" data-type="number" '
                         'order="descending"/></xsl:apply-templates>')
                globals_ = '<xsl:template match="e" mode="gsort"><xsl:value-of select="@id"/>,</xsl:template>'
            elif re_["kind"] == "var2":
                # two levels: the sort inside $g has a key whose first reference to $h runs yet another sort
                gbody = ('<xsl:for-each select="/r/g/e[@sel=\'1\']"><xsl:sort select="@id[string($h) != \'~\']" data-type="number" '
                         'order="descending"/><xsl:value-of select="@id"/>,</xsl:for-each>')
                globals_ = '<xsl:variable name="h">%s</xsl:variable>' % (SORTED % '<xsl:value-of select="@id"/>;')
            else:
                gbody = SORTED % '<xsl:value-of select="@id"/>,'
            tag = "param" if re_["kind"] == "param" else "variable"
            globals_ += '<xsl:%s name="g">%s</xsl:%s>' % (tag, gbody, tag)
            inner += '{G:<xsl:value-of select="$g"/>}'
    xsl = ('<?xml version="1.0"?><xsl:stylesheet version="1.0" xmlns:xsl="http://www.w3.org/1999/XSL/Transform" '
           'xmlns:p="%s" xmlns:q="urn:verif:none" exclude-result-prefixes="p q"><xsl:output method="text"/>'
           '<xsl:key name="kid" match="/r/t/s" use="@ref"/>'
           '<xsl:template match="/">%s%s</xsl:template>%s'
           '<xsl:template match="e" mode="back"><xsl:if test="position() = 0">x</xsl:if></xsl:template>%s'
           '</xsl:stylesheet>' % (PROBE_NS, presort, inner, templ, globals_))
    return request_line(case, xml, xsl), xml, xsl


def abstract_fields(case):
    keys, rows = case["keys"], case["rows"]
    for j, k in enumerate(keys):
        if "dt_raw" not in k:
            finalize_key(k, j)
    toks = ["%s/%s/%s" % (k["dt_raw"], k["order_raw"], k["co_raw"]) for k in keys]
    if case.get("abort"):
        toks.append("AVTBOOM" if case["abort"] == "avt" else "BOOM")
    ks = ",".join(toks) or "-"
    rs = []
    for row in rows:
        vs = []
        for v in row:
            if v[0] == "n":
                vs.append(bits(v[2]))
            elif "pool" in case:
                vs.append("s%d" % case["pool"].index(v[1]))
            else:
                vs.append(v[1] if v[1] else "_")
        if case.get("abort"):
            vs.append("x")
        rs.append(",".join(vs))
    return ks, str(len(rows)), (";".join(rs) if rows else "-")


def request_line(case, xml, xsl):
    ks, n, vals = abstract_fields(case)
    if "pool" in case:
        return "sortu %s %s %s %s %s %s" % (ks, n, vals, case.get("matrix", "0"), xml.encode("utf-8").hex(), xsl.encode("utf-8").hex())
    return "sort %s %s %s %s %s" % (ks, n, vals, xml.encode("utf-8").hex(), xsl.encode("utf-8").hex())


def check_line(case, order):
    ks, n, vals = abstract_fields(case)
    o = ",".join(str(i) for i in order) if order else "-"
    if "pool" in case:
        return "checku %s %s %s %s %s" % (ks, n, vals, case.get("matrix", "0"), o)
    return "check %s %s %s %s" % (ks, n, vals, o)


def expected_echo(case, i):
    """per key: the set of acceptable strings printed for row i"""
    res = []
    for k, v in zip(case["keys"], case["rows"][i]):
        if k["form"] in ("pos", "rpos", "tpos"):
            res.append(["p"])
        elif k["number"]:
            res.append(["NaN"] if v[2] != v[2] else [bits(v[2])])
        else:
            res.append([v[1]])
    return res


def parse_output(text):
    """'[id|pos|last|X<extras>|e0|e1]…' -> list of (id, pos, last, [echo…], extras) ; None when malformed"""
    res = []
    s = text
    g = s.find("{G:")
    if g >= 0:
        s = s[:g]
    while s:
        if not s.startswith("["):
            return None
        j = s.find("]")
        if j < 0:
            return None
        f = s[1:j].split("|")
        if len(f) < 4 or not f[3].startswith("X"):
            return None
        try:
            res.append((int(f[0]), int(f[1]), int(f[2]), f[4:], f[3][1:]))
        except ValueError:
            return None
        s = s[j + 1:]
    return res


def describe(case):
    ks = " ".join("%s/%s/%s%s%s%s" % ("number" if k["number"] else "text", "desc" if k["desc"] else "asc", k["form"],
                                      "" if k["order_deco"] == "lit" else "," + k["order_deco"] + "-order",
                                      "" if not k["extra"] else "," + k["extra"],
                                      "" if not k.get("odd") else ",ODD:" + k["odd"]) for k in case["keys"])
    rows = "; ".join(",".join(repr(v[1]) for v in row) for row in case["rows"])
    if "pool" in case:
        rows += " coll=%r" % ([k.get("coll") for k in case["keys"]],)
        if case.get("pre_sort"):
            rows += " pre_sort=%r" % (case["pre_sort"],)
    if case.get("abort"):
        ks += " ABORT:" + case["abort"]
    flags = "".join(f for f, on in (("+nest", case["nest"]), ("+subset", case.get("subset")), ("+selvar", case.get("selvar")),
                                    ("+inner", case.get("inner_sort")), ("+mode", case.get("at_mode") and case["mode"] == "at"),
                                    ("+with-param", case.get("with_param") and case["mode"] == "at"),
                                    ("+inner-same", case.get("inner_same")),
                                    ("+pre[%s]" % ",".join(case.get("pre_body") or []), case.get("pre_body")),
                                    ("+reenter[%s@%s]" % ((case.get("reenter") or {}).get("kind"), (case.get("reenter") or {}).get("key")),
                                     case.get("reenter") and not case.get("abort"))) if on)
    return "%s%s keys[%s] rows[%s]" % (case["mode"], flags, ks, rows)
