"""C02 generators and the independent (Recommendation-side) reference used as the specification predicate.

* `gen_expr(r, depth)`        grammar-directed random expression AST of the operator fragment
* `render(ast, r)`            expression string with minimal parentheses and random white space
* `ref_shape(ast)`            the shape XPath 1.0 section 3 assigns (binary operators left-associative, precedence)
* `decode_opmap(ints)`        generic structural decoder of an op map (op code, length, operands by length)
* `strict_valid(tokens)`      XPath 1.0 grammar (operator fragment) on a token list
* `lenient_classes(tokens)`   which documented leniencies of the implementation would make the list acceptable
* `gen_doc(r)`                small random document: XML text + the flat node table the Lean side reads

AST: ('num', text) ('lit', text) ('var', name) ('name', n) ('star',) ('group', e) ('neg', e)
     ('bin', op, l, r) ('and', l, r) ('or', l, r) ('union', [paths])
"""

BINOPS = {
    "=": 2, "!=": 2, "<": 3, "<=": 3, ">": 3, ">=": 3, "+": 4, "-": 4, "*": 5, "div": 5, "mod": 5,
}
NAMES = ["a", "b", "c", "div", "mod", "and", "or", "x-y", "_n"]
DOCNAMES = ["a", "b", "c"]
NUMS = ["0", "1", "2", "3", "10", "2.5", "0.5", ".25", "7.", "100", "1.125"]
LITS = ["'a'", "\"b\"", "'1'", "' 2 '", "''", "'x y'", "'3.5'", "'-1'", "'NaN'"]
VARS = ["x", "y", "z", "nan", "empty", "ns", "t", "f", "s1", "one"]


def prec(e):
    k = e[0]
    if k == "or":
        return 0
    if k == "and":
        return 1
    if k == "bin":
        return BINOPS[e[1]]
    if k == "neg":
        return 6
    return 7


def gen_atom(r, allow_paths=True, vars_ok=True):
    k = r.weighted([("num", 5), ("lit", 2), ("var", 3 if vars_ok else 0), ("name", 3 if allow_paths else 0), ("star", 1 if allow_paths else 0)])
    if k == "num":
        return ("num", r.choice(NUMS))
    if k == "lit":
        return ("lit", r.choice(LITS))
    if k == "var":
        return ("var", r.choice(VARS))
    if k == "name":
        return ("name", r.choice(NAMES))
    return ("star",)


def gen_expr(r, depth, names=None, vars_ok=True):
    """random AST; operands are generated at any level (render adds the parentheses needed)"""
    if depth <= 0 or r.chance(1, 5):
        a = gen_atom(r, vars_ok=vars_ok)
        if names is not None and a[0] == "name":
            a = ("name", r.choice(names))
        return a
    k = r.weighted([("bin", 12), ("and", 2), ("or", 2), ("neg", 2), ("group", 2), ("union", 1)])
    if k == "bin":
        return ("bin", r.choice(sorted(BINOPS)), gen_expr(r, depth - 1, names, vars_ok), gen_expr(r, depth - 1, names, vars_ok))
    if k in ("and", "or"):
        return (k, gen_expr(r, depth - 1, names, vars_ok), gen_expr(r, depth - 1, names, vars_ok))
    if k == "neg":
        return ("neg", gen_expr(r, depth - 1, names, vars_ok))
    if k == "group":
        return ("group", gen_expr(r, depth - 1, names, vars_ok))
    n = r.range(2, 3)
    ps = []
    for _ in range(n):
        ps.append(("name", r.choice(names or NAMES)) if r.chance(3, 4) else ("star",))
    return ("union", ps)


def norm(e, nested_neg_ok=False):
    """insert the ('group', .) nodes needed so that the tree can be printed without changing its shape:
    left operand of a level-p operator needs level >= p, right operand level > p; `or`/`and` are printed
    left-nested like every other binary operator; operand of unary minus must be a union-level expression
    (or, if nested_neg_ok, another unary minus)."""
    k = e[0]
    if k in ("num", "lit", "var", "name", "star"):
        return e
    if k == "group":
        return ("group", norm(e[1], nested_neg_ok))
    if k == "union":
        return e
    if k == "neg":
        x = norm(e[1], nested_neg_ok)
        if prec(x) < 7 and not (nested_neg_ok and x[0] == "neg"):
            x = ("group", x)
        return ("neg", x)
    if k == "bin":
        p = BINOPS[e[1]]
        l = norm(e[2], nested_neg_ok)
        rr = norm(e[3], nested_neg_ok)
        if prec(l) < p:
            l = ("group", l)
        if prec(rr) <= p:
            rr = ("group", rr)
        return ("bin", e[1], l, rr)
    p = prec(e)
    l = norm(e[1], nested_neg_ok)
    rr = norm(e[2], nested_neg_ok)
    if prec(l) < p:
        l = ("group", l)
    if prec(rr) <= p:
        rr = ("group", rr)
    return (k, l, rr)


def tokens_of(e):
    k = e[0]
    if k in ("num", "lit"):
        return [e[1]]
    if k == "var":
        return ["$" + e[1]]
    if k == "name":
        return [e[1]]
    if k == "star":
        return ["*"]
    if k == "group":
        return ["("] + tokens_of(e[1]) + [")"]
    if k == "neg":
        return ["-"] + tokens_of(e[1])
    if k == "bin":
        return tokens_of(e[2]) + [e[1]] + tokens_of(e[3])
    if k in ("and", "or"):
        return tokens_of(e[1]) + [k] + tokens_of(e[2])
    if k == "union":
        out = []
        for i, p in enumerate(e[1]):
            if i:
                out.append("|")
            out += tokens_of(p)
        return out
    raise ValueError(k)


def is_wordy(t):
    return t[0].isalpha() or t[0] == "_" or t[0] == "$" or t[0].isdigit() or t[0] == "."


def join_tokens(toks, r=None):
    """join with white space where the tokenizer needs it (and randomly elsewhere)"""
    out = ""
    prev = None
    for t in toks:
        sep = ""
        if prev is not None:
            need = False
            if is_wordy(prev) and is_wordy(t):
                need = True
            # '-' glued to a preceding name continues the name; "1." followed by a digit would merge
            if t == "-" and (prev[0].isalpha() or prev[0] == "_" or prev[0] == "$" or prev[0] == "."):
                need = True
            if prev.endswith(".") and (t[0].isdigit() or t[0] == "."):
                need = True
            if prev[0].isdigit() and t[0] == ".":
                need = True
            if prev in ("!", "<", ">") and t[0] == "=":
                need = True           # otherwise the two tokens would read as the one operator
            if prev[-1] in "'\"" and t[0] == prev[-1]:
                need = False
            if need:
                sep = " "
            elif r is not None and r.chance(1, 2):
                sep = r.choice([" ", " ", "  ", "\t", "\n"])
        out += sep + t
        prev = t
    if r is not None and r.chance(1, 6):
        out = " " + out + " "
    return out


def render(e, r=None):
    return join_tokens(tokens_of(e), r)


def ref_shape(e):
    """shape defined by the Recommendation for the *printed* expression (the tree itself: it was normalised so
    that printing does not re-associate).  `or`/`and` chains are flattened (associative, order kept)."""
    k = e[0]
    if k == "num":
        return ("num",)
    if k == "lit":
        return ("lit",)
    if k == "var":
        return ("var",)
    if k == "name":
        return ("step", "name")
    if k == "star":
        return ("step", "*")
    if k == "group":
        return ("group", ref_shape(e[1]))
    if k == "neg":
        return ("neg", ref_shape(e[1]))
    if k == "bin":
        return ("bin", e[1], ref_shape(e[2]), ref_shape(e[3]))
    if k in ("and", "or"):
        items = []

        def flat(x):
            if x[0] == k:
                flat(x[1]); flat(x[2])
            else:
                items.append(ref_shape(x))
        flat(e)
        return (k, tuple(items))
    if k == "union":
        return ("union", tuple(ref_shape(p) for p in e[1]))
    raise ValueError(k)


OPNAMES = {2: "or", 3: "and", 4: "!=", 5: "=", 6: "<=", 7: "<", 8: ">=", 9: ">", 10: "+", 11: "-", 12: "*", 13: "div", 14: "mod"}


def decode_opmap(m):
    """structural decoding of the implementation's op map into the same shape vocabulary; None if ill-formed"""
    try:
        if m[0] != 1 or m[1] != len(m):
            return None
        sh, end = _dec(m, 2)
        if end != len(m):
            return None
        return sh
    except (IndexError, ValueError, TypeError):
        return None


def _dec(m, i):
    op = m[i]
    ln = m[i + 1]
    if ln < 2 or i + ln > len(m):
        raise ValueError
    end = i + ln
    if op in OPNAMES:
        a, j = _dec(m, i + 2)
        b, j2 = _dec(m, j)
        if j2 != end:
            raise ValueError
        nm = OPNAMES[op]
        if nm in ("or", "and"):
            items = []
            for x in (a, b):
                if x[0] == nm:
                    items += list(x[1])
                else:
                    items.append(x)
            return (nm, tuple(items)), end
        return ("bin", nm, a, b), end
    if op == 15:
        a, j = _dec(m, i + 2)
        if j != end:
            raise ValueError
        return ("neg", a), end
    if op == 20:
        a, j = _dec(m, i + 2)
        if j != end:
            raise ValueError
        return ("group", a), end
    if op == 21 and ln == 4:
        return ("num",), end
    if op == 18 and ln == 3:
        return ("lit",), end
    if op == 19 and ln == 4:
        return ("var",), end
    if op == 17:
        j = i + 2
        ps = []
        while j < end - 1:
            a, j = _dec(m, j)
            ps.append(a)
        if m[end - 1] != -1 or j != end - 1:
            raise ValueError
        return ("union", tuple(ps)), end
    if op == 25:
        body = m[i + 2:end]
        if body == [-1]:
            return ("emptypath",), end
        if len(body) == 7 and body[0] == 37 and body[1] == 6 and body[2] == 6 and body[3] == 31 and body[4] == -2 and body[6] == -1:
            return ("step", "*" if body[5] == -3 else "name"), end
        raise ValueError
    raise ValueError


# ---------------------------------------------------------------------------------------------
# token-level grammar (XPath 1.0 section 3, operator fragment).  Tokens are strings; "!=", "<=", ">=" are
# single tokens only when written without white space.

ALPHABET = ["1", "2.5", "'s'", "$x", "a", "div", "mod", "and", "or", "*", "(", ")", "-", "+", "=", "!=", "!", "<", "<=", ">", ">=", "|"]


def _is_atom(t):
    return t[0].isdigit() or t[0] == "." or t[0] in "'\"" or t[0] == "$"


def _is_name(t):
    return t[0].isalpha() or t[0] == "_"


class _P:
    def __init__(self, toks, lenient):
        self.t = toks
        self.i = 0
        self.lenient = lenient
        self.used = set()

    def cur(self):
        return self.t[self.i] if self.i < len(self.t) else None

    def operand(self):
        c = self.cur()
        if c is None:
            raise ValueError
        if _is_atom(c):
            self.i += 1
            return
        if c == "(":
            self.i += 1
            self.expr()
            if self.cur() != ")":
                raise ValueError
            self.i += 1
            return
        if c == "*" or _is_name(c):
            if self.i + 1 < len(self.t) and self.t[self.i + 1] == "(":
                raise ValueError      # function call / node type test: not in the fragment's alphabet
            self.i += 1
            return
        raise ValueError

    def path(self):
        if self.lenient:
            c = self.cur()
            if c == ")":
                self.used.add("empty-operand")
                return
            if c is None and self.eof_ok:
                self.used.add("empty-operand")
                return
        self.eof_ok = False
        self.operand()

    eof_ok = False

    def union(self):
        self.path()
        while self.cur() == "|":
            self.i += 1
            self.eof_ok = True
            self.path()

    def unary(self):
        n = 0
        while self.cur() == "-":
            self.i += 1
            self.eof_ok = True
            n += 1
        self.union()

    def level(self, ops, lower):
        lower()
        while True:
            c = self.cur()
            hit = None
            if self.lenient and c in ("!", "<", ">") and self.i + 1 < len(self.t) and self.t[self.i + 1] == "=" and (c + "=") in ops:
                hit = 2
                self.used.add("split-operator")
            elif c in ops:
                hit = 1
            if not hit:
                return
            self.i += hit
            self.eof_ok = False
            if self.lenient and self.cur() is None:
                raise ValueError            # error(ExpectedToken)
            lower()

    def mul(self):
        self.level(("*", "div", "mod"), self.unary)

    def add(self):
        self.level(("+", "-"), self.mul)

    def rel(self):
        self.level(("<", "<=", ">", ">="), self.add)

    def eq(self):
        self.level(("=", "!="), self.rel)

    def and_(self):
        self.level(("and",), self.eq)

    def expr(self):
        self.level(("or",), self.and_)


def _split_compound(toks):
    """lenient view: '<=' written as one token is also '<' '='"""
    return list(toks)


def strict_valid(toks):
    p = _P(list(toks), False)
    try:
        p.expr()
    except ValueError:
        return False
    return p.i == len(toks)


def lenient_classes(toks):
    """None if even the lenient grammar rejects; else the sorted tuple of leniencies used"""
    p = _P(list(toks), True)
    try:
        p.expr()
    except ValueError:
        return None
    if p.i != len(toks):
        return None
    return tuple(sorted(p.used))


def has_nested_minus(toks):
    return any(toks[i] == "-" and toks[i + 1] == "-" for i in range(len(toks) - 1))


def gen_token_soup(r, maxlen):
    n = r.range(1, maxlen)
    if r.chance(1, 2):
        # mutate a valid expression: delete / duplicate / replace one token
        e = norm(gen_expr(r, 2, vars_ok=False))
        t = tokens_of(e)
        for _ in range(r.range(1, 2)):
            k = r.below(3)
            i = r.below(len(t)) if t else 0
            if k == 0 and len(t) > 1:
                del t[i]
            elif k == 1 and t:
                t.insert(i, t[i])
            elif t:
                t[i] = r.choice(ALPHABET)
        return t or ["1"]
    return [r.choice(ALPHABET) for _ in range(n)]


# ---------------------------------------------------------------------------------------------
# documents

def hx(s):
    return "".join("%04x" % ord(c) for c in s) or "-"


def gen_doc(r, maxnodes=12):
    """returns (xml, table) ; table = list of (kind, name, value, parent) in document order, node 0 = root"""
    table = [("r", "", "", -1)]
    budget = [r.range(2, maxnodes)]
    texts = ["1", "2", "3", "10", "a", "b", " 2 ", "x", "2.5", "-1", "NaN", "07"]

    def elem(parent, depth):
        name = r.choice(DOCNAMES)
        me = len(table)
        table.append(("e", name, "", parent))
        xml = "<" + name
        used = set()
        for _ in range(r.weighted([(0, 5), (1, 3), (2, 1)])):
            an = r.choice(["p", "q", "id"])
            if an in used:
                continue
            used.add(an)
            av = r.choice(texts).strip() or "v"
            table.append(("a", an, av, me))
            xml += ' %s="%s"' % (an, av)
        kids = ""
        last_text = False
        nk = r.range(0, 3) if depth < 3 else 0
        for _ in range(nk):
            if budget[0] <= 0:
                break
            budget[0] -= 1
            if r.chance(2, 5) and not last_text:
                t = r.choice(texts)
                table.append(("t", "", t, me))
                kids += t
                last_text = True
            else:
                kids += elem(me, depth + 1)
                last_text = False
        if kids:
            return xml + ">" + kids + "</" + name + ">"
        return xml + "/>"

    xml = elem(0, 0)
    return xml, table


def table_text(table):
    return ";".join("%s,%s,%s,%d" % (k, hx(n), hx(v), p) for (k, n, v, p) in table)


# ---------------------------------------------------------------------------------------------
# reference parser: token list -> shape (XPath 1.0 section 3: precedence, left associativity); None if not an expression

class _T(_P):
    def __init__(self, toks):
        _P.__init__(self, toks, False)

    def t_operand(self):
        c = self.cur()
        if c is None:
            raise ValueError
        if _is_atom(c):
            self.i += 1
            return ("lit",) if c[0] in "'\"" else ("var",) if c[0] == "$" else ("num",)
        if c == "(":
            self.i += 1
            e = self.t_level(0)
            if self.cur() != ")":
                raise ValueError
            self.i += 1
            return ("group", e)
        if c == "*" or _is_name(c):
            if self.i + 1 < len(self.t) and self.t[self.i + 1] == "(":
                raise ValueError
            self.i += 1
            return ("step", "*" if c == "*" else "name")
        raise ValueError

    def t_union(self):
        ps = [self.t_operand()]
        while self.cur() == "|":
            self.i += 1
            ps.append(self.t_operand())
        return ps[0] if len(ps) == 1 else ("union", tuple(ps))

    def t_unary(self):
        if self.cur() == "-":
            self.i += 1
            return ("neg", self.t_unary())
        return self.t_union()

    LEVELS = [("or",), ("and",), ("=", "!="), ("<", "<=", ">", ">="), ("+", "-"), ("*", "div", "mod")]

    def t_level(self, k):
        if k == len(self.LEVELS):
            return self.t_unary()
        ops = self.LEVELS[k]
        left = self.t_level(k + 1)
        items = [left]
        while self.cur() in ops:
            op = self.cur()
            self.i += 1
            right = self.t_level(k + 1)
            if k < 2:
                items.append(right)
            else:
                left = ("bin", op, left, right)
        if k < 2:
            return items[0] if len(items) == 1 else (ops[0], tuple(items))
        return left


def parse_shape(toks):
    p = _T(list(toks))
    try:
        e = p.t_level(0)
    except ValueError:
        return None
    return e if p.i == len(toks) else None


# ---------------------------------------------------------------------------------------------
# evaluated fragment: type-directed generator.  A term is [type, format, child...]; type in ns/num/int/str/bool/pred/step

AXES = ["child", "descendant", "descendant-or-self", "parent", "ancestor", "ancestor-or-self", "following",
        "following-sibling", "preceding", "preceding-sibling", "self", "attribute"]
REVERSE_AXES = ("ancestor", "ancestor-or-self", "preceding", "preceding-sibling")


def T(ty, fmt, *kids):
    return [ty, fmt] + list(kids)


def rnd(t):
    return t[1].format(*[rnd(k) for k in t[2:]])


def g_test(r, axis):
    if axis == "attribute":
        return r.weighted([("*", 6), ("p", 4), ("q", 2), ("id", 2), ("node()", 1)])   # attribute::node(): finding C02-attribute-node-test
    return r.weighted([("*", 4), ("a", 3), ("b", 2), ("c", 1), ("node()", 3), ("text()", 2), ("comment()", 1),
                       ("processing-instruction()", 1), ("processing-instruction('t')", 1)])


def g_step(r, depth, in_pred):
    k = r.weighted([("axis", 10), ("abbr", 6), (".", 1), ("..", 2)])
    if k == ".":
        return T("step", ".")
    if k == "..":
        return T("step", "..")
    if k == "abbr":
        if r.chance(1, 4):
            base = "@" + g_test(r, "attribute")
        else:
            base = g_test(r, "child")
    else:
        ax = r.choice(AXES)
        base = ax + "::" + g_test(r, ax)
    npred = r.weighted([(0, 5), (1, 4), (2, 3), (3, 1)]) if depth > 0 else 0
    preds = [g_pred(r, depth - 1) for _ in range(npred)]
    return T("step", base + "".join("[{%d}]" % i for i in range(npred)), *preds)


def g_ns(r, depth, in_pred=False):
    k = r.weighted([("path", 12), ("union", 2 if depth > 0 else 0), ("filter", 3 if depth > 0 else 0), ("var", 2),
                    ("ext", 3 if depth > 0 else 0)])
    if k == "ext" and r.chance(1, 2):
        w = r.below(6)
        toks = ["i1", "i2", "i3", "i4", "zz", "i1", "i2"]
        if w == 0:
            return T("ns", "id('%s')" % r.choice(toks))
        if w == 1:
            return T("ns", "id('%s')" % " ".join(r.choice(toks) for _ in range(r.range(2, 4))))
        if w == 2:
            return T("ns", "id({0})", g_ns(r, depth - 1, in_pred))
        if w == 3:
            return T("ns", "id(concat('%s', ' ', {0}))" % r.choice(toks), g_str(r, 0, in_pred))
        if w == 4:
            return T("ns", "id(//@k | //text())")
        return T("ns", "id('%s  %s\t%s')" % (r.choice(toks), r.choice(toks), r.choice(toks)))
    if k == "ext":
        f = r.choice(["set:difference", "set:intersection", "set:leading", "set:trailing", "set:distinct", "x:distinct", "x:nodeset"])
        if f in ("set:distinct", "x:distinct", "x:nodeset"):
            return T("ns", f + "({0})", g_ns(r, depth - 1, in_pred))
        return T("ns", f + "({0}, {1})", g_ns(r, depth - 1, in_pred), g_ns(r, depth - 1, in_pred))
    if k == "var":
        return T("ns", "$" + r.choice(["na", "nb", "nz"]))
    if k == "union":
        return T("ns", "{0} | {1}", g_ns(r, depth - 1, in_pred), g_ns(r, depth - 1, in_pred))
    if k == "filter":
        inner = g_ns(r, depth - 1, in_pred)
        npred = r.range(0, 2)
        preds = [g_pred(r, depth - 1) for _ in range(npred)]
        nsteps = r.range(0 if npred else 1, 2)
        steps = [g_step(r, depth - 1, in_pred) for _ in range(nsteps)]
        fmt = "({0})" + "".join("[{%d}]" % (1 + i) for i in range(npred)) + "".join(r.choice(["/", "/", "//"]) + "{%d}" % (1 + npred + i) for i in range(nsteps))
        return T("ns", fmt, inner, *(preds + steps))
    lead = r.weighted([("", 5), ("/", 3), ("//", 3)])
    nsteps = r.range(1, 3)
    steps = [g_step(r, depth, in_pred) for _ in range(nsteps)]
    fmt = lead + "{0}" + "".join(r.choice(["/", "/", "/", "//"]) + "{%d}" % i for i in range(1, nsteps))
    return T("ns", fmt, *steps)


def g_int(r, depth, in_pred):
    k = r.weighted([("lit", 4), ("count", 3), ("pos", 4 if in_pred else 0), ("last", 3 if in_pred else 0),
                    ("strlen", 1), ("arith", 3 if depth > 0 else 0)])
    if k == "lit":
        return T("int", r.choice(["0", "1", "2", "3", "4", "10"]))
    if k == "count":
        return T("int", "count({0})", g_ns(r, depth - 1, in_pred))
    if k == "pos":
        return T("int", "position()")
    if k == "last":
        return T("int", "last()")
    if k == "strlen":
        return T("int", "string-length({0})", g_str(r, depth - 1, in_pred)) if depth > 0 else T("int", "string-length()")
    return T("int", "{0} " + r.choice(["+", "-", "*"]) + " {1}", g_int(r, depth - 1, in_pred), g_int(r, depth - 1, in_pred))


BIG_NUMERALS = ["2147483647", "2147483648", "4294967296", "9007199254740992", "9007199254740993", "9223372036854775807",
                "9223372036854775808", "9999999999999999999", "18446744073709551615", "18446744073709551616",
                "10000000000000000000", "10000000000000000000000", "12345678901234567890123", "0000000000000000000000001",
                "0.1", "0.30000000000000004", "123456789.987654321", "0.000000000000000000001", "1234567890123456789.5",
                ".0000000001", "00012.500", "999999999", "1000000000", "9999999999", "99999999999999999999.99999"]


def g_numeral(r):
    """decimal numeral with 1-25 integer digits (biased towards the 2^31 / 2^53 / 2^63 / 2^64 / 10^19 / 10^22 neighbourhoods),
    optionally a fraction and leading zeros"""
    if r.chance(1, 2):
        base = r.choice([2 ** 31, 2 ** 32, 2 ** 53, 2 ** 63, 2 ** 64, 10 ** 9, 10 ** 10, 10 ** 18, 10 ** 19, 10 ** 22])
        v = base + r.range(-3, 3)
        ip = str(max(v, 0))
    else:
        n = r.range(1, 25)
        ip = "".join(r.choice("0123456789") for _ in range(n))
    if r.chance(1, 6):
        ip = "0" * r.range(1, 3) + ip
    if r.chance(1, 3):
        fp = "".join(r.choice("0123456789") for _ in range(r.range(1, 12)))
        return ip + "." + fp
    if r.chance(1, 12):
        return ip + "."
    return ip


def g_numeric_string(r):
    k = r.below(10)
    t = g_numeral(r)
    if k == 0:
        return "-" + t
    if k == 1:
        return " " + t + " "
    if k == 2:
        return " -" + t + "\t"
    if k == 3:
        return r.choice(["+" + t, t + "e3", "0x" + t, t + " 1", "- " + t, "--" + t, t + "-"])      # not numbers
    if k == 4:
        return "-0"
    return t


def g_num(r, depth, in_pred):
    k = r.weighted([("int", 6), ("lit", 3), ("sum", 2), ("number", 2), ("arith", 4 if depth > 0 else 0),
                    ("neg", 1 if depth > 0 else 0), ("fn", 2 if depth > 0 else 0), ("big", 3), ("numstr", 2)])
    if k == "big":
        if r.chance(1, 5):
            return T("num", r.choice(["$vn", "$vnan", "$vbig"]))
        return T("num", r.choice(BIG_NUMERALS) if r.chance(1, 2) else g_numeral(r))
    if k == "numstr":
        return T("num", "number('" + g_numeric_string(r) + "')")
    if k == "int":
        return g_int(r, depth, in_pred)
    if k == "lit":
        return T("num", r.choice(["1.5", "2.5", "0.5", ".25", "100", "7."]))
    if k == "sum":
        return T("num", "sum({0})", g_ns(r, depth - 1, in_pred))
    if k == "number":
        if r.chance(1, 4):
            return T("num", "number()")
        return T("num", "number({0})", g_ns(r, depth - 1, in_pred) if r.chance(1, 2) else g_str(r, depth - 1, in_pred))
    if k == "neg":
        return T("num", "-{0}", T("num", "({0})", g_numlike(r, depth - 1, in_pred)))
    if k == "fn":
        f = r.choice(["floor", "ceiling", "round"])
        if f == "round":
            return T("num", "round({0} div 2)", g_int(r, 0, in_pred) if not in_pred else T("int", "position()"))
        return T("num", f + "({0})", g_numlike(r, depth - 1, in_pred))
    op = r.choice(["+", "-", "*", "div", "mod"])
    return T("num", "({0}) " + op + " ({1})", g_numlike(r, depth - 1, in_pred), g_numlike(r, depth - 1, in_pred))


def g_str(r, depth, in_pred):
    k = r.weighted([("lit", 4), ("string", 3), ("name", 2), ("fn", 4 if depth > 0 else 0)])
    if k == "lit":
        if r.chance(1, 6):
            return T("str", "'" + r.choice(WS_STRINGS) + "'")
        if r.chance(1, 8):
            return T("str", r.choice(["$vs", "$ve", "$vw"]))
        if r.chance(1, 4):
            return T("str", "'" + g_numeric_string(r) + "'")
        return T("str", r.choice(["'a'", "'b'", "'1'", "' 2 '", "''", "'x y'", "'abcde'", "'12345'", "'-1'", "' a\t\tb\n c '", "'  '"]))
    if k == "string":
        w = r.below(4)
        if w == 0:
            return T("str", "string()")
        if w == 1:
            return T("str", "string({0})", g_int(r, depth - 1, in_pred))
        if w == 2:
            return T("str", "string({0})", g_bool(r, depth - 1, in_pred)) if depth > 0 else T("str", "string(true())")
        return T("str", "string({0})", g_ns(r, depth - 1, in_pred))
    if k == "name":
        f = r.choice(["name", "local-name"])
        return T("str", f + "()") if r.chance(1, 3) else T("str", f + "({0})", g_ns(r, depth - 1, in_pred))
    f = r.choice(["concat", "substring2", "substring3", "normalize-space", "translate", "before", "after"])
    s1 = g_strlike(r, depth - 1, in_pred)
    if f in ("before", "after"):
        return T("str", "substring-" + f + "({0}, {1})", s1, T("str", r.choice(["'a'", "' '", "''", "'2'", "'bc'", "'x y'", "'1'", "'ab'"])) if r.chance(2, 3) else g_str(r, 0, in_pred))
    if f == "concat":
        w = r.below(3)
        if w == 0:
            return T("str", "concat({0}, {1})", s1, g_str(r, depth - 1, in_pred))
        if w == 1:
            return T("str", "concat({0}, {1}, {2}, {3})", s1, g_str(r, 0, in_pred), g_str(r, 0, in_pred), T("str", "string({0})", g_int(r, 0, in_pred)))
        return T("str", "concat({0}, {1}, {2})", s1, g_str(r, depth - 1, in_pred), T("str", "string({0})", g_int(r, 0, in_pred)))
    if f in ("substring2", "substring3") and r.chance(1, 3):
        if f == "substring2":
            return T("str", "substring({0}, {1})", s1, g_numlike(r, depth - 1, in_pred))
        return T("str", "substring({0}, {1}, {2})", s1, g_numlike(r, depth - 1, in_pred), g_numlike(r, 0, in_pred))
    if f == "substring2":
        return T("str", "substring({0}, {1})", s1, T("num", r.choice(["0", "1", "2", "1.5", "-1", "10", "0 div 0", "2.5", "-1 div 0", "1 div 0", "0.5", "1.4999", "3.5"])))
    if f == "substring3":
        return T("str", "substring({0}, {1}, {2})", s1, T("num", r.choice(["0", "1", "2", "1.5", "-1", "0.5", "2.5"])),
                 T("num", r.choice(["0", "1", "2", "2.6", "3", "100", "1 div 0", "0 div 0", "-1", "-1 div 0", "0.5", "1.5", "2.4999"])))
    if f == "normalize-space":
        return T("str", "normalize-space({0})", s1)
    return T("str", "translate({0}, {1}, {2})", s1, T("str", r.choice(["'ab'", "'1 '", "'xyz'", "'aa'"])), T("str", r.choice(["'X'", "''", "'12'", "'yz'"])))


def g_bool(r, depth, in_pred):
    k = r.weighted([("cmp", 8), ("exists", 3), ("logic", 3 if depth > 0 else 0), ("strfn", 2), ("const", 1), ("same", 1 if depth > 0 else 0)])
    if k == "same":
        return T("bool", "set:has-same-node({0}, {1})", g_ns(r, depth - 1, in_pred), g_ns(r, depth - 1, in_pred))
    if k == "const":
        if r.chance(1, 3):
            return T("bool", r.choice(["$vt", "$vf"]))
        if r.chance(1, 2):
            return T("bool", "lang(" + r.choice(["'en'", "'EN'", "'en-us'", "'de'", "'fr'", "'e'", "'en-'"]) + ")")
        return T("bool", r.choice(["true()", "false()"]))
    if k == "exists":
        return T("bool", "boolean({0})", g_ns(r, depth - 1, in_pred))
    if k == "strfn":
        return T("bool", r.choice(["contains", "starts-with"]) + "({0}, {1})", g_strlike(r, depth - 1, in_pred), g_strlike(r, 0, in_pred))
    if k == "logic":
        w = r.below(3)
        if w == 0:
            return T("bool", "not({0})", g_boollike(r, depth - 1, in_pred))
        return T("bool", "({0}) " + ("and" if w == 1 else "or") + " ({1})", g_boollike(r, depth - 1, in_pred), g_boollike(r, depth - 1, in_pred))
    op = r.choice(["=", "!=", "<", "<=", ">", ">="])

    def any_val():
        t = r.weighted([("ns", 4), ("num", 4), ("str", 3), ("bool", 1 if depth > 0 else 0)])
        if t == "ns":
            return g_ns(r, depth - 1, in_pred)
        if t == "num":
            return g_num(r, depth - 1, in_pred)
        if t == "str":
            return g_str(r, depth - 1, in_pred)
        return g_bool(r, depth - 1, in_pred)
    a, b = any_val(), any_val()
    pa = "({0})" if a[0] in ("bool", "num", "int") else "{0}"
    pb = "({1})" if b[0] in ("bool", "num", "int") else "{1}"
    return T("bool", pa + " " + op + " " + pb, a, b)


def g_inner_positional(r):
    """a nested node-set expression with its own positional predicate whose context node list tends to contain (and
    often end with) the outer context node -- it runs through push/popContextNodeList and the position() cache"""
    base = r.choice(["../*", "../node()", "../*", "preceding-sibling::* | .", ". | following-sibling::*", "ancestor-or-self::*",
                     "self::node()", "../*/self::*", "//*", "../..//*", "preceding-sibling::*/following-sibling::*",
                     "following-sibling::*/preceding-sibling::*", "$na", "../@*/.."])
    pp = r.choice(["position() > 0", "position() >= 1", "position() <= last()", "position() != 0", "position() = last()",
                   "position() < 3", "position() > 1", "last() > 0 and position() > 0", "position() mod 2 = 1", "position() = 1"])
    w = r.below(5)
    if w == 0:
        return "(%s)[%s]" % (base, pp)
    if w == 1 and "|" not in base:
        return "%s[%s][%s]" % (base, pp, r.choice(["position() >= 1", "position() = last()", "1", "last()"]))
    if "|" in base:
        return "(%s)[%s]" % (base, pp)
    return "%s[%s]" % (base, pp)


def g_nested_pred(r):
    inner = g_inner_positional(r)
    outer = r.choice(["position() = 1", "position() = 2", "position() = 3", "position() = last()", "position() > 1",
                      "position() < last()", "last() = 2", "last() > 2", "position() = last() - 1", "position() mod 2 = 0"])
    k = r.below(10)
    if k == 0:
        return "%s and %s" % (inner, outer)
    if k == 1:
        return "%s and %s" % (outer, inner)
    if k == 2:
        return "not(%s) or %s" % (inner, outer)
    if k == 3:
        return "count(%s) = position()" % inner
    if k == 4:
        return "position() = count(%s)" % inner
    if k == 5:
        return "count(%s) + position() > last()" % inner
    if k == 6:
        return "count(%s) >= last() and %s" % (inner, outer)
    if k == 7:
        return "position() + count(%s) - count(%s)" % (inner, inner)
    if k == 8:
        return "(%s = %s) or %s" % (inner, g_inner_positional(r), outer)
    return "string-length(name(%s)) > 0 and %s" % (inner, outer)


def g_numlike(r, depth, in_pred):
    """an operand where a number is expected: a number, or a value of another type converted implicitly (XPath 3.5 / 4)"""
    k = r.weighted([("num", 6), ("ns", 3), ("str", 1), ("bool", 1)])
    d = max(depth, 0)
    if k == "num":
        return g_num(r, d, in_pred)
    if k == "ns":
        return T("num", "{0}", g_ns(r, d, in_pred))
    if k == "str":
        return T("num", "{0}", g_str(r, d, in_pred))
    return T("num", "{0}", g_bool(r, d, in_pred))


def g_strlike(r, depth, in_pred):
    k = r.weighted([("str", 6), ("ns", 3), ("int", 1), ("bool", 1)])
    d = max(depth, 0)
    if k == "str":
        return g_str(r, d, in_pred)
    if k == "ns":
        return T("str", "{0}", g_ns(r, d, in_pred))
    if k == "int":
        return T("str", "{0}", g_int(r, d, in_pred))
    return T("str", "{0}", g_bool(r, d, in_pred))


def g_boollike(r, depth, in_pred):
    k = r.weighted([("bool", 6), ("ns", 2), ("str", 1), ("num", 1)])
    d = max(depth, 0)
    if k == "bool":
        return g_bool(r, d, in_pred)
    if k == "ns":
        return T("bool", "{0}", g_ns(r, d, in_pred))
    if k == "str":
        return T("bool", "{0}", g_str(r, d, in_pred))
    return T("bool", "{0}", g_num(r, d, in_pred))


# ---------------------------------------------------------------------------------------------
# recycling phase: XObjectFactoryDefault reuses released XNodeSet / XString / XNumber objects; conversions memoised in an
# object must not survive into the next value that lands in it.  One session interleaves (re)bindings of variables to
# empty-valued and non-empty values of every type with conversions of variables and of function arguments (which go through
# the XObject, not through the typed evaluation paths of inline location paths).

RECYCLE_SOURCES = {
    "ns-empty": ["//zz", "//*[not(node())][false()]", "/..", "//*[. = ''][1]", "//*[not(node())]", "//comment()/zz", "//@zz"],
    "ns": ["//*[1]", "//a", "//b", "//c", "//*[text()][1]", "//@*", "//text()", "//*[last()]", "//*[@*][1]", "(//text())[last()]",
           "//*[. != ''][1]", "/*"],
    "num": ["2 + 3", "0 div 0", "7", "10 div 4", "-1", "count(//*)", "0"],
    "str": ["concat('1', '2')", "''", "concat('a', 'b')", "string(//*[1])", "concat(' 4', ' ')", "substring('xyz', 9)", "name(/*)",
            "concat('', '')", "translate('a', 'a', '')", "normalize-space('  ')", "string(//zz)", "substring-before('a', 'b')",
            "translate('7', '', '')", "concat('', '3')", "normalize-space(' 5 ')", "substring('a12', 2)",
            "'12'", "' 7 '", "'0'", "'abc'", "'3.5'", "''", "'-2'"],
    "bool": ["true()", "false()", "not(//zz)"],
}
RECYCLE_USES = [
    "substring('abcdefghij', {0})", "substring('abcdefghij', {0}, {1})", "floor({0})", "ceiling({0})", "{0} * 2", "{0} + 1", "-({0})",
    "{0} mod 3", "sum(//zz) + {0}", "concat({0}, '|')", "concat({0}, '|', {1})", "string-length({0})", "contains({0}, '1')",
    "starts-with({0}, {1})", "not({0})", "boolean({0})", "{0} = 1", "{0} < 5", "{0} = {1}", "{0} != ''", "number({0})",
    "string({0})", "normalize-space({0})", "translate({0}, '1', 'x')", "substring-before({0}, '1')", "{0} and {1}", "{0} or {1}",
    "round(2 * {0}) div 2", "substring({0}, 1, 2)", "substring({0}, {1})",
]


def g_recycle_phase(r, nsteps):
    """list of ('var', name, expr) / ('eval', expr)"""
    names = ["q1", "q2", "q3", "q4"]
    out = []

    def source(bias_empty):
        kind = r.weighted([("ns-empty", 5 if bias_empty else 2), ("ns", 5), ("num", 2), ("str", 2), ("bool", 1)])
        return r.choice(RECYCLE_SOURCES[kind])
    for nm in names:
        out.append(("var", nm, source(True)))

    def operand():
        w = r.below(4)
        if w < 2:
            return "$" + r.choice(names)
        return source(r.chance(1, 2))
    for _ in range(nsteps):
        if r.chance(1, 3):
            out.append(("var", r.choice(names), source(r.chance(1, 2))))
        else:
            u = r.choice(RECYCLE_USES)
            a, b = operand(), operand()
            if "{0}" in u and (a.startswith("$") or True):
                out.append(("eval", u.format("(" + a + ")" if not a.startswith("$") and " " in a and "(" not in a[:1] else a,
                                             "(" + b + ")" if not b.startswith("$") and " " in b else b)))
    return out


def g_pred(r, depth):
    d = max(depth, 0)
    k = r.weighted([("lit", 5), ("poscmp", 6), ("last", 3), ("num", 3), ("bool", 6), ("ns", 3), ("nested", 5)])
    if k == "nested":
        return T("pred", g_nested_pred(r).replace("{", "{{").replace("}", "}}"))
    if k == "lit":
        return T("pred", r.choice(["1", "2", "3", "1", "2", "0", "1.5", "4", "10"]))
    if k == "poscmp":
        return T("pred", "position() " + r.choice(["=", "!=", "<", "<=", ">", ">="]) + " " + r.choice(["1", "2", "3", "last()", "last() - 1"]))
    if k == "last":
        return T("pred", r.choice(["last()", "last() - 1", "position() = last()", "position() mod 2 = 1"]))
    if k == "num":
        return T("pred", "{0}", g_num(r, d, True))
    if k == "ns":
        return T("pred", "{0}", g_ns(r, d - 1 if d > 0 else 0, True))
    return T("pred", "{0}", g_bool(r, d, True))


def g_top(r, depth):
    t = r.weighted([("ns", 8), ("num", 3), ("str", 3), ("bool", 4)])
    return {"ns": g_ns, "num": g_num, "str": g_str, "bool": g_bool}[t](r, depth, False) if t != "ns" else g_ns(r, depth)


def shrink_candidates(t):
    """terms obtained by replacing one sub-term by one of its same-type proper sub-terms (or dropping to it at the top)"""
    out = []

    def descendants(x, ty):
        res = []
        for k in x[2:]:
            if k[0] == ty or (ty == "num" and k[0] == "int"):
                res.append(k)
            res += descendants(k, ty)
        return res

    def go(x, rebuild):
        for dsc in descendants(x, x[0]):
            out.append(rebuild(dsc))
        for i, k in enumerate(x[2:]):
            go(k, lambda nk, i=i, x=x, rebuild=rebuild: rebuild(x[:2 + i] + [nk] + x[3 + i:]))
    go(t, lambda y: y)
    # any top-level typed sub-term as a new top
    for ty in ("ns", "bool", "num", "str", "int"):
        out += descendants(t, ty)
    return out


def uses_multi_position_pred(text):
    """a step / filter with two adjacent predicates, an earlier one of which calls position()"""
    import re as _re
    return _re.search(r"\[[^\[\]]*position\(\)[^\[\]]*\]\s*\[", text) is not None or \
        _re.search(r"\[[^\]]*position\(\).*\]\s*\[", text) is not None


WS_DOC_TEXTS = ["p\tq", "p\nq", "p\rq", " p q ", "p\t\tq", "\tp", "p\n", "p\u00a0q", "\u00a0", "a\tb c\nd", "\t12\n", "i1\ti2", "p\u2003q"]


def xml_text(t):
    """text content as it must be written in the (ASCII) document: CR, TAB, LF and non-ASCII as character references"""
    return "".join(c if (32 <= ord(c) < 127 and c not in "<&") else "&#%d;" % ord(c) for c in t)


def gen_doc2(r, maxnodes=14):
    """document with comments and processing instructions too"""
    table = [("r", "", "", -1)]
    budget = [r.range(3, maxnodes)]
    texts = ["1", "2", "3", "10", "a", "b", " 2 ", "x", "2.5", "-1", "NaN", "07", "x y", "9223372036854775808",
             "9999999999999999999", "-9223372036854775809", "18446744073709551616", "0.1", "4294967296", " 2147483648 ",
             "123456789012345678901234", "0.30000000000000004"]
    if r.chance(1, 2):
        texts = texts + [g_numeric_string(r).replace("\t", " ") for _ in range(4)]
    texts = texts + ["i1", "i2 i1", " i3  zz i1 ", "i2 i2", "i4 i3 i2 i1"]
    idn = [0]

    def elem(parent, depth):
        name = r.choice(DOCNAMES)
        me = len(table)
        table.append(("e", name, "", parent))
        xml = "<" + name
        if depth == 0:
            xml += ' xmlns:set="http://exslt.org/sets" xmlns:x="http://xml.apache.org/xalan" xmlns:math="http://exslt.org/math"'
        if r.chance(1, 2):
            idn[0] += 1
            table.append(("a", "k", "i%d" % idn[0], me))
            xml += ' k="i%d"' % idn[0]
        used = set()
        for _ in range(r.weighted([(0, 5), (1, 3), (2, 2)])):
            an = r.choice(["p", "q", "id"])
            if an in used:
                continue
            used.add(an)
            av = r.choice(texts).strip() or "v"
            table.append(("a", an, av, me))
            xml += ' %s="%s"' % (an, av)
        if r.chance(1, 3):
            lv = r.choice(["en", "en-US", "EN-gb", "de", "fr-CA", "e"])
            table.append(("a", "xml:lang", lv, me))
            xml += ' xml:lang="%s"' % lv
        kids = ""
        last_text = False
        nk = r.range(0, 4) if depth < 3 else 0
        for _ in range(nk):
            if budget[0] <= 0:
                break
            budget[0] -= 1
            w = r.weighted([("t", 4), ("e", 8), ("c", 1), ("p", 1)])
            if w == "t" and not last_text:
                t = r.choice(texts) if not r.chance(1, 4) else r.choice(WS_DOC_TEXTS)
                table.append(("t", "", t, me))
                kids += xml_text(t)
                last_text = True
            elif w == "c":
                table.append(("c", "", "note", me))
                kids += "<!--note-->"
                last_text = False
            elif w == "p":
                tg = r.choice(["t", "u"])
                table.append(("p", tg, "d", me))
                kids += "<?%s d?>" % tg
                last_text = False
            else:
                kids += elem(me, depth + 1)
                last_text = False
        if kids:
            return xml + ">" + kids + "</" + name + ">"
        return xml + "/>"

    xml = elem(0, 0)
    # internal DTD subset: attribute `k` is of type ID on every element name (the document's ID map)
    dtd = "<!DOCTYPE %s [%s]>" % (table[1][1], "".join("<!ATTLIST %s k ID #IMPLIED>" % n for n in DOCNAMES))
    return dtd + xml, table


# ---------------------------------------------------------------------------------------------
# expressions aimed at the position() cache: every invalidation site (push / pop of a context node list, between two
# predicates of one step) must change some value when dropped

POS_OUTER_PATHS = ["//*", "/*/*", "//*/*", "descendant::*", "following::*", "//node()", "ancestor-or-self::*", "(//*)",
                   "//*/following-sibling::*", "//*/preceding-sibling::*", "*", "(//* | //@*)", "//*/..", "preceding::*"]
POS_SENSITIVE = ["position() = 1", "position() = 2", "position() = 3", "position() = last()", "position() < 3", "position() > 1",
                 "position() mod 2 = 1", "position() = last() - 1", "position() != 2", "position() >= 2", "last() - position() = 1"]
POS_INNER_BASES = ["../*", "../node()", "(. | following-sibling::*)", "(preceding-sibling::* | .)", "ancestor-or-self::*",
                   "ancestor-or-self::node()", "//*", "../../*/*", "(../* | ../@*)", "$na", "self::node()", "(//* )",
                   "preceding-sibling::*/following-sibling::*", "following-sibling::*/preceding-sibling::*"]


def g_positional_expr(r):
    outer = r.choice(POS_OUTER_PATHS)
    fam = r.below(6)
    sp = lambda: r.choice(POS_SENSITIVE)
    inner = lambda: "%s[%s]" % (r.choice(POS_INNER_BASES), sp())
    if fam == 0:      # between predicates
        return "%s[%s][%s]" % (outer, sp(), sp()) + ("[%s]" % sp() if r.chance(1, 3) else "")
    if fam == 1:      # nested first (pop), outer position afterwards
        return "%s[count(%s) %s %s and %s]" % (outer, inner(), r.choice(["=", ">", "<", "!="]), r.choice(["0", "1", "2"]), sp())
    if fam == 2:      # outer position first, nested afterwards (push)
        return "%s[%s and count(%s) %s %s]" % (outer, r.choice(["position() >= 1", "position() > 0", sp()]), inner(),
                                               r.choice(["=", ">", "<", "!="]), r.choice(["0", "1", "2"]))
    if fam == 3:      # arithmetic mix in one numeric predicate
        return "%s[position() + count(%s) - count(%s)]" % (outer, inner(), inner())
    if fam == 4:      # comparison mixing inner and outer position()/last()
        return "%s[(position() %s count(%s)) or (last() = count(%s) and %s)]" % (outer, r.choice(["=", "<", ">"]), inner(), inner(), sp())
    return "count(%s[%s]/%s) + count(%s)" % (outer, sp(), inner(), "%s[%s and %s]" % (outer, inner(), sp()))


# ---------------------------------------------------------------------------------------------
# white space (XPath 4.2: the XML production S = #x20 | #x9 | #xD | #xA, and nothing else) and context node kinds

WS_STRINGS = [" ", "\t", "\n", "\r", "  ", "\t\t", "\n\n", "\r\r", " \t", "\t\n\r ", "p q", "p\tq", "p\nq", "p\rq", "p  q", "p\t\tq",
              "p \tq", "p\r\nq", " p", "\tp", "\np", "\rp", "p ", "p\t", "p\n", "p\r", " p\tq", "p\tq ", "p\tq\nr", "a\tb c\nd", "\u00a0",
              "p\u00a0q", "\u00a0p\u00a0", "p\u2003q", "p\u3000q", "\u2003", "p\u00a0\tq", "\t12\n", "\r7", " 7\t", "\u00a012", "1\t2", "12\u00a0",
              "\n-3.5\r", "i1\ti2", "i2\ni1", "\ri1", "a\tb\tc"]


def q(sv):
    return "'" + sv + "'"


def g_whitespace_expr(r):
    """string functions over strings with every kind of white space, alone / doubled / mixed / leading / trailing / interior"""
    a, b = r.choice(WS_STRINGS), r.choice(WS_STRINGS)
    ws1 = r.choice([" ", "\t", "\n", "\r", "\u00a0", "\u2003"])
    f = r.below(16)
    if f == 0:
        return "normalize-space(%s)" % q(a)
    if f == 1:
        return "normalize-space(concat(%s, %s))" % (q(a), q(b))
    if f == 2:
        return "string-length(normalize-space(%s))" % q(a)
    if f == 3:
        return "translate(%s, %s, %s)" % (q(a), q(ws1 + "p"), q(r.choice(["_", "", " x"])))
    if f == 4:
        return "contains(%s, %s)" % (q(a), q(ws1))
    if f == 5:
        return "starts-with(%s, %s)" % (q(a), q(ws1))
    if f == 6:
        return "substring-before(%s, %s)" % (q(a), q(ws1))
    if f == 7:
        return "substring-after(%s, %s)" % (q(a), q(ws1))
    if f == 8:
        return "string-length(%s)" % q(a)
    if f == 9:
        return "number(%s)" % q(a)
    if f == 10:
        return "%s + 1" % q(a)
    if f == 11:
        return "count(id(%s))" % q(a)
    if f == 12:
        return "normalize-space(%s) = %s" % (q(a), q(b))
    if f == 13:
        return "//text()[normalize-space() = normalize-space(%s)]" % q(a)
    if f == 14:
        return "count(//text()[normalize-space(.) != normalize-space()])"
    return "concat('[', normalize-space(//text()[%d]), ']')" % r.range(1, 4)


CONTEXT_KIND_SETS = ["//@*", "//text()", "//comment()", "//processing-instruction()", "//*", "/self::node()", "//node()", "//@*/..",
                     "(//@* | //text())", "//*/@*[1]"]
CONTEXT_FUNCS = ["lang('en')", "lang('de')", "lang('EN-gb')", "lang('fr')", "name() = local-name()", "name() != ''", "local-name() = 'lang'",
                 "string-length() > 1", "string-length() = string-length(string())", "normalize-space() = string()", "normalize-space() = normalize-space(.)",
                 "number() > 1", "number() = number(.)", "string() = .", "count(id(.)) > 0", "count(id(string())) = count(id(.))",
                 "position() = last()", "last() > 1 and position() = 1", "not(lang('en'))", "name(..) = 'a'", "count(..) = 1",
                 "count(ancestor::*) > 1", "boolean(parent::*)"]


def g_context_kind_expr(r):
    """every context-dependent function with context nodes of every kind"""
    s1 = r.choice(CONTEXT_KIND_SETS)
    f1 = r.choice(CONTEXT_FUNCS)
    w = r.below(6)
    if w == 0:
        return "count(%s[%s])" % (s1, f1)
    if w == 1:
        return "%s[%s]" % (s1, f1)
    if w == 2:
        return "%s[%s][%s]" % (s1, f1, r.choice(CONTEXT_FUNCS))
    if w == 3:
        return "string(%s[%s][1])" % (s1, f1)
    if w == 4:
        return "name(%s[%s][last()])" % (s1, f1)
    return "%s[%s and %s]" % (s1, f1, r.choice(CONTEXT_FUNCS))


# ---------------------------------------------------------------------------------------------
# value sequences: documents whose sibling values spell out words over a small alphabet, so that every duplicate / adjacency
# pattern of string-values occurs (a,b,a,b ; x,x,x,y ; ...), for the functions that compare the string-values of the nodes of a set

def all_words(alphabet, maxlen):
    ws = [[]]
    out = []
    for _ in range(maxlen):
        ws = [w + [c] for w in ws for c in alphabet]
        out += ws
    return out


def words_doc(words):
    """<r><s><v>..</v>...</s>...</r> : one <s> per word, one <v> per letter; (xml, table)"""
    table = [("r", "", "", -1), ("e", "r", "", 0)]
    xml = '<r xmlns:set="http://exslt.org/sets" xmlns:x="http://xml.apache.org/xalan" xmlns:math="http://exslt.org/math">'
    for w in words:
        sidx = len(table)
        table.append(("e", "s", "", 1))
        xml += "<s>"
        for c in w:
            vidx = len(table)
            table.append(("e", "v", "", sidx))
            if c != "":
                table.append(("t", "", c, vidx))
                xml += "<v>%s</v>" % c
            else:
                xml += "<v/>"
        xml += "</s>"
    xml += "</r>"
    return xml, table


SEQ_FUNCS_1 = ["x:distinct({0})", "set:distinct({0})", "count(x:distinct({0}))", "count(set:distinct({0}))", "math:highest({0})",
               "math:lowest({0})", "x:distinct({0}/text())", "set:distinct({0} | {1})", "x:distinct(({0} | {1})/text())",
               "string(x:distinct({0})[last()])", "count(x:distinct({0})) = count(set:distinct({0}))"]
SEQ_FUNCS_2 = ["set:difference({0}, {1})", "set:intersection({0}, {1})", "x:difference({0}, {1})", "x:intersection({0}, {1})",
               "set:leading({0}, {1})", "set:trailing({0}, {1})", "set:has-same-node({0}, {1})",
               "set:leading(//v, {0}[2])", "set:trailing(//v, {1}[1])", "set:difference(//v, {0})", "x:intersection(//v, {1})",
               "count(set:difference(x:distinct(//v), set:distinct({0})))"]


def g_sequence_requests(r, nwords):
    """(xml, table, [expr...]) for one value-sequence document of `nwords` groups"""
    nodes = ["//s[%d]/v" % (i + 1) for i in range(nwords)]
    exprs = []
    for i in range(nwords):
        for f in SEQ_FUNCS_1[:6]:
            exprs.append(f.format(nodes[i]))
        j = r.below(nwords)
        for f in r.shuffle(SEQ_FUNCS_1[6:])[:2] + r.shuffle(SEQ_FUNCS_2)[:3]:
            exprs.append(f.format(nodes[i], nodes[j]))
    exprs.append("x:distinct(//v)")
    exprs.append("set:distinct(//v/text())")
    return exprs
