"""C10 generator: rule sets (modules with xsl:include / xsl:import, modes, explicit and default priorities, union
patterns) and small documents; rendering to stylesheet files, to the request lines of xm_c10 and to the driver
stylesheet that observes, per node and mode, which rule the real engine instantiates.

All randomness comes from the `Rng` handed in by the check."""
import os

XSL = "http://www.w3.org/1999/XSL/Transform"

# name -> (pattern text, last-step code, name argument, shape: 0 simple, 1 multi-step, 2 boolean predicate, 3 positional predicate)
ALTS = {
    "a": ("a", "ne", "a", 0), "b": ("b", "ne", "b", 0), "c": ("c", "ne", "c", 0),
    "p:a": ("p:a", "ne", "a", 0), "p:b": ("p:b", "ne", "b", 0),
    "*": ("*", "we", "-", 0), "p:*": ("p:*", "nwe", "-", 0),
    "@x": ("@x", "na", "x", 0), "@y": ("@y", "na", "y", 0), "@p:x": ("@p:x", "na", "x", 0),
    "@*": ("@*", "wa", "-", 0), "@p:*": ("@p:*", "nwa", "-", 0),
    "text()": ("text()", "text", "-", 0), "comment()": ("comment()", "comment", "-", 0),
    "node()": ("node()", "node", "-", 0),
    "pi()": ("processing-instruction()", "pi", "-", 0),
    "pi(p1)": ("processing-instruction('p1')", "pilit", "-", 0),
    "/": ("/", "root", "-", 0),
    "a/b": ("a/b", "ne", "b", 1), "a//b": ("a//b", "ne", "b", 1), "*/a": ("*/a", "ne", "a", 1),
    "a[1]": ("a[1]", "ne", "a", 3), "a[@x]": ("a[@x]", "ne", "a", 2), "b[last()]": ("b[last()]", "ne", "b", 3),
    "*[b]": ("*[b]", "we", "-", 2), "*[1]": ("*[1]", "we", "-", 3), "/*": ("/*", "we", "-", 1),
    "/a": ("/a", "ne", "a", 1), "//b": ("//b", "ne", "b", 1), "p:*[1]": ("p:*[1]", "nwe", "-", 3),
    "a/text()": ("a/text()", "text", "-", 1), "text()[1]": ("text()[1]", "text", "-", 3),
    "a/@x": ("a/@x", "na", "x", 1), "@*[.='w1']": ("@*[.='w1']", "wa", "-", 2),
    "node()[1]": ("node()[1]", "node", "-", 3), "a/node()": ("a/node()", "node", "-", 1),
    "comment()[1]": ("comment()[1]", "comment", "-", 3), "c/comment()": ("c/comment()", "comment", "-", 1),
    "c/pi()": ("c/processing-instruction()", "pi", "-", 1),
    "pi(p1)[1]": ("processing-instruction('p1')[1]", "pilit", "-", 3),
    "key": ("key('k','v')", "fn", "-", 0), "key/a": ("key('k','v')/a", "ne", "a", 1),
}
SIMPLE = [k for k, v in ALTS.items() if not v[3] and v[1] not in ("fn",)]
COMPLEX = [k for k, v in ALTS.items() if v[3] and not k.startswith("key")]
SPEC_PRIO = {"ne": 0, "na": 0, "pilit": 0, "nwe": -25, "nwa": -25, "we": -50, "wa": -50, "text": -50, "comment": -50,
             "node": -50, "pi": -50, "root": 50, "fn": 50}
PRIOS = [-100, -50, -25, 0, 25, 50, 100, 200]


def spec_default(alt):
    _, last, _, cx = ALTS[alt]
    return 50 if cx else SPEC_PRIO[last]


def is_mixed(t):
    return t["prio"] is None and len(set(spec_default(a) for a in t["alts"])) > 1


# ---------------------------------------------------------------------------------------------- generation

def gen_doc(r, maxnodes):
    budget = [r.range(3, maxnodes)]
    counter = [0]

    def tok(pfx):
        counter[0] += 1
        return "%s%d" % (pfx, counter[0])

    def elem(depth):
        budget[0] -= 1
        name = r.weighted([("a", 5), ("b", 5), ("c", 3), ("k:a", 2), ("k:b", 1), ("d", 1)])
        attrs = []
        for an in ("x", "y", "k:x"):
            if r.chance(1, 4):
                attrs.append([an, tok("w")])
        kids = []
        last_text = False
        while budget[0] > 0 and depth < 4 and r.chance(3, 5) and len(kids) < 4:
            k = r.weighted([("el", 6), ("tx", 3), ("co", 1), ("pi", 1)])
            if k == "tx" and last_text:
                k = "el"
            if k == "el":
                kids.append(elem(depth + 1))
            elif k == "tx":
                budget[0] -= 1
                kids.append({"k": "tx", "text": tok("v")})
            elif k == "co":
                budget[0] -= 1
                kids.append({"k": "co", "text": tok("c")})
            else:
                budget[0] -= 1
                kids.append({"k": "pi", "target": r.choice(["p1", "p2"]), "text": tok("d")})
            last_text = k == "tx"
        return {"k": "el", "name": name, "attrs": attrs, "kids": kids}

    top = []
    if r.chance(1, 6):
        top.append({"k": "co", "text": tok("c")})
    top.append(elem(0))
    if r.chance(1, 8):
        top.append({"k": "pi", "target": "p1", "text": tok("d")})
    return {"k": "rt", "kids": top}


FOCUS = {
    "elem": ["a", "*", "a[1]", "a[@x]", "*[b]", "*[1]", "node()", "*/a", "/a", "node()[1]", "p:*", "p:a", "a//b", "b", "/*"],
    "attr": ["@x", "@*", "@*[.='w1']", "a/@x", "@p:*", "@p:x", "@y", "node()"],
    "text": ["text()", "node()", "a/text()", "text()[1]", "node()[1]", "a/node()", "comment()", "comment()[1]", "pi()", "pi(p1)"],
}


def gen_alts(r, allow_mixed, allow_key, focus=None):
    n = r.weighted([(1, 6), (2, 3), (3, 1)])
    if focus:
        n = r.weighted([(1, 4), (2, 4), (3, 2)])
        pool = FOCUS[focus]
    else:
        pool = r.weighted([(SIMPLE, 5), (COMPLEX, 3), (SIMPLE + COMPLEX, 3)])
    alts = []
    for _ in range(n):
        a = r.choice(pool)
        if allow_key and r.chance(1, 12):
            a = r.choice(["key", "key/a"])
        if a not in alts:
            alts.append(a)
    if not allow_mixed and len(set(spec_default(a) for a in alts)) > 1:
        d = spec_default(alts[0])
        alts = [a for a in alts if spec_default(a) == d]
    return alts


def gen_case(r, size="quick"):
    """returns a case dict (JSON-serialisable)"""
    big = size != "quick"
    ntmpl = r.range(2, 12 if big else 9)
    allow_mixed = r.chance(1, 4)
    allow_key = r.chance(1, 5)
    allow_wrapperless = r.chance(1, 25)
    allow_rebind = r.chance(1, 5)
    few_names = r.chance(1, 2)      # concentrate on few patterns so that conflicts are frequent
    focus = r.weighted([(None, 5), ("elem", 3), ("attr", 1), ("text", 1)])
    if focus:
        few_names = False
    ids = [0]

    def tmpl():
        ids[0] += 1
        alts = gen_alts(r, allow_mixed, allow_key, focus)
        if few_names and r.chance(2, 3):
            alts = [r.choice(["a", "*", "a[1]", "node()", "b", "@x", "@*", "text()", "a/b", "*[1]", "/"])]
        prio = r.choice(PRIOS) if r.chance(1, 3) else None
        return {"id": ids[0], "mode": r.weighted([(0, 5), (1, 3), (2, 1 if focus else 2)]), "prio": prio, "alts": alts,
                "ai": r.chance(1, 4)}

    remaining = [ntmpl]

    def items(maxn, allow_inc, depth):
        out = []
        n = min(remaining[0], r.range(0, maxn))
        for _ in range(n):
            if allow_inc and r.chance(1, 5):
                inc = {"rebind": allow_rebind and r.chance(1, 2), "imports": [], "items": items(3, False, depth)}
                if depth < 3 and r.chance(1, 5):
                    inc["imports"].append(module(depth + 1))
                out.append({"inc": inc})
            elif remaining[0] > 0:
                remaining[0] -= 1
                out.append({"t": tmpl()})
        return out

    def module(depth):
        if allow_wrapperless and depth > 0 and r.chance(1, 3):
            ids[0] += 1
            return {"wrapperless": True, "rebind": False, "imports": [],
                    "items": [{"t": {"id": ids[0], "mode": 0, "prio": None, "alts": ["/"], "ai": False}}]}
        m = {"wrapperless": False, "rebind": allow_rebind and depth > 0 and r.chance(1, 4), "imports": [], "items": []}
        if depth < 3:
            for _ in range(r.weighted([(0, 4), (1, 4), (2, 2)]) if depth > 0 else r.weighted([(0, 3), (1, 4), (2, 3)])):
                m["imports"].append(module(depth + 1))
        m["items"] = items(5, True, depth)
        return m

    main = module(0)
    while remaining[0] > 0 and len(main["items"]) < 12:
        remaining[0] -= 1
        main["items"].append({"t": tmpl()})
    if r.chance(1, 4):
        # named templates (anywhere in the import tree) called from some rules
        mods = [m for _, m in all_modules(main) if not m.get("wrapperless")]
        rules = [t for _, t, _ in all_templates(main) if t["alts"]]
        homes = []
        for _ in range(r.range(1, 2)):
            ids[0] += 1
            nt = {"id": ids[0], "mode": 0, "prio": None, "alts": [], "ai": r.chance(2, 3), "named": True}
            home = r.choice(mods)
            home["items"].append({"t": nt})
            homes.append((nt, home))
        # rules below the module of a named template must not call a named template: with the unchanged engine
        # (current template := the named template) apply-imports would reach such a rule again and again
        below = set()

        def collect(m, inside):
            for t2, _ in flat_templates(m):
                if inside:
                    below.add(t2["id"])
            for c in flat_imports(m):
                collect(c, True)
        for _, home in homes:
            collect(home, False)
        for nt, _ in homes:
            for t in rules:
                if t["id"] in below:
                    continue
                if not t.get("call") and r.chance(1, 3) and not any(m.get("wrapperless") and any(
                        it.get("t") is t for it in m["items"]) for _, m in all_modules(main)):
                    t["call"] = nt["id"]
                    if nt["ai"]:
                        t["ai"] = False
                    if r.chance(1, 4):
                        t["bare"] = True      # the body is only the call
                        t["ai"] = False
    if r.chance(1, 4):
        # xsl:apply-templates select="." in a higher mode with an xsl:with-param whose body is xsl:apply-imports or a
        # call of a named template (-> apply-imports): the body belongs to the caller's context (XSLT 11.6, 5.6)
        named_ok = [t for _, t, _ in all_templates(main) if t.get("named")]
        # as above: a rule below the module of a named template must not call one (the unchanged engine would loop)
        below2 = set()

        def collect2(m, inside):
            for t2, _ in flat_templates(m):
                if inside:
                    below2.add(t2["id"])
            for c in flat_imports(m):
                collect2(c, True)
        for _, m in all_modules(main):
            if any(t2.get("named") for t2, _ in flat_templates(m)):
                collect2(m, False)
        for _, t, _ in all_templates(main):
            if t["alts"] and not t.get("named") and not t.get("bare") and t["mode"] < 2 and r.chance(1, 3) and not any(
                    m.get("wrapperless") and any(it.get("t") is t for it in m["items"]) for _, m in all_modules(main)):
                wp = {"mode": r.range(t["mode"] + 1, 2), "call": 0}
                if named_ok and t["id"] not in below2 and r.chance(1, 3):
                    wp["call"] = r.choice(named_ok)["id"]
                t["wp"] = wp
    keymatch = r.choice(["text()|b", "b|comment()", "a|@x", "processing-instruction()|a/b", "text()", "/ | a"])
    return {"doc": gen_doc(r, 14 if big else 10), "keymatch": keymatch, "main": main}


# ---------------------------------------------------------------------------------------------- flattening

def flat_templates(mod):
    out = []
    for it in mod["items"]:
        if "t" in it:
            out.append((it["t"], mod.get("rebind", False)))
        else:
            for jt in it["inc"]["items"]:
                if "t" in jt:
                    out.append((jt["t"], it["inc"].get("rebind", False)))
    return out


def flat_imports(mod):
    out = list(mod["imports"])
    for it in mod["items"]:
        if "inc" in it:
            out.extend(it["inc"]["imports"])
    return out


def all_modules(main):
    """[(path, module)] parents first, siblings in document order; path relative to the driver module D = []"""
    out = []

    def go(m, path):
        out.append((path, m))
        for i, c in enumerate(flat_imports(m)):
            go(c, path + [i])
    go(main, [0])
    return out


def all_templates(main):
    res = []
    for path, m in all_modules(main):
        for t, rb in flat_templates(m):
            res.append((path, t, rb))
    return res


def pattern_text(t):
    return " | ".join(ALTS[a][0] for a in t["alts"])


# ---------------------------------------------------------------------------------------------- documents

def number_doc(doc):
    """nodes in document order, attributes after their element. returns list of dicts:
    id, kind, lname, text, kids(ids), tree (pre-order index among tree nodes) , attr (name or None)"""
    nodes = []
    tree_idx = [0]

    def go(n):
        me = {"id": len(nodes), "kind": n["k"], "lname": "-", "text": "-", "kids": [], "tree": tree_idx[0], "attr": None}
        tree_idx[0] += 1
        nodes.append(me)
        if n["k"] == "el":
            me["lname"] = n["name"].split(":")[-1]
            for an, av in n["attrs"]:
                nodes.append({"id": len(nodes), "kind": "at", "lname": an.split(":")[-1], "text": av, "kids": [],
                              "tree": me["tree"], "attr": an})
        elif n["k"] == "pi":
            me["lname"] = n["target"]
            me["text"] = n["text"]
        elif n["k"] in ("tx", "co"):
            me["text"] = n["text"]
        for c in n.get("kids", []):
            me["kids"].append(go(c))
        return me["id"]
    go(doc)
    return nodes


def doc_xml(doc):
    def go(n, top):
        if n["k"] == "el":
            s = "<" + n["name"]
            if top:
                s += ' xmlns:k="u1"'
            for an, av in n["attrs"]:
                s += ' %s="%s"' % (an, av)
            if not n["kids"]:
                return s + "/>"
            return s + ">" + "".join(go(c, False) for c in n["kids"]) + "</" + n["name"] + ">"
        if n["k"] == "tx":
            return n["text"]
        if n["k"] == "co":
            return "<!--" + n["text"] + "-->"
        if n["k"] == "pi":
            return "<?" + n["target"] + " " + n["text"] + "?>"
        return ""
    return "".join(go(c, True) for c in doc["kids"])


# ---------------------------------------------------------------------------------------------- stylesheets

def esc(s):
    return s.replace("&", "&amp;").replace("<", "&lt;").replace('"', "&quot;")


# mode 1 is written "m1"; mode 2 is written "p:m2", a QName whose prefix is resolved in the module that uses it: p is
# bound to u1 everywhere except in "rebind" modules/includes, where it is bound to u2 -- there the same text names a
# different mode ({u2}m2, number 3 in the model).  The driver asks for m1, p:m2 (= {u1}m2) and q:m2 (= {u2}m2).
MODE_TEXT = {1: "m1", 2: "p:m2"}


def eff_mode(mode, rebind):
    return 3 if (mode == 2 and rebind) else mode


def tmpl_xml(t):
    if t.get("named"):
        return '<xsl:template name="n%d"><t k="%d"/>%s</xsl:template>' % (
            t["id"], t["id"], "<xsl:apply-imports/>" if t["ai"] else "")
    s = '<xsl:template match="%s"' % esc(pattern_text(t))
    if t["mode"]:
        s += ' mode="%s"' % MODE_TEXT[t["mode"]]
    if t["prio"] is not None:
        s += ' priority="%s"' % fmt_prio(t["prio"])
    nodirect = '<xsl:if test="false()">x</xsl:if>' if t.get("nodirect") else ""
    if t.get("bare"):
        # the body is only a call of a named template (Xalan runs it as a "direct template")
        return s + '>%s<xsl:call-template name="n%d"/></xsl:template>' % (nodirect, t["call"])
    # every rule prints the parameter p it was given right after its marker
    s += '><xsl:param name="p"/><t k="%d"/><xsl:copy-of select="$p"/>' % t["id"]
    for k in t.get("extra", []):
        s += '<t k="%d"/>' % k
    if t.get("call"):
        s += '<xsl:call-template name="n%d"/>' % t["call"]
    wp = t.get("wp")
    if wp:
        body = nodirect + '<xsl:call-template name="n%d"/>' % wp["call"] if wp.get("call") else "<xsl:apply-imports/>"
        if wp.get("var"):
            # equivalent by XSLT 11.6: the parameter value is computed in the caller's context anyway
            s += ('<xsl:variable name="v">%s</xsl:variable><xsl:apply-templates select="." mode="%s">'
                  '<xsl:with-param name="p" select="$v"/></xsl:apply-templates>' % (body, MODE_TEXT[wp["mode"]]))
        else:
            s += ('<xsl:apply-templates select="." mode="%s"><xsl:with-param name="p">%s</xsl:with-param>'
                  '</xsl:apply-templates>' % (MODE_TEXT[wp["mode"]], body))
    if t["ai"]:
        s += "<xsl:apply-imports/>"
    return s + "</xsl:template>"


def fmt_prio(c):
    sign = "-" if c < 0 else ""
    c = abs(c)
    return "%s%d.%02d" % (sign, c // 100, c % 100)


def split_unions(case):
    """§5.5: a rule with a union pattern is equivalent to one rule per alternative. Same markers, document order kept."""
    import copy
    c = copy.deepcopy(case)

    def fix(items):
        out = []
        for it in items:
            if "t" in it and not it["t"]["alts"]:
                out.append(it)
            elif "t" in it:
                for a in it["t"]["alts"]:
                    t2 = dict(it["t"])
                    t2["alts"] = [a]
                    out.append({"t": t2})
            else:
                it["inc"]["items"] = fix(it["inc"]["items"])
                for m in it["inc"]["imports"]:
                    walk(m)
                out.append(it)
        return out

    def walk(m):
        m["items"] = fix(m["items"])
        for i in m["imports"]:
            walk(i)
    walk(c["main"])
    return c


def explicit_defaults(case):
    """§5.5: a rule without a priority attribute whose alternatives all have the default priority d is equivalent
    to the same rule with priority="d"."""
    import copy
    c = copy.deepcopy(case)
    for _, t, _ in all_templates(c["main"]):
        if t["prio"] is None:
            ds = set(spec_default(a) for a in t["alts"])
            if len(ds) == 1:
                t["prio"] = ds.pop()
    return c


def wp_via_variable(case):
    """§11.6: the value of xsl:with-param is computed like that of xsl:variable, in the context of the instruction's
    parent template: binding it to a variable first and passing select="$v" is equivalent."""
    import copy
    c = copy.deepcopy(case)
    for _, t, _ in all_templates(c["main"]):
        if t.get("wp"):
            t["wp"]["var"] = True
    return c


def undirect(case):
    """an instruction that does nothing in front of a lone xsl:call-template changes nothing, but keeps Xalan from
    running the named template as a "direct template" of the parent element."""
    import copy
    c = copy.deepcopy(case)
    for _, t, _ in all_templates(c["main"]):
        t["nodirect"] = True
    return c


def inline_calls(case):
    """§5.6: xsl:call-template does not change the current template rule, so calling a named template whose body is
    "marker, apply-imports" is equivalent to writing that body in the calling rule."""
    import copy
    c = copy.deepcopy(case)
    allt = [t for _, t, _ in all_templates(c["main"])]
    named = {t["id"]: t for t in allt if t.get("named")}
    for t in allt:
        if t.get("call") and not t.get("bare"):
            n = named[t["call"]]
            t["extra"] = [n["id"]]
            t["ai"] = t["ai"] or n["ai"]
            del t["call"]
    return c


KEYMATCH_ALTS = {"text()|b": ["text()", "b"], "b|comment()": ["b", "comment()"], "a|@x": ["a", "@x"],
                 "processing-instruction()|a/b": ["pi()", "a/b"], "text()": ["text()"], "/ | a": ["/", "a"], "b": ["b"]}


def dekey(case):
    """xsl:key name="k" match="M" use="'v'" makes key('k','v') select exactly the nodes matching M, so a rule
    match="key('k','v')" (default priority 0.5) is equivalent to match="M" priority="0.5" (or its own priority)."""
    c = split_unions(case)
    repl = KEYMATCH_ALTS.get(c["keymatch"])
    if repl is None:
        return c
    for _, t, _ in all_templates(c["main"]):
        if t["alts"] == ["key"]:
            t["alts"] = list(repl)
            if t["prio"] is None:
                t["prio"] = 50
    return c


def write_case(case, d, distinct_patterns=False):
    """writes D.xsl, module files, drv.xml, doc.xml into directory d. Returns path of D.xsl."""
    os.makedirs(d, exist_ok=True)
    for f in os.listdir(d):
        if f.endswith(".xsl") or f.endswith(".xml"):
            os.unlink(os.path.join(d, f))
    counter = [0]
    uniq = [0]

    def fname(pfx):
        counter[0] += 1
        return "%s%d.xsl" % (pfx, counter[0])

    def render_t(t):
        s = tmpl_xml(t)
        if distinct_patterns:
            # make every pattern *string* distinct without changing what it matches (trailing blanks)
            uniq[0] += 1
            s = s.replace('match="%s"' % esc(pattern_text(t)), 'match="%s%s"' % (esc(pattern_text(t)), " " * uniq[0]), 1)
        return s

    def write_module(m):
        name = fname("m")
        if m.get("wrapperless"):
            t = m["items"][0]["t"]
            with open(os.path.join(d, name), "w") as h:
                h.write('<t k="%d" xsl:version="1.0" xmlns:xsl="%s"/>' % (t["id"], XSL))
            return name
        body = []
        for i in m["imports"]:
            body.append('<xsl:import href="%s"/>' % write_module(i))
        for it in m["items"]:
            if "t" in it:
                body.append(render_t(it["t"]))
            else:
                inc = it["inc"]
                iname = fname("i")
                ib = []
                for i in inc["imports"]:
                    ib.append('<xsl:import href="%s"/>' % write_module(i))
                for jt in inc["items"]:
                    if "t" in jt:
                        ib.append(render_t(jt["t"]))
                with open(os.path.join(d, iname), "w") as h:
                    h.write('<xsl:stylesheet version="1.0" xmlns:xsl="%s" xmlns:p="%s">\n%s\n</xsl:stylesheet>\n' % (
                        XSL, "u2" if inc.get("rebind") else "u1", "\n".join(ib)))
                body.append('<xsl:include href="%s"/>' % iname)
        with open(os.path.join(d, name), "w") as h:
            h.write('<xsl:stylesheet version="1.0" xmlns:xsl="%s" xmlns:p="%s">\n%s\n</xsl:stylesheet>\n' % (
                XSL, "u2" if m.get("rebind") else "u1", "\n".join(body)))
        return name

    main_name = write_module(case["main"])
    ident = ('<xsl:attribute name="i"><xsl:value-of select="count(preceding::node()) + count(ancestor::node())"/></xsl:attribute>'
             '<xsl:if test="count(. | ../@*) = count(../@*)"><xsl:attribute name="a"><xsl:value-of select="name()"/></xsl:attribute></xsl:if>')
    drv = []
    drv.append('<xsl:stylesheet version="1.0" xmlns:xsl="%s" xmlns:p="u1" xmlns:q="u2" exclude-result-prefixes="p q">' % XSL)
    drv.append('<xsl:import href="%s"/>' % main_name)
    drv.append('<xsl:output method="xml" indent="no"/>')
    drv.append('<xsl:key name="k" match="%s" use="\'v\'"/>' % esc(case["keymatch"]))
    drv.append('<xsl:template match="/" priority="1000000"><xsl:choose><xsl:when test="drv__"><out>')
    drv.append('<xsl:for-each select="document(\'doc.xml\')">')
    drv.append('<xsl:for-each select=". | .//node() | .//@*">')
    for mode, text in ((0, None), (1, "m1"), (2, "p:m2"), (3, "q:m2")):
        drv.append('<n m="%d">%s<xsl:apply-templates select="."%s/></n>' % (mode, ident, ' mode="%s"' % text if text else ""))
    drv.append('</xsl:for-each>')
    for path, t, rb in all_templates(case["main"]):
        for j, a in enumerate(t["alts"]):
            p = ALTS[a][0]
            if rb:
                p = p.replace("p:", "q:")
            expr = p if (p.startswith("/") or p.startswith("key(")) else "//" + p
            drv.append('<a k="%d" j="%d"><xsl:for-each select="%s"><m>%s</m></xsl:for-each></a>' % (t["id"], j, esc(expr), ident))
    drv.append('</xsl:for-each></out></xsl:when>')
    drv.append('<xsl:otherwise><t k="0"/><xsl:apply-imports/></xsl:otherwise></xsl:choose></xsl:template>')
    drv.append('</xsl:stylesheet>')
    with open(os.path.join(d, "D.xsl"), "w") as h:
        h.write("\n".join(drv) + "\n")
    with open(os.path.join(d, "drv.xml"), "w") as h:
        h.write("<drv__/>")
    with open(os.path.join(d, "doc.xml"), "w") as h:
        h.write(doc_xml(case["doc"]))
    return os.path.join(d, "D.xsl")


# ---------------------------------------------------------------------------------------------- model requests

def model_lines(case, nodes, matches):
    """request lines for xm_c10 (without the queries). matches: {(tmpl id, alt): [node ids]}"""
    L = ["reset", "sheet - 0"]
    # driver module D: one rule, match="/", priority 1000000, no mode, apply-imports
    pats = {}

    def patkey(s):
        return pats.setdefault(s, len(pats) + 1)

    L.append("tmpl - 0 0 100000000 %d 1 1 root - 0" % patkey("/"))
    for path, m in all_modules(case["main"]):
        ps = ".".join(str(x) for x in path)
        L.append("sheet %s %d" % (ps, 1 if m.get("wrapperless") else 0))
        for t, rb in flat_templates(m):
            alts = " ".join("%s %s %d" % (ALTS[a][1], ALTS[a][2], ALTS[a][3]) for a in t["alts"])
            ai = "%d" % (1 if t["ai"] else 0)
            if t.get("call"):
                ai += "c%d" % t["call"]
            if t.get("bare"):
                ai += "x"
            elif t.get("wp"):
                ai += "w%d" % eff_mode(t["wp"]["mode"], rb)
                if t["wp"].get("call"):
                    ai += "b%d" % t["wp"]["call"]
            L.append(("tmpl %s %d %d %s %d %s %d %s" % (
                ps, t["id"], eff_mode(t["mode"], rb), "-" if t["prio"] is None else str(t["prio"]), patkey(pattern_text(t)),
                ai, len(t["alts"]), alts)).rstrip())
    for n in nodes:
        L.append("node %d %s %s %s %s" % (n["id"], n["kind"], n["lname"], n["text"], " ".join(str(k) for k in n["kids"])))
    root_id = nodes[0]["id"]
    L.append("match 0 0 %d" % root_id)
    for (k, j), ns in sorted(matches.items()):
        L.append("match %d %d %s" % (k, j, " ".join(str(x) for x in ns)))
    return L
