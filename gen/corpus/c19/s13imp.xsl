<?xml version="1.0"?>
<xsl:stylesheet xmlns:xsl="http://www.w3.org/1999/XSL/Transform" version="1.0" xmlns:a="urn:same" xmlns:e="urn:same"
    extension-element-prefixes="e a">
<xsl:key name="k" match="item" use="."/>
<xsl:decimal-format name="df" decimal-separator=","/>
<xsl:attribute-set name="as"><xsl:attribute name="r">3</xsl:attribute></xsl:attribute-set>
<xsl:template match="item"><i/></xsl:template>
</xsl:stylesheet>
