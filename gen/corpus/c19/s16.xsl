<?xml version="1.0"?>
<!-- C19 family (a): the per-transformer cache of ICU collators (ICUBridgeCollationCompareFunctorImpl, 10 entries): xsl:sort with
     12 distinct lang values (bound + 2), then recently used, evicted and surviving ones again. -->
<xsl:stylesheet version="1.0" xmlns:xsl="http://www.w3.org/1999/XSL/Transform">
  <xsl:output method="text" encoding="UTF-8"/>
  <xsl:template match="/">
    <xsl:for-each select="doc/w"><xsl:sort select="." lang="en"/><xsl:value-of select="."/><xsl:text> </xsl:text></xsl:for-each><xsl:text>&#10;</xsl:text>
    <xsl:for-each select="doc/w"><xsl:sort select="." lang="de"/><xsl:value-of select="."/><xsl:text> </xsl:text></xsl:for-each><xsl:text>&#10;</xsl:text>
    <xsl:for-each select="doc/w"><xsl:sort select="." lang="fr"/><xsl:value-of select="."/><xsl:text> </xsl:text></xsl:for-each><xsl:text>&#10;</xsl:text>
    <xsl:for-each select="doc/w"><xsl:sort select="." lang="es"/><xsl:value-of select="."/><xsl:text> </xsl:text></xsl:for-each><xsl:text>&#10;</xsl:text>
    <xsl:for-each select="doc/w"><xsl:sort select="." lang="it"/><xsl:value-of select="."/><xsl:text> </xsl:text></xsl:for-each><xsl:text>&#10;</xsl:text>
    <xsl:for-each select="doc/w"><xsl:sort select="." lang="nl"/><xsl:value-of select="."/><xsl:text> </xsl:text></xsl:for-each><xsl:text>&#10;</xsl:text>
    <xsl:for-each select="doc/w"><xsl:sort select="." lang="sv"/><xsl:value-of select="."/><xsl:text> </xsl:text></xsl:for-each><xsl:text>&#10;</xsl:text>
    <xsl:for-each select="doc/w"><xsl:sort select="." lang="da"/><xsl:value-of select="."/><xsl:text> </xsl:text></xsl:for-each><xsl:text>&#10;</xsl:text>
    <xsl:for-each select="doc/w"><xsl:sort select="." lang="fi"/><xsl:value-of select="."/><xsl:text> </xsl:text></xsl:for-each><xsl:text>&#10;</xsl:text>
    <xsl:for-each select="doc/w"><xsl:sort select="." lang="pt"/><xsl:value-of select="."/><xsl:text> </xsl:text></xsl:for-each><xsl:text>&#10;</xsl:text>
    <xsl:for-each select="doc/w"><xsl:sort select="." lang="pl"/><xsl:value-of select="."/><xsl:text> </xsl:text></xsl:for-each><xsl:text>&#10;</xsl:text>
    <xsl:for-each select="doc/w"><xsl:sort select="." lang="cs"/><xsl:value-of select="."/><xsl:text> </xsl:text></xsl:for-each><xsl:text>&#10;</xsl:text>
    <xsl:for-each select="doc/w"><xsl:sort select="." lang="cs"/><xsl:value-of select="."/><xsl:text> </xsl:text></xsl:for-each><xsl:text>&#10;</xsl:text>
    <xsl:for-each select="doc/w"><xsl:sort select="." lang="pl"/><xsl:value-of select="."/><xsl:text> </xsl:text></xsl:for-each><xsl:text>&#10;</xsl:text>
    <xsl:for-each select="doc/w"><xsl:sort select="." lang="pt"/><xsl:value-of select="."/><xsl:text> </xsl:text></xsl:for-each><xsl:text>&#10;</xsl:text>
    <xsl:for-each select="doc/w"><xsl:sort select="." lang="en"/><xsl:value-of select="."/><xsl:text> </xsl:text></xsl:for-each><xsl:text>&#10;</xsl:text>
    <xsl:for-each select="doc/w"><xsl:sort select="." lang="de"/><xsl:value-of select="."/><xsl:text> </xsl:text></xsl:for-each><xsl:text>&#10;</xsl:text>
    <xsl:for-each select="doc/w"><xsl:sort select="." lang="cs"/><xsl:value-of select="."/><xsl:text> </xsl:text></xsl:for-each><xsl:text>&#10;</xsl:text>
    <xsl:for-each select="doc/w"><xsl:sort select="." lang="fr"/><xsl:value-of select="."/><xsl:text> </xsl:text></xsl:for-each><xsl:text>&#10;</xsl:text>
    <xsl:for-each select="doc/w"><xsl:sort select="." lang="pt"/><xsl:value-of select="."/><xsl:text> </xsl:text></xsl:for-each><xsl:text>&#10;</xsl:text>
    <xsl:for-each select="doc/w"><xsl:sort select="." lang="fi"/><xsl:value-of select="."/><xsl:text> </xsl:text></xsl:for-each><xsl:text>&#10;</xsl:text>
  </xsl:template>
</xsl:stylesheet>
