<?xml version="1.0"?>
<xsl:stylesheet xmlns:xsl="http://www.w3.org/1999/XSL/Transform" version="1.0">
<xsl:import href="s7imp.xsl"/>
<xsl:template match="/"><out><xsl:apply-templates select="doc/item"/><xsl:call-template name="t"/></out></xsl:template>
</xsl:stylesheet>
