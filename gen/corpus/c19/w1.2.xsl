<?xml version="1.0"?>
<xsl:stylesheet xmlns:xsl="http://www.w3.org/1999/XSL/Transform" version="1.0">
<xsl:output method="xml" encoding="UTF-16" indent="no"/>
<xsl:template match="/"><out a="&#233;"><xsl:apply-templates select="doc/item"/></out></xsl:template>
<xsl:template match="item"><i n="{@n}"><xsl:value-of select="."/>&#8364;</i></xsl:template>
</xsl:stylesheet>
