<?xml version="1.0"?>
<xsl:stylesheet xmlns:xsl="http://www.w3.org/1999/XSL/Transform" version="1.0">
<xsl:output method="text"/>
<xsl:key name="k" match="item" use="@g"/>
<xsl:variable name="sep" select="', '"/>
<xsl:param name="title">report</xsl:param>
<xsl:template match="/">
  <xsl:value-of select="$title"/><xsl:text>: </xsl:text>
  <xsl:for-each select="doc/item">
    <xsl:sort select="@n" data-type="number" order="descending"/>
    <xsl:number value="position()" format="i"/><xsl:text>=</xsl:text>
    <xsl:call-template name="show"><xsl:with-param name="x" select="."/></xsl:call-template>
    <xsl:if test="position() != last()"><xsl:value-of select="$sep"/></xsl:if>
  </xsl:for-each>
  <xsl:text>; g1=</xsl:text><xsl:value-of select="count(key('k','1'))"/>
  <xsl:variable name="frag"><a><xsl:copy-of select="doc/item[1]"/></a></xsl:variable>
  <xsl:text>; </xsl:text><xsl:value-of select="string-length($frag)"/>
</xsl:template>
<xsl:template name="show">
  <xsl:param name="x"/>
  <xsl:choose>
    <xsl:when test="$x/@n &gt; 1"><xsl:value-of select="concat(translate($x,'abc','ABC'),'!')"/></xsl:when>
    <xsl:otherwise><xsl:value-of select="normalize-space($x)"/></xsl:otherwise>
  </xsl:choose>
</xsl:template>
</xsl:stylesheet>
