<?xml version="1.0"?>
<xsl:stylesheet xmlns:xsl="http://www.w3.org/1999/XSL/Transform" version="1.0">
<xsl:template match="/"><out><xsl:variable name="v" select="1"/><xsl:variable name="v" select="2"/></out></xsl:template>
</xsl:stylesheet>
