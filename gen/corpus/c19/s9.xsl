<?xml version="1.0"?>
<xsl:stylesheet xmlns:xsl="http://www.w3.org/1999/XSL/Transform" version="1.0"
    xmlns:str="http://exslt.org/strings" xmlns:math="http://exslt.org/math" xmlns:set="http://exslt.org/sets"
    xmlns:xalan="http://xml.apache.org/xalan" exclude-result-prefixes="str math set xalan">
<xsl:include href="s9a.xsl"/>
<xsl:output method="xml" indent="no"/>
<xsl:key name="byg" match="item" use="@g"/>
<xsl:key name="byn" match="item" use="@n"/>
<xsl:key name="bytext" match="item" use="normalize-space(.)"/>
<xsl:decimal-format name="eu" decimal-separator="," grouping-separator="."/>
<xsl:decimal-format name="us" decimal-separator="." grouping-separator=","/>
<xsl:decimal-format name="sp" decimal-separator="." grouping-separator=" " NaN="nan"/>
<xsl:attribute-set name="a1"><xsl:attribute name="x">1</xsl:attribute></xsl:attribute-set>
<xsl:attribute-set name="a2" use-attribute-sets="a1"><xsl:attribute name="y">2</xsl:attribute></xsl:attribute-set>
<xsl:attribute-set name="a3" use-attribute-sets="a2"><xsl:attribute name="z"><xsl:value-of select="count(//item)"/></xsl:attribute></xsl:attribute-set>
<xsl:template match="/">
  <out xsl:use-attribute-sets="a3">
    <k g1="{count(key('byg','1'))}" n2="{key('byn','2')}" t="{count(key('bytext','two c'))}"/>
    <f eu="{format-number(1234567.891,'#.##0,00','eu')}" us="{format-number(1234567.891,'#,##0.00','us')}" sp="{format-number(0 div 0,'#','sp')}"/>
    <d><xsl:value-of select="count(document('s9doc.xml')//e)"/><xsl:text>/</xsl:text><xsl:value-of select="document('s9doc.xml')/r/e[2]"/></d>
    <x pad="{str:padding(5,'ab')}" max="{math:max(//item/@n)}" dist="{count(set:distinct(//item/@g))}"/>
    <xsl:variable name="rtf"><p>1</p><p>2</p><p>3</p></xsl:variable>
    <ns><xsl:value-of select="sum(xalan:nodeset($rtf)/p)"/></ns>
    <xsl:call-template name="fromA"/>
    <xsl:apply-templates select="doc/item"/>
  </out>
</xsl:template>
</xsl:stylesheet>
