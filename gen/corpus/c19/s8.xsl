<?xml version="1.0"?>
<xsl:stylesheet xmlns:xsl="http://www.w3.org/1999/XSL/Transform" version="1.0">
<xsl:import href="s8imp.xsl"/>
<xsl:template match="/"><out><xsl:apply-templates/></out></xsl:template>
</xsl:stylesheet>
