<?xml version="1.0"?>
<xsl:stylesheet xmlns:xsl="http://www.w3.org/1999/XSL/Transform" version="1.0">
<xsl:output method="text"/>
<!-- more than every bounded cache of the engine holds, borrowed at once: recursion of depth 130 whose parameters are a
     string built with concat() (cached strings), a number, a node-set and a result tree fragment; released on the way back -->
<xsl:template match="/">
  <xsl:call-template name="down"><xsl:with-param name="n" select="130"/><xsl:with-param name="s" select="'x'"/>
    <xsl:with-param name="ns" select="doc/item"/><xsl:with-param name="f"><a/></xsl:with-param></xsl:call-template>
  <xsl:text>|</xsl:text>
  <xsl:call-template name="down"><xsl:with-param name="n" select="40"/><xsl:with-param name="s" select="'y'"/>
    <xsl:with-param name="ns" select="doc"/><xsl:with-param name="f">t</xsl:with-param></xsl:call-template>
</xsl:template>
<xsl:template name="down">
  <xsl:param name="n"/><xsl:param name="s"/><xsl:param name="ns"/><xsl:param name="f"/>
  <xsl:choose>
    <xsl:when test="$n &gt; 0">
      <xsl:variable name="k" select="$n * 2 + count($ns)"/>
      <xsl:variable name="g"><b><xsl:value-of select="$n"/></b></xsl:variable>
      <xsl:call-template name="down">
        <xsl:with-param name="n" select="$n - 1"/>
        <xsl:with-param name="s" select="concat($s, 'x', substring(string($k), 1, 1))"/>
        <xsl:with-param name="ns" select="$ns | $ns/.."/>
        <xsl:with-param name="f"><xsl:copy-of select="$g"/></xsl:with-param>
      </xsl:call-template>
      <xsl:if test="$n mod 50 = 0"><xsl:value-of select="concat(string-length($s), ':', string($f), ',')"/></xsl:if>
    </xsl:when>
    <xsl:otherwise><xsl:value-of select="string-length($s)"/>;</xsl:otherwise>
  </xsl:choose>
</xsl:template>
</xsl:stylesheet>
