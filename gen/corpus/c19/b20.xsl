<?xml version="1.0"?>
<xsl:stylesheet xmlns:xsl="http://www.w3.org/1999/XSL/Transform" version="1.0">
<xsl:key name="k"/><xsl:template match="/"><out/></xsl:template>
</xsl:stylesheet>
