<?xml version="1.0"?>
<xsl:stylesheet xmlns:xsl="http://www.w3.org/1999/XSL/Transform" version="1.0">
<xsl:template name="fromC"><c/></xsl:template>
<xsl:template match="item"><i><xsl:value-of select="@n"/></i></xsl:template>
</xsl:stylesheet>
