<?xml version="1.0"?>
<xsl:stylesheet xmlns:xsl="http://www.w3.org/1999/XSL/Transform" version="1.0">
<xsl:template match="/"><out><xsl:if test="1"><a/></xsl:if><xsl:number level="sideways"/></out></xsl:template>
</xsl:stylesheet>
