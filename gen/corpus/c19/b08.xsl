<?xml version="1.0"?>
<xsl:stylesheet xmlns:xsl="http://www.w3.org/1999/XSL/Transform" version="1.0">
<xsl:decimal-format name="d" bogus="1"/><xsl:template match="/"><out/></xsl:template>
</xsl:stylesheet>
