<?xml version="1.0"?>
<!-- C19 family (a): bounded caches and object pools crossed in one run.
     * 60 elements with distinct names numbered without a count attribute: 60 distinct run-time match patterns
       (the execution context's pattern cache holds 50);
     * 60 distinct expression strings given to dyn:evaluate;
     * result tree fragments whose construction nests 45 deep (every level holds a FormatterToSourceTree and a
       document fragment from the pools while the inner one is built), released innermost first;
     * xsl:sort inside a recursion 45 deep (every level holds a NodeSorter from the pool). -->
<xsl:stylesheet version="1.0" xmlns:xsl="http://www.w3.org/1999/XSL/Transform"
                xmlns:dyn="http://exslt.org/dynamic" exclude-result-prefixes="dyn">
  <xsl:output method="text"/>

  <xsl:template match="/">
    <xsl:for-each select="doc/*">
      <xsl:number/><xsl:text>.</xsl:text><xsl:number level="any" format="a"/><xsl:text> </xsl:text>
    </xsl:for-each>
    <xsl:text>&#10;</xsl:text>
    <xsl:for-each select="doc/*">
      <xsl:value-of select="dyn:evaluate(concat('count(/doc/*[@k=', @k, ' and v &lt; ', v, '])'))"/>
      <xsl:text>,</xsl:text>
    </xsl:for-each>
    <xsl:text>&#10;</xsl:text>
    <xsl:call-template name="nest"><xsl:with-param name="n" select="45"/></xsl:call-template>
    <xsl:text>&#10;</xsl:text>
    <xsl:call-template name="sorted"><xsl:with-param name="n" select="45"/></xsl:call-template>
    <xsl:text>&#10;</xsl:text>
  </xsl:template>

  <xsl:template name="nest">
    <xsl:param name="n"/>
    <xsl:variable name="inner">
      <xsl:if test="$n &gt; 0">
        <x><xsl:call-template name="nest"><xsl:with-param name="n" select="$n - 1"/></xsl:call-template></x>
      </xsl:if>
      <xsl:value-of select="$n mod 10"/>
    </xsl:variable>
    <xsl:value-of select="string-length($inner)"/>
    <xsl:text>;</xsl:text>
    <xsl:copy-of select="$inner"/>
  </xsl:template>

  <xsl:template name="sorted">
    <xsl:param name="n"/>
    <xsl:for-each select="/doc/*[position() &lt;= 3]">
      <xsl:sort select="@k" data-type="number" order="descending"/>
      <xsl:if test="position() = 1">
        <xsl:value-of select="v"/>
        <xsl:if test="$n &gt; 0">
          <xsl:call-template name="sorted"><xsl:with-param name="n" select="$n - 1"/></xsl:call-template>
        </xsl:if>
      </xsl:if>
    </xsl:for-each>
  </xsl:template>
</xsl:stylesheet>
