<?xml version="1.0"?>
<xsl:stylesheet xmlns:xsl="http://www.w3.org/1999/XSL/Transform" version="1.0">
<xsl:attribute-set><xsl:attribute name="a">1</xsl:attribute></xsl:attribute-set><xsl:template match="/"><out/></xsl:template>
</xsl:stylesheet>
