<?xml version="1.0"?>
<xsl:stylesheet xmlns:xsl="http://www.w3.org/1999/XSL/Transform" version="1.0" xmlns:x="urn:x" exclude-result-prefixes="x">
<xsl:output method="html" indent="yes"/>
<xsl:strip-space elements="*"/>
<xsl:attribute-set name="as"><xsl:attribute name="class">c</xsl:attribute></xsl:attribute-set>
<xsl:decimal-format name="d" decimal-separator="," grouping-separator="."/>
<xsl:template match="/">
  <html><body xsl:use-attribute-sets="as">
    <xsl:apply-templates select="//item" mode="m"/>
    <xsl:element name="p"><xsl:attribute name="id"><xsl:value-of select="name(doc)"/></xsl:attribute>
      <xsl:value-of select="format-number(1234.5,'#.##0,00','d')"/></xsl:element>
    <xsl:comment>done</xsl:comment>
    <xsl:copy-of select="doc/comment()"/>
  </body></html>
</xsl:template>
<xsl:template match="item" mode="m"><li><xsl:copy><xsl:apply-templates select="@*|node()"/></xsl:copy></li></xsl:template>
<xsl:template match="@*"><xsl:copy/></xsl:template>
</xsl:stylesheet>
