<?xml version="1.0"?>
<xsl:stylesheet xmlns:xsl="http://www.w3.org/1999/XSL/Transform" version="1.0">
<xsl:template match="/"><out><xsl:apply-templates/></out></xsl:template>
<xsl:template match="item[@n='2']"><xsl:message terminate="yes">stop here</xsl:message></xsl:template>
</xsl:stylesheet>
