<?xml version="1.0"?>
<xsl:stylesheet xmlns:xsl="http://www.w3.org/1999/XSL/Transform" version="1.0">
<xsl:include href="s9b.xsl"/>
<xsl:template name="fromA"><a><xsl:call-template name="fromB"/></a></xsl:template>
</xsl:stylesheet>
