<?xml version="1.0"?>
<xsl:stylesheet xmlns:xsl="http://www.w3.org/1999/XSL/Transform" version="1.0">
<xsl:import href="s9c.xsl"/>
<xsl:include href="s9d.xsl"/>
<xsl:template name="fromB"><b><xsl:call-template name="fromD"/><xsl:call-template name="fromC"/></b></xsl:template>
<xsl:template match="item[@n='2']"><two><xsl:apply-imports/></two></xsl:template>
</xsl:stylesheet>
