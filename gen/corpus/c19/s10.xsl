<?xml version="1.0"?>
<xsl:stylesheet xmlns:xsl="http://www.w3.org/1999/XSL/Transform" version="1.0"
    xmlns:ext="urn:c19-ext" xmlns:e2="urn:c19-ext2" extension-element-prefixes="ext e2" exclude-result-prefixes="ext e2">
<xsl:import href="s9c.xsl"/>
<xsl:output method="xml" indent="no" cdata-section-elements="cd"/>
<xsl:strip-space elements="doc"/>
<xsl:preserve-space elements="item"/>
<xsl:key name="k" match="item" use="@g"/>
<xsl:decimal-format name="d" decimal-separator=","/>
<xsl:attribute-set name="as"><xsl:attribute name="c">v</xsl:attribute></xsl:attribute-set>
<xsl:param name="p" select="'P'"/>
<xsl:variable name="g" select="count(//item)"/>
<xsl:template match="/">
  <out>
    <xsl:if test="$g &gt; 0"><a/></xsl:if>
    <ext:thing a="1"><xsl:fallback><fb1/></xsl:fallback></ext:thing>
    <xsl:for-each select="doc/item"><xsl:sort select="@n" data-type="number"/>
      <xsl:choose><xsl:when test="@n=1"><one/></xsl:when><xsl:otherwise><other/></xsl:otherwise></xsl:choose>
      <e2:other><xsl:fallback><fb2><xsl:value-of select="@n"/></fb2></xsl:fallback></e2:other>
    </xsl:for-each>
    <xsl:choose>
      <xsl:when test="function-available('ext:f')"><xsl:value-of select="ext:f()"/></xsl:when>
      <xsl:otherwise>nofn</xsl:otherwise>
    </xsl:choose>
    <xsl:if test="not(element-available('ext:thing'))">noel</xsl:if>
    <xsl:element name="el" use-attribute-sets="as"><xsl:attribute name="b"><xsl:value-of select="$p"/></xsl:attribute>
      <xsl:comment>c</xsl:comment><xsl:processing-instruction name="pi">x</xsl:processing-instruction><xsl:text>t</xsl:text></xsl:element>
    <xsl:copy-of select="doc/item[1]"/>
    <xsl:apply-templates select="doc/item[2]" mode="m"><xsl:with-param name="w" select="7"/></xsl:apply-templates>
    <xsl:call-template name="nt"><xsl:with-param name="w">rtf</xsl:with-param></xsl:call-template>
    <xsl:number value="3" format="I"/>
    <xsl:message>msg</xsl:message>
    <cd>x&lt;y</cd>
    <xsl:value-of select="format-number(1.5,'0,0','d')"/>
    <xsl:apply-templates select="doc/item[3]"/>
  </out>
</xsl:template>
<xsl:template match="item" mode="m"><xsl:param name="w"/><xsl:copy><xsl:apply-templates select="@*"/><xsl:value-of select="$w"/></xsl:copy></xsl:template>
<xsl:template match="@*"><xsl:copy/></xsl:template>
<xsl:template name="nt"><xsl:param name="w"/><xsl:variable name="v"><x><xsl:copy-of select="$w"/></x></xsl:variable><xsl:copy-of select="$v"/></xsl:template>
<xsl:template match="item[@n='2']" priority="2"><two><xsl:apply-imports/></two></xsl:template>
</xsl:stylesheet>
