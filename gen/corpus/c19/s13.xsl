<?xml version="1.0"?>
<xsl:stylesheet xmlns:xsl="http://www.w3.org/1999/XSL/Transform" version="1.0"
    xmlns:a="urn:same" xmlns:b="urn:same" xmlns:c="urn:other" xmlns:d="urn:other"
    extension-element-prefixes="a b c a" exclude-result-prefixes="c d c a">
<xsl:import href="s13imp.xsl"/>
<xsl:key name="k" match="item" use="@n"/>
<xsl:key name="k" match="item" use="@g"/>
<xsl:decimal-format name="df" decimal-separator=","/>
<xsl:attribute-set name="as"><xsl:attribute name="p">1</xsl:attribute></xsl:attribute-set>
<xsl:attribute-set name="as"><xsl:attribute name="q">2</xsl:attribute></xsl:attribute-set>
<xsl:template match="/"><out xsl:use-attribute-sets="as"><xsl:value-of select="count(key('k','1'))"/>
  <a:x><xsl:fallback>fa</xsl:fallback></a:x><b:y><xsl:fallback>fb</xsl:fallback></b:y>
  <xsl:value-of select="format-number(1.5,'0,0','df')"/><c:lit xsl:exclude-result-prefixes="d c"/></out></xsl:template>
</xsl:stylesheet>
