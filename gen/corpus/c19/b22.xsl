<?xml version="1.0"?>
<xsl:stylesheet xmlns:xsl="http://www.w3.org/1999/XSL/Transform" version="1.0">
<xsl:template match="/"><out><xsl:for-each select="doc/item"><xsl:if test="@n=2"><xsl:message terminate="yes">stop</xsl:message></xsl:if><i/></xsl:for-each></out></xsl:template>
</xsl:stylesheet>
