<xsl:stylesheet version="1.0" xmlns:xsl="http://www.w3.org/1999/XSL/Transform" xmlns:exsl="http://exslt.org/common">
<xsl:output method="text"/>
<!-- $a is built first; while it is being built it references $g, which is evaluated lazily at that moment -->
<xsl:variable name="a"><e i="r1"><e i="r2"/><xsl:value-of select="count(exsl:node-set($g)//e)"/><e i="r3"/></e><e i="r4"/></xsl:variable>
<xsl:variable name="g"><e i="s1"><e i="s2"/></e></xsl:variable>
<xsl:template match="e" mode="lab"><xsl:value-of select="@i"/></xsl:template>
<xsl:template match="text()" mode="lab">t</xsl:template>
<xsl:template match="/" mode="lab"><xsl:value-of select="substring(*/@i,1,1)"/>0</xsl:template>
<xsl:template match="/">
<xsl:text>&#10;A:</xsl:text><xsl:for-each select="exsl:node-set($a)//e|exsl:node-set($g)//e"><xsl:text> </xsl:text><xsl:apply-templates select="." mode="lab"/></xsl:for-each>
<xsl:text>&#10;B:</xsl:text><xsl:for-each select="exsl:node-set($g)//e|exsl:node-set($a)//e|exsl:node-set($g)|exsl:node-set($a)"><xsl:text> </xsl:text><xsl:apply-templates select="." mode="lab"/></xsl:for-each>
<xsl:text>&#10;C:</xsl:text><xsl:for-each select="exsl:node-set($a)//e"><xsl:text> </xsl:text><xsl:apply-templates select="." mode="lab"/></xsl:for-each>
<xsl:text>&#10;D:</xsl:text><xsl:for-each select="exsl:node-set($a)//e[@i='r3']/preceding::e|exsl:node-set($g)//e"><xsl:text> </xsl:text><xsl:apply-templates select="." mode="lab"/></xsl:for-each>
<xsl:text>&#10;</xsl:text>
</xsl:template>
</xsl:stylesheet>
