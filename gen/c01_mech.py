"""C01: operation-log correspondence for the proved mechanism models.

vars  — random VariablesStack histories in the regime the engine uses (bottom marker, element frame 0,
        global variables, markGlobalStackFrame, then nested template instances: context marker,
        passed parameters, element frames, variables, lookups, pops), replayed on the real class
        (harness/c01_xslt.cpp `vars`) and on `VStack` (lean/XalanModel/C01/Variables.lean).
        Preconditions of the C++ (non-empty stack, a context marker to pop, indices inside the stack)
        are respected by construction, since outside them the class has undefined behaviour.
"""


def gen_vars(r, maxops):
    ops = ["cm", "ef 0"]
    depth_markers = 1          # context markers on the stack (bottom one included)
    for g in range(r.range(0, 3)):
        ops.append("var %d %d 0" % (r.below(4), r.range(1, 99)))
    nglob = len(ops) - 2
    ops.append("mark")
    depth_markers += 1
    frames = [[0]]              # element frames pushed per open marker level (for choosing plausible ids)
    frames.append([])
    n = r.range(3, maxops)
    for _ in range(n):
        k = r.weighted([("cm", 4), ("pcm", 3), ("ef", 5), ("pef", 3), ("var", 8), ("params", 3), ("get", 8), ("getp", 5), ("idx", 1), ("aset", 2)])
        if k == "aset":
            # an attribute set is instantiated (ElemAttributeSet::startElement / endElement): the current stack frame index is
            # set to the global one (= 2 + number of globals, recorded by markGlobalStackFrame), references are resolved,
            # the index is restored (it is the top of the stack in the regime generated here)
            ops.append("setidx %d" % (2 + nglob))
            for _ in range(r.range(1, 3)):
                ops.append("get %d" % r.below(4))
            if r.chance(1, 3):
                ops.append("idx")
            ops.append("setidx top")
            continue
        if k == "cm":
            ops.append("cm")
            if r.chance(1, 2):
                ps = ",".join("%d=%d" % (r.below(4), r.range(1, 99)) for _ in range(r.range(1, 3)))
                ops.append("params " + ps)
            depth_markers += 1
            frames.append([])
        elif k == "pcm":
            if depth_markers <= 2:
                continue
            ops.append("pcm")
            depth_markers -= 1
            frames.pop()
        elif k == "ef":
            e = r.range(1, 9)
            ops.append("ef %d" % e)
            frames[-1].append(e)
        elif k == "pef":
            if not frames[-1] and not r.chance(1, 6):
                continue
            ops.append("pef")
            if frames[-1]:
                frames[-1].pop()
            else:
                # popped through a context marker (exception path): bookkeeping follows the real semantics
                if depth_markers <= 2:
                    ops.pop()
                    continue
                depth_markers -= 1
                frames.pop()
        elif k == "var":
            known = [e for f in frames for e in f]
            e = r.choice(known) if known and not r.chance(1, 8) else r.range(1, 9)
            ops.append("var %d %d %d" % (r.below(4), r.range(1, 99), e))
        elif k == "params":
            ps = ",".join("%d=%d" % (r.below(4), r.range(1, 99)) for _ in range(r.range(0, 3))) or "-"
            ops.append("params " + ps)
        elif k == "get":
            ops.append("get %d" % r.below(4))
        elif k == "getp":
            ops.append("getp %d" % r.below(4))
        else:
            ops.append("idx")
    ops.append("idx")
    return "vars " + " ".join(ops)


VARS_CORPUS = [
    # parameter activation leak: globals [n0=1]; apply-templates passes n0=2; template A claims it; template B reads n0
    "vars cm ef 0 var 0 1 0 mark cm params 0=2 ef 5 get 0 pef ef 4 getp 0 pef ef 5 get 0 pef pcm idx",
    # pushVariable without its element frame -> exception, stack unchanged
    "vars cm ef 0 mark cm var 1 5 7 idx ef 7 var 1 5 7 get 1 pcm idx",
    # popElementFrame through a context marker -> exception after popping it
    "vars cm ef 0 mark cm var 1 5 0 pef idx",
]


# ---- walker ------------------------------------------------------------------------------------
# A random instruction tree over the three kinds of the Walker model, rendered as a stylesheet whose
# elements are (mostly) ones that fire a TraceListener event in ElemTemplateElement::startElement.

def gen_prog(r):
    """returns (prog, doc_xml).  Node = [kind token, label, kids, extra]"""
    nt = r.range(1, 4)
    nsets = r.weighted([(0, 2), (1, 2), (2, 2)])      # attribute sets = extra "templates" nt … nt+nsets-1
    apply_lists = []          # one child sequence of the document per apply-templates instruction

    def node(t, depth, budget):
        k = r.weighted([("l", 6), ("b", 4 if depth < 4 else 0), ("c", 3 if t + 1 < nt else 0),
                        ("L", 3 if depth < 4 else 0), ("A", 3 if t + 1 < nt else 0), ("p", 2 if depth < 4 else 0),
                        ("U", 3 if (nsets and depth < 4) else 0)])
        budget[0] -= 1
        if k == "l" or budget[0] <= 0:
            return ["l", r.choice(["valueof", "text", "copyof"]), [], None]
        if k == "b":
            return ["b", r.choice(["if", "lre", "if"]), [node(t, depth + 1, budget) for _ in range(r.range(0, 3))], None]
        if k == "U":
            # literal result element with xsl:use-attribute-sets
            ts = [nt + r.below(nsets) for _ in range(r.range(1, 2))]
            return ["U" + ",".join(str(x) for x in ts), "lreuse", [node(t, depth + 1, budget) for _ in range(r.range(0, 3))], ts]
        if k == "p":
            # xsl:choose: whens with false() tests, then (maybe) a true() one or an otherwise
            nk = r.range(1, 3)
            has_other = r.chance(1, 2)
            pick = r.range(0, nk)           # nk = nothing taken (unless there is an otherwise, which is the last kid)
            kids = []
            for j in range(nk):
                kids.append(["b", "when", [node(t, depth + 1, budget) for _ in range(r.range(0, 2))], j == pick])
            if has_other:
                kids.append(["b", "otherwise", [node(t, depth + 1, budget) for _ in range(r.range(0, 2))], None])
                if pick >= nk:
                    pick = nk
            return ["p%d" % pick, "choose", kids, None]
        if k == "L":
            n = r.weighted([(0, 1), (1, 2), (2, 3), (3, 1)])
            return ["L%d" % n, "foreach", [node(t, depth + 1, budget) for _ in range(r.range(0, 3))], n]
        kids = []
        for _ in range(r.range(0, 2) if k == "A" else r.range(0, 3)):
            if r.chance(1, 2):
                kids.append(["l", "withparam", [], None])
            else:
                kids.append(["b", "withparam", [node(t, depth + 1, budget) for _ in range(r.range(1, 2))], None])
        if k == "A":
            ts = [r.range(t + 1, nt - 1) for _ in range(r.weighted([(0, 1), (1, 3), (2, 3), (3, 1)]))]
            apply_lists.append(ts)
            return ["A" + ",".join(str(x) for x in ts), "apply", kids, len(apply_lists) - 1]
        tgt = r.range(t + 1, nt - 1)
        return ["c%d" % tgt, "call", kids, None]

    def no_direct(n):
        # a parameterless xsl:call-template that is the only child is compiled away by the processor
        # ("direct template": the parent jumps straight into the called template, ElemTemplateElement.cpp:1621;
        # same protocol as a call without children, but the call element itself never starts), so give it a sibling
        for c in n[2]:
            no_direct(c)
        if len(n[2]) == 1 and n[2][0][0].startswith("c") and not n[2][0][2]:
            n[2].append(["l", "text", [], None])

    prog = []
    for t in range(nt):
        budget = [r.range(2, 14)]
        top = ["b", "template", [node(t, 1, budget) for _ in range(r.range(0, 4))], None]
        no_direct(top)
        prog.append(top)
    for j in range(nsets):
        uses = [x for x in range(nt + j + 1, nt + nsets) if r.chance(1, 2)]
        kids = [["l", "attribute", [], None] for _ in range(r.range(0, 2))]
        prog.append([("U" + ",".join(str(x) for x in uses)) if uses else "b", "attrset", kids, uses])
    doc = "<r><n><i/><i/><i/></n>" + "".join("<s%d>%s</s%d>" % (j, "".join("<m%d/>" % t for t in ts), j)
                                             for j, ts in enumerate(apply_lists)) + "</r>"
    return prog, doc


def prog_xml(prog):
    def render(n, idx):
        k, label, kids, extra = n
        inner = "".join(render(c, i) for i, c in enumerate(kids))
        if label == "valueof":
            return "<xsl:value-of select=\"'v'\"/>"
        if label == "text":
            return "<xsl:text>t</xsl:text>"
        if label == "copyof":
            return "<xsl:copy-of select=\"'c'\"/>"
        if label == "if":
            return "<xsl:if test=\"true()\">%s</xsl:if>" % inner
        if label == "lre":
            return "<b>%s</b>" % inner
        if label == "lreuse":
            return "<b xsl:use-attribute-sets=\"%s\">%s</b>" % (" ".join("s%d" % x for x in extra), inner)
        if label == "attribute":
            return "<xsl:attribute name=\"a%d\">v</xsl:attribute>" % idx
        if label == "withparam":
            return ("<xsl:with-param name=\"w%d\" select=\"1\"/>" % idx) if k == "l" else "<xsl:with-param name=\"w%d\">%s</xsl:with-param>" % (idx, inner)
        if label == "call":
            return "<xsl:call-template name=\"t%s\">%s</xsl:call-template>" % (k[1:], inner)
        if label == "choose":
            return "<xsl:choose>%s</xsl:choose>" % inner
        if label == "when":
            return "<xsl:when test=\"%s\">%s</xsl:when>" % ("true()" if extra else "false()", inner)
        if label == "otherwise":
            return "<xsl:otherwise>%s</xsl:otherwise>" % inner
        if label == "foreach":
            return "<xsl:for-each select=\"/r/n/i[position() &lt;= %d]\">%s</xsl:for-each>" % (extra, inner)
        if label == "apply":
            return "<xsl:apply-templates select=\"/r/s%d/*\">%s</xsl:apply-templates>" % (extra, inner)
        raise ValueError(label)
    out = '<xsl:stylesheet xmlns:xsl="http://www.w3.org/1999/XSL/Transform" version="1.0">'
    for t, n in enumerate(prog):
        if n[1] == "attrset":
            out += '<xsl:attribute-set name="s%d"%s>%s</xsl:attribute-set>' % (
                t, ' use-attribute-sets="%s"' % " ".join("s%d" % x for x in n[3]) if n[3] else "", "".join(render(c, i) for i, c in enumerate(n[2])))
            continue
        out += '<xsl:template name="t%d" match="%s">%s</xsl:template>' % (t, "/" if t == 0 else "m%d" % t, "".join(render(c, i) for i, c in enumerate(n[2])))
    return out + "</xsl:stylesheet>"


def prog_tok(prog):
    def tok(n):
        return "( %s %s )" % (n[0], " ".join(tok(c) for c in n[2])) if n[2] else "( %s )" % n[0]
    return "( prog %s )" % " ".join(tok(n) for n in prog)


TRACE_NAME = {"valueof": "xsl:value-of", "text": "xsl:text", "copyof": "xsl:copy-of", "if": "xsl:if", "lre": None,
              "withparam": "xsl:with-param", "call": "xsl:call-template", "template": "xsl:template",
              "lreuse": None, "attrset": None, "attribute": "xsl:attribute",
              "foreach": None, "apply": "xsl:apply-templates", "choose": "xsl:choose", "when": "xsl:when", "otherwise": "xsl:otherwise"}


def label_at(prog, addr):
    t, _, path = addr.partition(":")
    n = prog[int(t)]
    for i in [int(x) for x in path.split(".") if x != ""]:
        n = n[2][i]
    return n[1]


# ---- pending start tag --------------------------------------------------------------------------
# A random well-nested sequence of engine calls in the regime of `pending_refines_spec` (guarded attribute
# additions, no zero-length text), rendered as one template whose instructions issue exactly those calls.

def gen_pend(r):
    ops = []
    xml = []
    depth = [0]

    def seq(level, budget):
        n = r.range(0, 4)
        for _ in range(n):
            if budget[0] <= 0:
                return
            budget[0] -= 1
            k = r.weighted([("S", 4 if level < 4 else 0), ("A", 5), ("T", 4), ("C", 1), ("P", 1)])
            if k == "S":
                name = r.choice(["a", "b", "c", "out"])
                nlit = r.weighted([(0, 3), (1, 2), (2, 1)])
                lits = r.shuffle(["id", "k", "z"])[:nlit]
                ops.append("S:" + name)
                xml.append("<%s%s>" % (name, "".join(' %s="%s"' % (a, a + "v") for a in lits)))
                for a in lits:
                    ops.append("A:%s=%s" % (a, ("x" + (a + "v").encode().hex())))
                seq(level + 1, budget)
                ops.append("E:" + name)
                xml.append("</%s>" % name)
            elif k == "A":
                name = r.choice(["id", "k", "q", "w"])
                val = r.choice(["1", "v", "", "a b"])
                ops.append("A:%s=%s" % (name, "-" if val == "" else "x" + val.encode().hex()))
                xml.append('<xsl:attribute name="%s">%s</xsl:attribute>' % (name, val))
            elif k == "T":
                t = r.choice(["t", "ab", "1 "])
                ops.append("T:x" + t.encode().hex())
                xml.append("<xsl:text>%s</xsl:text>" % t)
            elif k == "C":
                ops.append("C:x" + b"c".hex())
                xml.append("<xsl:comment>c</xsl:comment>")
            else:
                ops.append("P:pp:x" + b"d".hex())
                xml.append('<xsl:processing-instruction name="pp">d</xsl:processing-instruction>')

    seq(0, [r.range(2, 16)])
    xsl = ('<xsl:stylesheet xmlns:xsl="http://www.w3.org/1999/XSL/Transform" version="1.0"><xsl:template match="/">'
           + "".join(xml) + "</xsl:template></xsl:stylesheet>")
    return ops, xsl


def split_replies(line):
    return line.split(" ") if line else []


def run(ctx, runner, r):
    """runner(lines, tag) -> (impl_lines, model_lines, impl_rc, model_rc, impl_err, model_err)"""
    n = 400 if not ctx.thorough else 20000
    # probe: does a parameter lookup activate the passed entry in place (finding F4) on this tree?
    pi, _, _, _, _, _ = runner([VARS_CORPUS[0]], "probe")
    activating = bool(pi and pi[0] and pi[0].split(" ")[13:14] == ["2"])
    ctx.extra["variables_stack_findEntry_activates"] = activating
    mode = "vars mode %d " % (1 if activating else 0)
    lines = list(VARS_CORPUS)
    for _ in range(n):
        lines.append(gen_vars(r, 12 if r.chance(1, 2) else 40))
    lines = [mode + ln[len("vars "):] for ln in lines]
    il, ml, irc, mrc, ierr, merr = runner(lines, "vars")
    bad = []
    for i, ln in enumerate(lines):
        a = il[i] if i < len(il) else None
        b = ml[i] if i < len(ml) else None
        ops = ln.split(" ")
        interesting = ("params" in ops and "getp" in ops) or "pef" in ops
        ctx.case(nontrivial_key=ln if interesting and len(ops) > 12 else None, cls="vars:len<=20" if len(ops) <= 20 else "vars:len>20",
                 sample=ln if i == len(VARS_CORPUS) else None)
        if a != b:
            bad.append({"request": ln, "impl": a, "model": b})
    ctx.oblige("correspondence: real VariablesStack = VStack model on every generated operation log", "correspondence",
               not bad and irc == 0, str(bad[:2]) + ierr[-300:])
    ctx.extra["vars_logs"] = len(lines)
    # ---- walker: startElement order of the real engine (TraceListener) = iterative model
    nw = 300 if not ctx.thorough else 8000
    pd = [gen_prog(r) for _ in range(nw)]
    progs = [p for p, _ in pd]
    wl = ["walk w%d %s %s W %s" % (i, prog_xml(p).encode("ascii").hex(), d.encode("ascii").hex(), prog_tok(p)) for i, (p, d) in enumerate(pd)]
    il, ml, irc, mrc, ierr, merr = runner(wl, "walk")
    badw = []
    for i, p in enumerate(progs):
        a = il[i] if i < len(il) else None
        b = ml[i] if i < len(ml) else None
        ncall = prog_tok(p).count("( c") + prog_tok(p).count("( A") + prog_tok(p).count("( L") + prog_tok(p).count("( U")
        ctx.case(nontrivial_key=wl[i] if ncall >= 1 else None, cls="walk:calls=%d" % min(ncall, 3), sample=prog_xml(p)[:400] if i == 0 else None)
        if a is None or b is None or not a.startswith("ok") or not b.startswith("ok "):
            badw.append({"request": wl[i], "impl": a, "model": b})
            continue
        real = a.split(" # ", 1)[1].split(" ") if " # " in a else []
        real = [x for x in real if x]
        want = []
        for ad in b.split(" ")[1:]:
            if not ad:
                continue
            name = TRACE_NAME[label_at(p, ad.rstrip("@"))]
            if name:
                want.extend([name, name] if ad.endswith("@") else [name])
        if real != want:
            badw.append({"request": wl[i], "impl": real, "model": want})
    ctx.oblige("correspondence: startElement order seen by a TraceListener on the real engine = iterative Walker model "
               "(= recursive traversal, by walker_eq_recursion)", "correspondence", not badw, str(badw[:1])[:1500])
    ctx.extra["walker_programs"] = len(progs)
    # ---- pending start tag: events delivered by the real engine = Pending.run of the same call sequence
    from checks import c01 as C
    npnd = 400 if not ctx.thorough else 10000
    pl = []
    for i in range(npnd):
        ops, xsl = gen_pend(r)
        pl.append((ops, "pend p%d %s %s Q %s" % (i, xsl.encode("ascii").hex(), b"<r/>".hex(), " ".join(ops))))
    il, ml, irc, mrc, ierr, merr = runner([l for _, l in pl], "pend")
    badp = []
    for i, (ops, line) in enumerate(pl):
        a = C.canon(il[i] if i < len(il) else None)
        b = C.canon(ml[i] if i < len(ml) else None)
        late = any(o.startswith("A:") and j > 0 and not (ops[j - 1].startswith("S:") or ops[j - 1].startswith("A:")) for j, o in enumerate(ops))
        ctx.case(nontrivial_key=line if late and len(ops) > 5 else None, cls="pend:late-attr" if late else "pend:plain",
                 sample=" ".join(ops) if i == 0 else None)
        if a != b or a[0] != "ok":
            badp.append({"request": line, "impl": str(a)[:300], "model": str(b)[:300]})
    ctx.oblige("correspondence: events delivered by XSLTEngineImpl = Pending.run on every generated call sequence "
               "(guarded regime of pending_refines_spec)", "correspondence", not badp, str(badp[:1])[:1500])
    ctx.extra["pending_logs"] = len(pl)
    # ---- Core: stylesheets of the Core fragment: real engine = Core.run (= Spec.transform, checked by the driver)
    from gen import c01_gen as G
    ncore = 600 if not ctx.thorough else 12000
    cl = []
    for i in range(ncore):
        g = G.Gen(r, r.weighted([(1, 3), (2, 5), (3, 1)]), fragment=("narrow" if i % 3 == 0 else True))
        ss = g.gen_stylesheet()
        doc = g.gen_doc()
        cl.append(G.request_line("k%d" % i, ss, doc, verb="core"))
    il, ml, irc, mrc, ierr, merr = runner(cl, "core")
    badc = []
    ninst = 0
    for i, line in enumerate(cl):
        a = il[i] if i < len(il) else None
        b = ml[i] if i < len(ml) else None
        if a == "big":
            ctx.case(cls="core:oversized(skipped)")
            continue
        inst_i = b is not None and b.startswith("oki ")
        if inst_i:
            # inside the fragment of core_refines_spec: Core.run with the theorem's oracle (CoreSpec.oracleOf) agreed too
            ninst += 1
            b = "ok " + b[4:]
        ca, cb = C.canon(a), C.canon(b)
        ctx.case(nontrivial_key=line if ca[0] == "ok" and len(ca[1]) >= 3 else None, cls=("core-inst:" if inst_i else "core:") + ("<=5ev" if ca[0] == "ok" and len(ca[1]) <= 5 else ">5ev"),
                 sample=None)
        if ca != cb or ca[0] != "ok":
            badc.append({"request": line[:3000], "impl": (a or "")[:300], "model": (b or "")[:300]})
    ctx.oblige("correspondence: real engine = Core.run (iterative engine model with oracle from Spec.eval) = Spec.transform "
               "on every generated stylesheet of the Core fragment", "correspondence", not badc, str(badc[:1])[:1800])
    ctx.extra["core_cases"] = len(cl)
    ctx.extra["core_cases_with_instantiated_oracle"] = ninst
    ctx.oblige("the fragment of core_refines_spec is exercised: some generated stylesheets are inside it and were run with CoreSpec.oracleOf",
               "correspondence", ninst >= 20, "only %d" % ninst)
