"""C07 generator: source documents and stylesheets that reach every lazily initialised facility
(keys, xsl:number, document(), format-number, sort, id(), unparsed-entity-uri(), variables/RTFs, imports,
attribute sets, modes, messages, errors), all choices from one Rng.

A stylesheet is a set of *facility snippets* (each a template body fragment plus the top-level declarations it
needs) chosen at random, so that some stylesheets USE a facility that the stylesheet or the source does not
DECLARE (id() on a source without IDs, format-number without xsl:decimal-format, key() over a document()): lazily
built structures are then met in their never-used state, which is where sharing goes wrong.
"""

XSL = 'xmlns:xsl="http://www.w3.org/1999/XSL/Transform" xmlns:al="urn:alias"'


def source_with_ids(r, n):
    """internal DTD: ID / IDREF attributes, an unparsed entity; namespaces, comments, PIs, mixed text"""
    out = ['<?xml version="1.0"?>', '<!DOCTYPE doc [', '<!ELEMENT doc ANY>', '<!ELEMENT sec ANY>', '<!ELEMENT item ANY>',
           '<!ELEMENT x:e ANY>', '<!ATTLIST doc xmlns:x CDATA #IMPLIED pic ENTITY #IMPLIED>',
           '<!ATTLIST item id ID #REQUIRED ref IDREFS #IMPLIED k CDATA #IMPLIED n CDATA #IMPLIED href CDATA #IMPLIED>',
           '<!ATTLIST sec id ID #IMPLIED t CDATA #IMPLIED>', '<!NOTATION gif SYSTEM "image/gif">',
           '<!ENTITY logo SYSTEM "http://example.org/logo.gif" NDATA gif>', ']>',
           '<doc xmlns:x="urn:x" pic="logo">']
    ids = []
    for s in range(r.range(2, 4)):
        out.append('<sec id="s%d" t="T%d">' % (s, r.below(3)))
        for i in range(r.range(2, n)):
            iid = "a%d_%d" % (s, i)
            ref = (' ref="%s"' % " ".join(r.choice(ids) for _ in range(r.range(1, 2)))) if ids and r.chance(2, 3) else ""
            ids.append(iid)
            out.append('  <item id="%s" k="%s" n="%s"%s href="aux.xml">%s<x:e>%d</x:e></item><!--c%d--><?pi d%d?>' % (
                iid, r.choice(["x", "y", "z", "été", "Zebra", "apple"]), r.choice(["3", "1.5", "20", "-7", "NaN", "1e3", "0.125"]),
                ref, r.choice(["alpha ", " beta", "Gamma", "ädelta", "  "]), r.below(100), i, i))
            if r.chance(1, 3):
                out.append('  <sec t="in"><item id="%s_n" k="x" n="4">n</item></sec>' % iid)
                ids.append(iid + "_n")
        out.append('</sec>')
    out.append('</doc>')
    return "\n".join(out) + "\n"


def source_plain(r, n):
    """no DTD: no IDs, no unparsed entities (the lookup maps of the document stay untouched by the parse)"""
    out = ['<?xml version="1.0"?>', '<doc xmlns:x="urn:x">']
    for s in range(r.range(1, 3)):
        out.append('<sec t="T%d">' % r.below(3))
        for i in range(r.range(2, n)):
            out.append('  <item id="p%d_%d" k="%s" n="%s" ref="p0_0" href="aux.xml">%s<x:e>%d</x:e></item>' % (
                s, i, r.choice(["x", "y", "z", "Zebra"]), r.choice(["3", "1.5", "20", "-7", "abc"]),
                r.choice(["one", "two ", " three"]), r.below(100)))
        out.append('</sec>')
    out.append('</doc>')
    return "\n".join(out) + "\n"


AUX = ('<?xml version="1.0"?>\n<aux><item id="q1" k="x" n="9">aux-one</item><item id="q2" k="y" n="8">aux-two</item>'
       '<item id="q3" k="x" n="7">aux-three</item></aux>\n')

# no DTD, no attributes, no namespaces: every lookup structure of the parsed source stays in its never-used state
BARE = '<?xml version="1.0"?>\n<doc><sec><item>one</item><item>2</item></sec><sec><item>3.5</item></sec></doc>\n'

IMPORTED = ('<xsl:stylesheet version="1.0" %s>\n'
            '<xsl:key name="ik" match="item" use="@k"/>\n'
            '<xsl:decimal-format name="imp" decimal-separator="," grouping-separator="."/>\n'
            '<xsl:attribute-set name="impset"><xsl:attribute name="imp">yes</xsl:attribute></xsl:attribute-set>\n'
            '<xsl:template match="item" mode="imp"><imp k="{count(key(\'ik\',@k))}"><xsl:value-of select="@id"/></imp></xsl:template>\n'
            '<xsl:template match="x:e" xmlns:x="urn:x"><low><xsl:value-of select="."/></low></xsl:template>\n'
            '<xsl:template name="impnamed"><xsl:param name="p" select="0"/><named><xsl:value-of select="$p"/></named></xsl:template>\n'
            '</xsl:stylesheet>\n') % XSL


# facility snippets: name -> (top-level declarations, body executed with the source root as context)
def snippets(r):
    lvl = r.choice(["single", "multiple", "any"])
    fmt = r.choice(["1", "a", "A", "i", "I", "01", "1.1", "(a)"])
    dfmt = r.choice(["#,##0.00", "0.###", "#.##0,00", "00.0%", "#"])
    order = r.choice(["ascending", "descending"])
    dtype = r.choice(["text", "number"])
    lang = r.choice(["", ' lang="en"', ' lang="de"', ' lang="sv"'])
    S = {}
    S["keys"] = ('<xsl:key name="k" match="item" use="@k"/>\n<xsl:key name="byn" match="item[@n &gt; 0]" use="concat(@k,\'/\',floor(@n))"/>',
                 '<keys><xsl:for-each select="//item"><i k="{count(key(\'k\',@k))}" b="{count(key(\'byn\',concat(@k,\'/\',floor(@n))))}"/></xsl:for-each>'
                 '<xsl:for-each select="key(\'k\',\'x\')"><xsl:value-of select="@id"/>,</xsl:for-each></keys>')
    S["keydoc"] = ('<xsl:key name="kd" match="item" use="@k"/>',
                   '<keydoc><xsl:for-each select="document(\'aux.xml\')"><xsl:value-of select="count(key(\'kd\',\'x\'))"/></xsl:for-each>'
                   '<xsl:value-of select="count(key(\'kd\',\'y\'))"/></keydoc>')
    S["number"] = ('', '<number><xsl:for-each select="//item"><n><xsl:number level="%s" count="item|sec" format="%s"/></n></xsl:for-each>'
                       '<xsl:for-each select="//item[position() &lt; 4]"><v><xsl:number value="position()*1234" grouping-separator="," grouping-size="3" format="%s"/></v></xsl:for-each></number>' % (lvl, fmt, fmt))
    S["numberfrom"] = ('', '<nf><xsl:for-each select="//item"><xsl:number level="any" from="sec" count="item" format="%s"/>;</xsl:for-each></nf>' % fmt)
    S["document"] = ('', '<docs><xsl:for-each select="//item[1]"><xsl:value-of select="document(@href)/aux/item[2]"/></xsl:for-each>'
                         '<xsl:value-of select="count(document(\'\')//xsl:template)"/><xsl:copy-of select="document(\'aux.xml\')/aux/item[@k=\'y\']"/></docs>')
    S["format"] = ('<xsl:decimal-format name="d" decimal-separator="," grouping-separator="." NaN="nan!" infinity="oo"/>',
                   '<fmt><xsl:for-each select="//item"><f a="{format-number(@n,\'%s\')}" b="{format-number(@n * 1000,\'#.##0,00\',\'d\')}" c="{format-number(1 div 0,\'#\',\'d\')}"/></xsl:for-each></fmt>' % dfmt.replace("#.##0,00", "#,##0.00"))
    S["formatnodecl"] = ('', '<fmt0><xsl:for-each select="//item"><f a="{format-number(@n,\'%s\')}"/></xsl:for-each></fmt0>' % dfmt.replace("#.##0,00", "#,##0.00"))
    S["sort"] = ('', '<sorted><xsl:for-each select="//item"><xsl:sort select="@k" order="%s"%s/><xsl:sort select="@n" data-type="%s"/><s><xsl:value-of select="@id"/></s></xsl:for-each>'
                     '<xsl:apply-templates select="//item" mode="srt"><xsl:sort select="." case-order="upper-first"/></xsl:apply-templates></sorted>' % (order, lang, dtype))
    S["id"] = ('', '<ids><xsl:for-each select="//item"><r t="{count(id(@ref))}" g="{generate-id(id(@ref)[1]) = generate-id(.)}"/></xsl:for-each>'
                   '<xsl:value-of select="count(id(\'a0_0 a1_1 nope\'))"/><u><xsl:value-of select="unparsed-entity-uri(/doc/@pic)"/></u></ids>')
    # id() results put into document order / compared by identity (on Xerces-backed sources: getElementById -> mapNode -> wrapper node)
    S["idorder"] = ('', '<io><xsl:for-each select="id(\'p0_1 p0_0 a0_1 a0_0\')|//item[2]"><xsl:value-of select="@id"/>,</xsl:for-each>'
                        '<xsl:value-of select="count(id(//item/@ref)/following::item)"/>;<xsl:value-of select="count(id(//item/@ref)/preceding::*)"/>;'
                        '<xsl:value-of select="generate-id(id(\'p0_0\')) = generate-id(//item[@id=\'p0_0\'])"/>;'
                        '<xsl:for-each select="//item"><xsl:if test="count(id(@ref)|.) = 1">s</xsl:if></xsl:for-each></io>')
    S["vars"] = ('<xsl:variable name="top" select="count(//item)"/>\n<xsl:param name="par" select="\'p\'"/>\n<xsl:variable name="rtf"><a><b>1</b><b>2</b></a></xsl:variable>',
                 '<vars t="{$top}" p="{$par}"><xsl:copy-of select="$rtf"/><xsl:variable name="loc"><xsl:for-each select="//item"><q><xsl:value-of select="@n"/></q></xsl:for-each></xsl:variable>'
                 '<xsl:value-of select="string-length($loc)"/><xsl:call-template name="rec"><xsl:with-param name="n" select="5"/></xsl:call-template></vars>')
    S["import"] = ('', '<imp><xsl:apply-templates select="//item[1]" mode="imp"/><xsl:apply-templates select="//x:e[1]" xmlns:x="urn:x"/>'
                       '<xsl:call-template name="impnamed"><xsl:with-param name="p" select="7"/></xsl:call-template>'
                       '<xsl:value-of select="format-number(1234.5,\'#.##0,0\',\'imp\')"/></imp>')
    S["attrsets"] = ('<xsl:attribute-set name="as1" use-attribute-sets="as2"><xsl:attribute name="a1"><xsl:value-of select="count(//item)"/></xsl:attribute></xsl:attribute-set>\n'
                     '<xsl:attribute-set name="as2"><xsl:attribute name="a2">two</xsl:attribute></xsl:attribute-set>',
                     '<as><xsl:element name="e" use-attribute-sets="as1"/><lit xsl:use-attribute-sets="as2"/><xsl:for-each select="//item[1]"><xsl:copy use-attribute-sets="as1"/></xsl:for-each></as>')
    S["message"] = ('', '<msg><xsl:message>note <xsl:value-of select="count(//item)"/></xsl:message>ok</msg>')
    S["misc"] = ('<xsl:strip-space elements="sec"/>\n<xsl:namespace-alias stylesheet-prefix="al" result-prefix="xsl"/>',
                 '<misc><xsl:value-of select="system-property(\'xsl:vendor\')"/><xsl:value-of select="function-available(\'key\')"/>'
                 '<xsl:value-of select="element-available(\'xsl:number\')"/><al:template match="x"/><xsl:comment>c</xsl:comment><xsl:processing-instruction name="p">d</xsl:processing-instruction>'
                 '<xsl:for-each select="//sec"><xsl:value-of select="count(text())"/><xsl:value-of select="lang(\'en\')"/></xsl:for-each>'
                 '<xsl:value-of select="translate(normalize-space(//item[1]),\'abc\',\'ABC\')"/><xsl:value-of select="sum(//item/@n[. = .])"/></misc>')
    S["exslt"] = ('', '<ex xmlns:math="http://exslt.org/math" xmlns:set="http://exslt.org/sets" xmlns:exsl="http://exslt.org/common" xmlns:str="http://exslt.org/strings">'
                      '<xsl:value-of select="math:max(//item/@n[. = .])"/>;<xsl:value-of select="count(set:distinct(//item/@k))"/>;'
                      '<xsl:variable name="f"><a>1</a><a>2</a></xsl:variable><xsl:value-of select="count(exsl:node-set($f)/a)"/>;<xsl:value-of select="str:padding(3,\'-\')"/></ex>')
    S["copyof"] = ('', '<copy><xsl:copy-of select="/*/*[1]/*[1]"/><xsl:for-each select="//item[1]"><xsl:value-of select="count(namespace::*)"/>,'
                       '<xsl:value-of select="count(preceding::*)"/>,<xsl:value-of select="count(ancestor-or-self::*)"/>,<xsl:value-of select="count(following-sibling::node())"/></xsl:for-each>'
                       '<xsl:value-of select="count(//comment())+count(//processing-instruction())"/><xsl:value-of select="name(//*[last()])"/></copy>')
    S["missingdoc"] = ('', '<md><xsl:value-of select="count(document(\'no-such-file.xml\'))"/></md>')
    S["applyimports"] = ('<xsl:template match="x:e" mode="ai" xmlns:x="urn:x"><hi><xsl:apply-imports/></hi></xsl:template>',
                         '<ai><xsl:apply-templates select="//x:e[1]" mode="ai" xmlns:x="urn:x"/></ai>')
    S["outputcdata"] = ('<xsl:output cdata-section-elements="cd"/>', '<cd>a &lt; b ]]&gt; c <xsl:value-of select="//item[1]/@k"/></cd>')
    # facilities USED but not DECLARED: the lookup tables of the compiled stylesheet are met empty
    S["keynokey"] = ('', '<nk><xsl:value-of select="count(key(\'nosuchkey\',\'x\'))"/></nk>')
    S["formatnoname"] = ('', '<fn><xsl:value-of select="format-number(1234.5,\'#,##0.0\',\'nosuchformat\')"/></fn>')
    S["attrsetnoset"] = ('', '<ns><xsl:element name="e" use-attribute-sets="nosuchset"/></ns>')
    S["nomode"] = ('', '<nm><xsl:apply-templates select="//item" mode="nosuchmode"/></nm>')
    # templates applied to attribute, text, comment and PI nodes: the per-node-type pattern tables of the stylesheet are consulted
    S["applyattrs"] = ('', '<aa><xsl:apply-templates select="//item[1]/@*"/><xsl:apply-templates select="//item[1]/node()"/>'
                           '<xsl:apply-templates select="//comment()[1]|//processing-instruction()[1]"/></aa>')
    # per-transformer extension function (installed only in +cfg runs; elsewhere the call is a reported error), a process-wide
    # one (installed before any thread starts), and the per-transformer top-level parameter
    S["extfn"] = ('<xsl:param name="par" select="\'unset\'"/>' if False else '',
                  '<ext xmlns:e="urn:c07ext" xmlns:g="urn:c07glob"><xsl:value-of select="g:name()"/>|<xsl:value-of select="function-available(\'e:tag\')"/>|'
                  '<xsl:for-each select="//item"><xsl:value-of select="e:tag()"/>,</xsl:for-each></ext>')
    S["extglob"] = ('', '<eg xmlns:g="urn:c07glob"><xsl:for-each select="//item"><xsl:value-of select="g:name()"/></xsl:for-each></eg>')
    S["error"] = ('', '<err><xsl:if test="count(//item) &gt; 0"><xsl:message terminate="yes">stop here</xsl:message></xsl:if></err>')
    return S


COMMON_TOP = ('<xsl:import href="imported.xsl"/>\n<xsl:output method="%s" indent="%s"/>\n')
COMMON_TEMPLATES = ('<xsl:template match="item" mode="srt"><t><xsl:value-of select="@id"/></t></xsl:template>\n'
                    '<xsl:template name="rec"><xsl:param name="n"/><xsl:if test="$n &gt; 0"><r><xsl:value-of select="$n"/></r><xsl:call-template name="rec"><xsl:with-param name="n" select="$n - 1"/></xsl:call-template></xsl:if></xsl:template>\n')


def stylesheet(r, names):
    S = snippets(r)
    method = r.weighted([("xml", 5), ("html", 2), ("text", 1)])
    indent = r.choice(["yes", "no"])
    tops, bodies = [], []
    for n in names:
        t, b = S[n]
        if t:
            tops.append(t)
        bodies.append(b)
    return ('<xsl:stylesheet version="1.0" %s>\n' % XSL + COMMON_TOP % (method, indent) + "\n".join(tops) + "\n" +
            '<xsl:template match="/"><out>\n' + "\n".join(bodies) + '\n</out></xsl:template>\n' + COMMON_TEMPLATES + '</xsl:stylesheet>\n')


FACILITIES = ["keys", "keydoc", "number", "numberfrom", "document", "format", "formatnodecl", "sort", "id", "vars", "import",
              "attrsets", "message", "misc", "exslt", "copyof", "missingdoc", "applyimports", "outputcdata", "nomode", "applyattrs", "extfn", "extglob", "idorder"]


# these end the transformation with a reported error (the error path and its message are compared too)
ERROR_FACILITIES = ["error", "keynokey", "formatnoname", "attrsetnoset"]


def pick_facilities(r):
    k = r.weighted([(1, 3), (2, 3), (3, 2), (5, 1)])
    names = r.shuffle(FACILITIES)[:k]
    if r.chance(1, 12):
        names.append(r.choice(ERROR_FACILITIES))
    return names


# corpus: minimised past failures / counterexample witnesses, run first.
CORPUS = [
    # lazy_listhead_counterexample: id() / unparsed-entity-uri() on a shared source tree without IDs or entities
    {"name": "id-noids", "source": "plain", "mode": "default", "kind": "b",
     "sheet": ('<xsl:stylesheet version="1.0" %s>\n<xsl:template match="/"><out n="{count(id(\'nope\'))}" '
               'u="{unparsed-entity-uri(\'e\')}"/></xsl:template>\n</xsl:stylesheet>\n') % XSL},
]
