"""C09 generators: documents (as trees), match patterns (as ASTs), their XML / pattern-text / token renderings,
and the shrinking moves used by checks/c09.py.  All randomness comes from the Rng handed in.

Tree node:   dict(kind='r'|'e'|'a'|'t'|'c'|'p', name=str, attrs=[node], kids=[node])
Pattern:     list of paths;  path = dict(abs=bool, steps=[(sep, step)]);  sep = 'c' | 'd'
             step = dict(attr=bool, test=(kind, name|None), preds=[(kind, arg|None)])
             test kinds: n any text comment pi pl node;  pred kinds: i last pe pnl a c na
"""

ENAMES = ["a", "b", "z", "q"]
ANAMES = ["x", "y"]
PNAMES = ["p", "q"]


# ------------------------------------------------------------------------------------------------ documents

def gen_children(r, depth, budget, top=False):
    """list of child nodes; budget = [remaining nodes]"""
    kids = []
    n = r.weighted([(0, 2), (1, 4), (2, 4), (3, 3), (4, 1)]) if depth > 0 else 0
    last_text = False
    for _ in range(n):
        if budget[0] <= 0:
            break
        k = r.weighted([("e", 10), ("t", 3), ("c", 1), ("p", 1)])
        if k == "t" and (last_text or top):
            k = "e"
        budget[0] -= 1
        if k == "e":
            kids.append(gen_elem(r, depth - 1, budget))
        elif k == "t":
            kids.append(dict(kind="t", name="", attrs=[], kids=[]))
        elif k == "c":
            kids.append(dict(kind="c", name="", attrs=[], kids=[]))
        else:
            kids.append(dict(kind="p", name=r.choice(PNAMES), attrs=[], kids=[]))
        last_text = k == "t"
    return kids


NSURI = {"P": "nsP", "Q": "nsQ", "D": "nsD"}
NSPFX = {"P": "p", "Q": "q"}
USE_NS = [False]


def gen_elem(r, depth, budget):
    e = dict(kind="e", name=r.choice(ENAMES), attrs=[], kids=[])
    if USE_NS[0]:
        # namespaces: two prefixes (p, q) and a default namespace declared on inner elements
        e["ns"] = r.weighted([(None, 5), ("P", 3), ("Q", 2), ("D", 1)])
        # extra namespace declarations at any depth (re-declaring a prefix, or an unused one): raw xmlns attributes
        # that consumers walking the DOM attributes (KeyTable) see and the attribute tests must reject
        if r.chance(1, 4):
            e["nsdecl"] = r.choice([' xmlns:p="nsP"', ' xmlns:r="nsR"', ' xmlns:q="nsQ" xmlns:r="nsR"'])
    for an in ANAMES:
        if budget[0] > 0 and r.chance(1, 4):
            budget[0] -= 1
            e["attrs"].append(dict(kind="a", name=an, attrs=[], kids=[]))
            if USE_NS[0] and r.chance(1, 4):
                e["attrs"][-1]["ns"] = "P"
    e["kids"] = gen_children(r, depth, budget)
    return e


def gen_doc(r, maxnodes, ns=None):
    USE_NS[0] = r.chance(1, 3) if ns is None else ns
    try:
        return gen_doc1(r, maxnodes)
    finally:
        uses = USE_NS[0]
        USE_NS[0] = False


def expanded(n):
    """expanded name as in the node table: local or {uri}local"""
    return "{%s}%s" % (NSURI[n["ns"]], n["name"]) if n.get("ns") else n["name"]


def gen_doc1(r, maxnodes):
    budget = [maxnodes - 2]
    rootkids = []
    if r.chance(1, 6):
        rootkids.append(dict(kind=r.choice(["c", "p"]), name="p", attrs=[], kids=[]))
        budget[0] -= 1
    de = gen_elem(r, r.range(1, 5), budget)
    rootkids.append(de)
    if r.chance(1, 8):
        rootkids.append(dict(kind="c", name="", attrs=[], kids=[]))
    for k in rootkids:
        if k["kind"] != "p":
            k["name"] = k["name"] if k["kind"] == "e" else ""
    return dict(kind="r", name="", attrs=[], kids=rootkids, nsdoc=USE_NS[0])


def chain_doc(names):
    """<n1><n2>…</n2></n1>"""
    cur = None
    for nm in reversed(names):
        cur = dict(kind="e", name=nm, attrs=[], kids=[cur] if cur else [])
    return dict(kind="r", name="", attrs=[], kids=[cur])


def xml_of(n, dflt="", top=False):
    k = n["kind"]
    if k == "r":
        return "".join(xml_of(c, "", bool(n.get("nsdoc"))) for c in n["kids"])
    if k == "e":
        ns = n.get("ns")
        tag = (NSPFX[ns] + ":" + n["name"]) if ns in NSPFX else n["name"]
        decl = ' xmlns:p="nsP" xmlns:q="nsQ"' if top else ""
        if ns == "D" and dflt != "D":
            decl += ' xmlns="nsD"'; dflt = "D"
        elif ns is None and dflt == "D":
            decl += ' xmlns=""'; dflt = ""
        if n.get("nsdecl") and not top:
            decl += n["nsdecl"]
        at = "".join(' %s%s="%s"' % ("p:" if a.get("ns") else "", a["name"], a.get("value", "1")) for a in n["attrs"])
        if not n["kids"]:
            return "<%s%s%s/>" % (tag, decl, at)
        return "<%s%s%s>%s</%s>" % (tag, decl, at, "".join(xml_of(c, dflt) for c in n["kids"]), tag)
    if k == "t":
        return "t"
    if k == "c":
        return "<!--c-->"
    if k == "p":
        return "<?%s d?>" % n["name"]
    raise ValueError(k)


def add_ids(r, root):
    """give about half of the elements an ID attribute `id` (first attribute); returns {id value: element}"""
    ids = {}

    def go(n):
        if n["kind"] == "e":
            if r.chance(1, 2):
                v = "v%d" % len(ids)
                n["attrs"].insert(0, dict(kind="a", name="id", value=v, attrs=[], kids=[]))
                ids[v] = n
            for c in n["kids"]:
                go(c)
    for c in root["kids"]:
        go(c)
    return ids


def xml_with_dtd(root):
    """document with an internal subset declaring `id` as an ID attribute of every element type used"""
    names = set()

    def go(n):
        if n["kind"] == "e":
            names.add(n["name"])
        for c in n["kids"]:
            go(c)
    go(root)
    de = [k for k in root["kids"] if k["kind"] == "e"][0]["name"]
    return "<!DOCTYPE %s [%s]>%s" % (de, "".join("<!ATTLIST %s id ID #IMPLIED>" % x for x in sorted(names)), xml_of(root))


def index_of(root):
    """{id(node dict): document-order index}"""
    idx = {}
    cnt = [0]

    def go(n):
        idx[id(n)] = cnt[0]
        cnt[0] += 1
        for a in n["attrs"]:
            go(a)
        for c in n["kids"]:
            go(c)
    go(root)
    return idx


def table_of(root):
    """flat node table in document order: tokens as in the line protocol"""
    toks = []

    def go(n, par):
        me = len(toks)
        k = n["kind"]
        if k == "r":
            toks.append("r")
        elif k in ("e", "a", "p"):
            toks.append("%s:%s:%d" % (k, expanded(n), par))
        else:
            toks.append("%s::%d" % (k, par))
        for a in n["attrs"]:
            go(a, me)
        for c in n["kids"]:
            go(c, me)
    go(root, 0)
    return toks


def doc_line(root):
    t = table_of(root)
    return "doc %s %d %s" % (xml_of(root).encode().hex(), len(t), " ".join(t))


def count_nodes(root):
    return len(table_of(root))


def doc_shrinks(root):
    """documents with one subtree / attribute removed, or one element replaced by its children"""
    import copy
    out = []

    def paths(n, p):
        for i, a in enumerate(n["attrs"]):
            yield p + [("attrs", i)]
        for i, c in enumerate(n["kids"]):
            yield p + [("kids", i)]
            for q in paths(c, p + [("kids", i)]):
                yield q
    for p in paths(root, []):
        for mode in ("del", "hoist"):
            d = copy.deepcopy(root)
            cur = d
            for f, i in p[:-1]:
                cur = cur[f][i]
            f, i = p[-1]
            victim = cur[f][i]
            if mode == "del":
                del cur[f][i]
            else:
                if f != "kids" or victim["kind"] != "e" or not victim["kids"]:
                    continue
                cur[f][i:i + 1] = victim["kids"]
            if not well_formed(d):
                continue
            out.append(d)
    return out


def well_formed(root):
    els = [k for k in root["kids"] if k["kind"] == "e"]
    if len(els) != 1 or any(k["kind"] == "t" for k in root["kids"]):
        return False

    def ok(n):
        prev = None
        for c in n["kids"]:
            if c["kind"] == "t" and prev == "t":
                return False
            prev = c["kind"]
            if not ok(c):
                return False
        names = [a["name"] for a in n["attrs"]]
        return len(names) == len(set(names))
    return ok(root)


# ------------------------------------------------------------------------------------------------ patterns

POOL = {"e": ENAMES, "q": [], "ns": False}


def set_pool(root):
    """bias element names in generated patterns towards the names that occur in the document"""
    names = []

    qn = []

    def go(n):
        if n["kind"] == "e":
            names.append(n["name"])
            if n.get("ns") in NSPFX:
                qn.append((NSPFX[n["ns"]], NSURI[n["ns"]], n["name"]))
        for c in n["kids"]:
            go(c)
    if root is not None:
        go(root)
    POOL["e"] = (sorted(set(names)) * 3 + ENAMES) if names else ENAMES
    POOL["q"] = sorted(set(qn))
    POOL["ns"] = bool(root is not None and root.get("nsdoc"))


def gen_test(r, attr, exotic):
    if POOL["ns"] and r.chance(1, 3):
        # prefixed name tests: p:name, q:name, p:*, q:*  (prefixes bound on the document element / the stylesheet)
        pfx, uri = r.choice([("p", "nsP"), ("q", "nsQ")])
        if r.chance(1, 3):
            return ("w", (pfx, uri))
        if attr:
            return ("q", ("p", "nsP", r.choice(ANAMES)))
        if POOL["q"] and r.chance(2, 3):
            return ("q", r.choice(POOL["q"]))
        return ("q", (pfx, uri, r.choice(POOL["e"])))
    if attr:
        if exotic and r.chance(1, 3):
            return (r.choice(["node", "text", "comment"]), None)
        return r.weighted([(("n", r.choice(ANAMES)), 5), (("any", None), 2)])
    return r.weighted([(("n", r.choice(POOL["e"])), 12), (("any", None), 4), (("text", None), 2), (("comment", None), 1),
                       (("pi", None), 1), (("pl", r.choice(PNAMES)), 1), (("node", None), 2 if exotic else 0)])


def gen_pred(r):
    k = r.weighted([("i", 5), ("last", 3), ("pe", 2), ("pnl", 1), ("le", 2), ("lg", 2), ("pll", 1), ("lm1", 1),
                    # number-VALUED, neither literal nor position()/last(): positional by XPath 2.4
                    ("sl", 2), ("dv", 1), ("ce", 1), ("ng", 1), ("cc", 2), ("cs", 3), ("sa", 2), ("nu", 2),
                    ("a", 4), ("c", 3), ("na", 2)])
    if k == "sl":
        return (k, (r.range(0, 2), r.range(0, 2)))
    if k in ("dv", "ce"):
        return (k, (r.range(0, 5), r.weighted([(1, 2), (2, 4), (3, 1), (0, 1)])))
    if k == "ng":
        return (k, r.range(0, 2))
    if k in ("cc", "cs"):
        return (k, r.choice(POOL["e"]))
    if k in ("sa", "nu"):
        return (k, r.choice(ANAMES))
    if k in ("i", "pe", "le"):
        return (k, r.weighted([(1, 5), (2, 4), (3, 1), (0, 1)]))
    if k == "lg":
        return (k, r.weighted([(0, 1), (1, 4), (2, 3)]))
    if k in ("a", "na"):
        return (k, r.choice(ANAMES))
    if k == "c":
        return (k, r.choice(POOL["e"]))
    return (k, None)


def gen_step(r, last, exotic):
    attr = last and r.chance(1, 6)
    if exotic and not last and r.chance(1, 12):
        attr = True
    npred = r.weighted([(0, 6), (1, 4), (2, 1)])
    if attr and not exotic:
        # positional predicates on attribute steps belong to the exotic class
        preds = [p for p in (gen_pred(r) for _ in range(npred)) if p[0] in ("a", "c", "na")]
    else:
        preds = [gen_pred(r) for _ in range(npred)]
    test = gen_test(r, attr, exotic)
    if attr and test[0] not in ("n", "any"):
        # attribute::node()[k] counts the namespace-declaration attributes of the DOM (xmlns:xml on the document
        # element), which the model's node table does not contain: no positional predicates on such steps
        preds = [p for p in preds if p[0] in ("a", "c", "na")]
    # the axis may be spelled out: child::name / attribute::name
    return dict(attr=attr, test=test, preds=preds, explicit=r.chance(1, 5))


def gen_path(r, exotic):
    form = r.weighted([("rel", 10), ("abs", 3), ("absd", 3), ("slash", 1)])
    if form == "slash":
        return dict(abs=True, steps=[])
    n = r.weighted([(1, 4), (2, 6), (3, 5), (4, 2)])
    steps = []
    for i in range(n):
        sep = "c" if i == 0 else r.weighted([("c", 3), ("d", 2)])
        steps.append((sep, gen_step(r, i == n - 1, exotic)))
    if form == "absd":
        steps[0] = ("d", steps[0][1])
    return dict(abs=form != "rel", steps=steps)


def gen_pattern(r, exotic=False):
    n = r.weighted([(1, 8), (2, 1)])
    P = [gen_path(r, exotic) for _ in range(n)]
    # the expression compiler rejects "/|x" (a bare "/" followed by "|"), so the defining side could not be
    # evaluated by the real engine: a bare "/" alternative is always written last
    return [p for p in P if p["steps"]] + [p for p in P if not p["steps"]][:1]


def render_test(t):
    k, a = t
    if k == "q":
        return "%s:%s" % (a[0], a[2])
    if k == "w":
        return "%s:*" % a[0]
    return {"n": a, "any": "*", "text": "text()", "comment": "comment()", "pi": "processing-instruction()",
            "pl": "processing-instruction('%s')" % a, "node": "node()"}[k]


def render_pred(p):
    k, a = p
    if k == "sl":
        return "[%d+%d]" % a
    if k == "dv":
        return "[%d div %d]" % a
    if k == "ce":
        return "[ceiling(%d div %d)]" % a
    if k in ("ng", "cc", "cs", "sa", "nu"):
        return {"ng": "[-%s]", "cc": "[count(%s)]", "cs": "[count(../%s)]", "sa": "[string-length(@%s)]",
                "nu": "[number(@%s)]"}[k] % a
    return {"i": "[%s]" % a, "last": "[last()]", "pe": "[position()=%s]" % a, "pnl": "[position()!=last()]",
            "le": "[last()=%s]" % a, "lg": "[last()>%s]" % a, "pll": "[position()<last()]", "lm1": "[last()-1]",
            "a": "[@%s]" % a, "c": "[%s]" % a, "na": "[not(@%s)]" % a}[k]


def axis_text(s):
    if s.get("explicit"):
        return "attribute::" if s["attr"] else "child::"
    return "@" if s["attr"] else ""


def render_step(s):
    return axis_text(s) + render_test(s["test"]) + "".join(render_pred(p) for p in s["preds"])


def render_path(p):
    if not p["steps"]:
        return "/"
    out = ""
    for i, (sep, s) in enumerate(p["steps"]):
        if i > 0 or p["abs"]:
            out += "/" if sep == "c" else "//"
        out += render_step(s)
    return out


def render_pattern(P):
    return "|".join(render_path(p) for p in P)


def tok_test(t):
    k, a = t
    if k in ("q", "w"):
        return k + "." + ".".join(a)
    return "%s.%s" % (k, a) if k in ("n", "pl") else k


def tok_pred(p):
    k, a = p
    if k in ("i", "pe", "le", "lg"):
        return "%s%d" % (k, a)
    if k in ("sl", "dv", "ce"):
        return "%s.%d.%d" % (k, a[0], a[1])
    if k in ("ng", "cc", "cs", "sa", "nu"):
        return "%s.%s" % (k, a)
    if k in ("a", "c", "na"):
        return "%s.%s" % (k, a)
    return k


def tok_axis(s):
    ax = "a" if s["attr"] else "c"
    return ax.upper() if s.get("explicit") else ax


def tok_path(p):
    out = ["abs" if p["abs"] else "rel"]
    for sep, s in p["steps"]:
        out.append("%s:%s:%s:%s" % (sep, tok_axis(s), tok_test(s["test"]),
                                    ",".join(tok_pred(q) for q in s["preds"]) or "-"))
    return " ".join(out)


def pat_line(P):
    return "pat %s %s" % (render_pattern(P).encode().hex(), " | ".join(tok_path(p) for p in P))


def valid_path(p):
    if not p["steps"]:
        return p["abs"]
    return p["abs"] or p["steps"][0][0] == "c"


def pattern_shrinks(P):
    """patterns with one alternative / step / predicate removed, a `//` turned into `/`, the lead dropped"""
    import copy
    out = []
    if len(P) > 1:
        for i in range(len(P)):
            out.append(P[:i] + P[i + 1:])
    for pi, p in enumerate(P):
        def put(q):
            if valid_path(q) and (q["steps"] or q["abs"]):
                out.append(P[:pi] + [q] + P[pi + 1:])
        if p["abs"] and p["steps"]:
            q = copy.deepcopy(p); q["abs"] = False; q["steps"][0] = ("c", q["steps"][0][1]); put(q)
        for si in range(len(p["steps"])):
            if len(p["steps"]) > 1:
                q = copy.deepcopy(p); del q["steps"][si]
                if si == 0 and not q["abs"]:
                    q["steps"][0] = ("c", q["steps"][0][1])
                put(q)
            sep, s = p["steps"][si]
            if sep == "d":
                q = copy.deepcopy(p); q["steps"][si] = ("c", q["steps"][si][1]); put(q)
            for k in range(len(s["preds"])):
                q = copy.deepcopy(p); del q["steps"][si][1]["preds"][k]; put(q)
    return out


def shape_of(P):
    """pattern text with names and numbers abstracted (N, K): the key known findings are matched on"""
    def st(s):
        k, a = s["test"]
        t = {"n": "N", "any": "*", "pl": "processing-instruction('N')", "q": "P:N", "w": "P:*"}.get(k) or render_test(s["test"])
        ps = ""
        for pk, pa in s["preds"]:
            if pk in ("sl", "dv", "ce", "ng", "cc", "cs", "sa", "nu"):
                ps += {"sl": "[K+K]", "dv": "[K div K]", "ce": "[ceiling(K div K)]", "ng": "[-K]", "cc": "[count(N)]",
                       "cs": "[count(../N)]", "sa": "[string-length(@N)]", "nu": "[number(@N)]"}[pk]
                continue
            ps += {"i": "[K]", "last": "[last()]", "pe": "[position()=K]", "pnl": "[position()!=last()]", "a": "[@N]",
                   "le": "[last()=K]", "lg": "[last()>K]", "pll": "[position()<last()]", "lm1": "[last()-1]",
                   "c": "[N]", "na": "[not(@N)]"}[pk]
        return axis_text(s) + t + ps
    outs = []
    for p in P:
        if not p["steps"]:
            outs.append("/")
            continue
        o = ""
        for i, (sep, s) in enumerate(p["steps"]):
            if i > 0 or p["abs"]:
                o += "/" if sep == "c" else "//"
            o += st(s)
        outs.append(o)
    return "|".join(outs)


# small-scope exhaustive enumeration (thorough tier)

def all_trees(max_nodes):
    """all documents with one document element, element names {a,b}, optional attribute x, text leaves, up to
    max_nodes nodes (excluding the root)"""
    from functools import lru_cache

    @lru_cache(None)
    def forests(n, allow_text_first):
        # list of child lists using exactly n nodes
        if n == 0:
            return [()]
        res = []
        # first child: text
        if allow_text_first:
            for rest in forests(n - 1, False):
                res.append((("t",),) + rest)
        # first child: element with k nodes
        for k in range(1, n + 1):
            for e in elems(k):
                for rest in forests(n - k, True):
                    res.append((e,) + rest)
        return res

    @lru_cache(None)
    def elems(n):
        res = []
        for nm in ("a", "b"):
            for hasx in (False, True):
                m = n - 1 - (1 if hasx else 0)
                if m < 0:
                    continue
                for f in forests(m, True):
                    res.append(("e", nm, hasx, f))
        return res

    def build(t):
        if t[0] == "t":
            return dict(kind="t", name="", attrs=[], kids=[])
        _, nm, hasx, f = t
        return dict(kind="e", name=nm, attrs=[dict(kind="a", name="x", attrs=[], kids=[])] if hasx else [],
                    kids=[build(c) for c in f])
    out = []
    for n in range(1, max_nodes + 1):
        for e in elems(n):
            out.append(dict(kind="r", name="", attrs=[], kids=[build(e)]))
    return out


def all_patterns(max_steps):
    tests = [("n", "a"), ("n", "b"), ("any", None), ("text", None), ("node", None)]
    preds = [[], [("i", 1)], [("last", None)], [("a", "x")]]
    steps = [dict(attr=False, test=t, preds=p) for t in tests for p in preds]
    steps += [dict(attr=True, test=("n", "x"), preds=[])]
    out = []
    import itertools
    for n in range(1, max_steps + 1):
        for combo in itertools.product(steps, repeat=n):
            if any(s["attr"] for s in combo[:-1]):
                continue
            for seps in itertools.product("cd", repeat=n - 1):
                for lead in ("rel", "abs", "absd"):
                    st = [("d" if (i == 0 and lead == "absd") else "c" if i == 0 else seps[i - 1], s) for i, s in enumerate(combo)]
                    out.append([dict(abs=lead != "rel", steps=st)])
    return out
